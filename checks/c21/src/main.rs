//! C21 — secret arguments never appear in logged or traced query text.
//!
//! Seam: `ExtensionContext::stringify_execute_doc(&doc, &variables)` called from a harness
//! extension's `parse_query` hook — exactly the call the `Logger` and `Tracing` extensions make.
//! The request is then executed for real (`Schema::execute` / `execute_stream`) so that every
//! enumerated document is known to be a valid one whose secret value really reaches the site
//! declared `#[graphql(secret)]` (the resolver echoes what it received there).
//!
//! Space: the complete product
//!   root type {Query, Mutation, Subscription} × field position {root field, field of a nested object}
//!   × path from the argument to the secret site {"" = secret argument, O / OO / OOO = secret input-object
//!     field at depth 1–3, LO = field of an object inside a list argument, OLO = … inside a list field}
//!   × shape of the secret value {String, element of a list, field of an object, field of an object inside a
//!     list, nested two deep}
//!   × delivery {literal, `$v` provided at the site, `$v` defaulted at the site, `$v` provided for the whole
//!     argument, `$v` defaulted for the whole argument}
//!   × syntactic context {direct, `... on T {}`, `... {}`, named fragment, fragment spread from a fragment}
//!   × {named, anonymous operation} × {enclosing field aliased, not}  (thorough: × {alias, no alias} × {control argument first, last}).
//! Every case carries a unique secret sentinel and control sentinels in non-secret positions.
//!
//! Oracle: the secret sentinel does not occur in the produced text. Non-vacuity: the top-level control
//! sentinel does occur, and the resolver did receive the secret at the secret site.

use agv_engine::record::{Cx, Violation};
use agv_engine::sched::drive;
use async_graphql::extensions::{Extension, ExtensionContext, ExtensionFactory, NextParseQuery};
use async_graphql::parser::types::ExecutableDocument;
use async_graphql::*;
use futures_util::stream::{self, Stream, StreamExt};
use rayon::prelude::*;
use serde_json::json;
use std::cell::RefCell;
use std::sync::Arc;

// ---------------------------------------------------------------------------------------------
// harness schema (local to this check)

#[derive(InputObject, Clone)]
struct Tok {
    token: String,
    note: Option<String>,
}
#[derive(InputObject, Clone)]
struct Tok2 {
    cred: Tok,
    note: Option<String>,
}
/// Object with secret fields of every shape (depth 1 below whatever holds it).
#[derive(InputObject, Clone)]
struct L1 {
    ctl: Option<String>,
    #[graphql(secret)]
    s: Option<String>,
    #[graphql(secret)]
    sl: Option<Vec<String>>,
    #[graphql(secret)]
    so: Option<Tok>,
    #[graphql(secret)]
    sol: Option<Vec<Tok>>,
    #[graphql(secret)]
    soo: Option<Tok2>,
}
#[derive(InputObject, Clone)]
struct L2 {
    ctl: Option<String>,
    inner: Option<L1>,
    list: Option<Vec<L1>>,
}
#[derive(InputObject, Clone)]
struct L3 {
    ctl: Option<String>,
    inner: Option<L2>,
}

impl Tok {
    fn got(&self, g: &mut Vec<String>) {
        g.push(self.token.clone());
        g.extend(self.note.clone());
    }
}
impl Tok2 {
    fn got(&self, g: &mut Vec<String>) {
        self.cred.got(g);
        g.extend(self.note.clone());
    }
}
fn got_shapes(g: &mut Vec<String>, s: &Option<String>, sl: &Option<Vec<String>>, so: &Option<Tok>, sol: &Option<Vec<Tok>>, soo: &Option<Tok2>) {
    g.extend(s.clone());
    g.extend(sl.clone().unwrap_or_default());
    if let Some(t) = so {
        t.got(g)
    }
    for t in sol.iter().flatten() {
        t.got(g)
    }
    if let Some(t) = soo {
        t.got(g)
    }
}
impl L1 {
    fn got(&self, g: &mut Vec<String>) {
        got_shapes(g, &self.s, &self.sl, &self.so, &self.sol, &self.soo)
    }
}
impl L2 {
    fn got(&self, g: &mut Vec<String>) {
        if let Some(i) = &self.inner {
            i.got(g)
        }
        for i in self.list.iter().flatten() {
            i.got(g)
        }
    }
}
impl L3 {
    fn got(&self, g: &mut Vec<String>) {
        if let Some(i) = &self.inner {
            i.got(g)
        }
    }
}

/// What the resolver received in secret positions (echoed so the harness can see the secret arrived).
#[allow(clippy::too_many_arguments)]
fn echo(s: Option<String>, sl: Option<Vec<String>>, so: Option<Tok>, sol: Option<Vec<Tok>>, soo: Option<Tok2>, o: Option<L1>, oo: Option<L2>, ooo: Option<L3>, lo: Option<Vec<L1>>) -> String {
    let mut g = Vec::new();
    got_shapes(&mut g, &s, &sl, &so, &sol, &soo);
    if let Some(x) = &o {
        x.got(&mut g)
    }
    if let Some(x) = &oo {
        x.got(&mut g)
    }
    if let Some(x) = &ooo {
        x.got(&mut g)
    }
    for x in lo.iter().flatten() {
        x.got(&mut g)
    }
    g.join(",")
}

struct Node;
#[Object]
impl Node {
    #[allow(clippy::too_many_arguments)]
    async fn f(
        &self,
        ctl: Option<String>,
        #[graphql(secret)] s: Option<String>,
        #[graphql(secret)] sl: Option<Vec<String>>,
        #[graphql(secret)] so: Option<Tok>,
        #[graphql(secret)] sol: Option<Vec<Tok>>,
        #[graphql(secret)] soo: Option<Tok2>,
        o: Option<L1>,
        oo: Option<L2>,
        ooo: Option<L3>,
        lo: Option<Vec<L1>>,
    ) -> String {
        let _ = ctl;
        echo(s, sl, so, sol, soo, o, oo, ooo, lo)
    }
}

struct Query;
#[Object]
impl Query {
    #[allow(clippy::too_many_arguments)]
    async fn f(
        &self,
        ctl: Option<String>,
        #[graphql(secret)] s: Option<String>,
        #[graphql(secret)] sl: Option<Vec<String>>,
        #[graphql(secret)] so: Option<Tok>,
        #[graphql(secret)] sol: Option<Vec<Tok>>,
        #[graphql(secret)] soo: Option<Tok2>,
        o: Option<L1>,
        oo: Option<L2>,
        ooo: Option<L3>,
        lo: Option<Vec<L1>>,
    ) -> String {
        let _ = ctl;
        echo(s, sl, so, sol, soo, o, oo, ooo, lo)
    }
    async fn node(&self) -> Node {
        Node
    }
}

struct Mutation;
#[Object]
impl Mutation {
    #[allow(clippy::too_many_arguments)]
    async fn f(
        &self,
        ctl: Option<String>,
        #[graphql(secret)] s: Option<String>,
        #[graphql(secret)] sl: Option<Vec<String>>,
        #[graphql(secret)] so: Option<Tok>,
        #[graphql(secret)] sol: Option<Vec<Tok>>,
        #[graphql(secret)] soo: Option<Tok2>,
        o: Option<L1>,
        oo: Option<L2>,
        ooo: Option<L3>,
        lo: Option<Vec<L1>>,
    ) -> String {
        let _ = ctl;
        echo(s, sl, so, sol, soo, o, oo, ooo, lo)
    }
    async fn node(&self) -> Node {
        Node
    }
}

struct Subscription;
#[Subscription]
impl Subscription {
    #[allow(clippy::too_many_arguments)]
    async fn f(
        &self,
        ctl: Option<String>,
        #[graphql(secret)] s: Option<String>,
        #[graphql(secret)] sl: Option<Vec<String>>,
        #[graphql(secret)] so: Option<Tok>,
        #[graphql(secret)] sol: Option<Vec<Tok>>,
        #[graphql(secret)] soo: Option<Tok2>,
        o: Option<L1>,
        oo: Option<L2>,
        ooo: Option<L3>,
        lo: Option<Vec<L1>>,
    ) -> impl Stream<Item = String> {
        let _ = ctl;
        stream::iter(vec![echo(s, sl, so, sol, soo, o, oo, ooo, lo)])
    }
    async fn node(&self) -> impl Stream<Item = Node> {
        stream::iter(vec![Node])
    }
}

// ---------------------------------------------------------------------------------------------
// the seam: an extension doing what Logger / Tracing do

thread_local! {
    static TEXTS: RefCell<Vec<String>> = const { RefCell::new(Vec::new()) };
}

struct Capture;
impl ExtensionFactory for Capture {
    fn create(&self) -> Arc<dyn Extension> {
        Arc::new(CaptureExt)
    }
}
struct CaptureExt;
#[async_trait::async_trait]
impl Extension for CaptureExt {
    async fn parse_query(&self, ctx: &ExtensionContext<'_>, query: &str, variables: &Variables, next: NextParseQuery<'_>) -> ServerResult<ExecutableDocument> {
        let document = next.run(ctx, query, variables).await?;
        let text = ctx.stringify_execute_doc(&document, variables);
        TEXTS.with(|t| t.borrow_mut().push(text));
        Ok(document)
    }
}

type S = Schema<Query, Mutation, Subscription>;
fn schema() -> S {
    Schema::build(Query, Mutation, Subscription).extension(Capture).finish()
}

// ---------------------------------------------------------------------------------------------
// case construction

#[derive(Clone)]
enum V {
    Str(String),
    List(Vec<V>),
    Obj(Vec<(&'static str, V)>),
    Var,
}
impl V {
    fn gql(&self) -> String {
        match self {
            V::Str(s) => format!("\"{s}\""),
            V::List(v) => format!("[{}]", v.iter().map(|x| x.gql()).collect::<Vec<_>>().join(", ")),
            V::Obj(v) => format!("{{{}}}", v.iter().map(|(k, x)| format!("{k}: {}", x.gql())).collect::<Vec<_>>().join(", ")),
            V::Var => "$v".to_string(),
        }
    }
    fn json(&self) -> serde_json::Value {
        match self {
            V::Str(s) => json!(s),
            V::List(v) => serde_json::Value::Array(v.iter().map(|x| x.json()).collect()),
            V::Obj(v) => serde_json::Value::Object(v.iter().map(|(k, x)| (k.to_string(), x.json())).collect()),
            V::Var => panic!("variable inside a variable value"),
        }
    }
}

const ROOTS: [(&str, &str); 3] = [("query", "Query"), ("mutation", "Mutation"), ("subscription", "Subscription")];
const PATHS: [&str; 6] = ["", "O", "OO", "OOO", "LO", "OLO"];
const ARG_TYPES: [&str; 6] = ["", "L1", "L2", "L3", "[L1!]", "L2"];
const SHAPES: [(&str, &str, &str); 5] = [
    ("s", "String", "string"),
    ("sl", "[String!]", "list-element"),
    ("so", "Tok", "object-field"),
    ("sol", "[Tok!]", "object-in-list-field"),
    ("soo", "Tok2", "nested-two-deep"),
];
const DELIVERIES: [&str; 5] = ["literal", "site-variable", "site-default", "arg-variable", "arg-default"];
const CTXS: [&str; 5] = ["direct", "typed-inline-fragment", "untyped-inline-fragment", "named-fragment", "nested-named-fragment"];

#[derive(Clone, Copy, Debug, PartialEq)]
struct Case {
    root: usize,
    nested: bool,
    path: usize,
    shape: usize,
    delivery: usize,
    ctx: usize,
    named: bool,
    alias: bool,
    ctl_last: bool,
    /// the enclosing `node` field carries an alias (nested cases only)
    anc_alias: bool,
}

struct Built {
    doc: String,
    vars: serde_json::Value,
    sentinel: String,
    ctl0: String,
    inner_ctls: Vec<String>,
    inner_expected: bool,
}

fn sentinel_of(id: usize) -> String {
    format!("S3CR3T_{id:05}")
}

fn build(c: &Case, id: usize) -> Built {
    let sentinel = sentinel_of(id);
    let ctl = |k: usize| format!("CTL_{id:05}_{k}");
    let sv = V::Str(sentinel.clone());
    let site_value = match c.shape {
        0 => sv.clone(),
        1 => V::List(vec![V::Str(format!("{sentinel}b")), sv.clone()]),
        2 => V::Obj(vec![("token", sv.clone())]),
        3 => V::List(vec![V::Obj(vec![("token", sv.clone())])]),
        _ => V::Obj(vec![("cred", V::Obj(vec![("token", sv.clone())]))]),
    };
    let (sname, stype, _) = SHAPES[c.shape];
    let site_var = matches!(c.delivery, 1 | 2);
    let at_site = if site_var { V::Var } else { site_value.clone() };
    let mut inner_ctls = Vec::new();
    let l1 = |k: usize, inner_ctls: &mut Vec<String>| {
        inner_ctls.push(ctl(k));
        V::Obj(vec![("ctl", V::Str(ctl(k))), (sname, at_site.clone())])
    };
    // the argument that carries the secret site
    let (arg_name, arg_value): (&str, V) = match PATHS[c.path] {
        "" => (sname, at_site.clone()),
        "O" => ("o", l1(1, &mut inner_ctls)),
        "OO" => {
            let i = l1(2, &mut inner_ctls);
            inner_ctls.push(ctl(1));
            ("oo", V::Obj(vec![("ctl", V::Str(ctl(1))), ("inner", i)]))
        }
        "OOO" => {
            let i = l1(3, &mut inner_ctls);
            inner_ctls.push(ctl(2));
            inner_ctls.push(ctl(1));
            ("ooo", V::Obj(vec![("ctl", V::Str(ctl(1))), ("inner", V::Obj(vec![("ctl", V::Str(ctl(2))), ("inner", i)]))]))
        }
        "LO" => ("lo", V::List(vec![l1(1, &mut inner_ctls)])),
        _ => {
            let i = l1(2, &mut inner_ctls);
            inner_ctls.push(ctl(1));
            ("oo", V::Obj(vec![("ctl", V::Str(ctl(1))), ("list", V::List(vec![i]))]))
        }
    };
    let arg_type = if c.path == 0 { stype } else { ARG_TYPES[c.path] };
    let (arg_text, header, vars) = match c.delivery {
        0 => (arg_value.gql(), String::new(), json!({})),
        1 => (arg_value.gql(), format!("($v: {stype})"), json!({"v": site_value.json()})),
        2 => (arg_value.gql(), format!("($v: {stype} = {})", site_value.gql()), json!({})),
        3 => ("$v".to_string(), format!("($v: {arg_type})"), json!({"v": arg_value.json()})),
        _ => ("$v".to_string(), format!("($v: {arg_type} = {})", arg_value.gql()), json!({})),
    };
    let ctl0 = ctl(0);
    let args = if c.ctl_last { format!("{arg_name}: {arg_text}, ctl: \"{ctl0}\"") } else { format!("ctl: \"{ctl0}\", {arg_name}: {arg_text}") };
    let field = format!("{}f({args})", if c.alias { "al: " } else { "" });
    let (kw, root_ty) = ROOTS[c.root];
    let ty = if c.nested { "Node" } else { root_ty };
    let (sel, frags) = match c.ctx {
        0 => (field, String::new()),
        1 => (format!("... on {ty} {{ {field} }}"), String::new()),
        2 => (format!("... {{ {field} }}"), String::new()),
        3 => ("...Fa".to_string(), format!(" fragment Fa on {ty} {{ {field} }}")),
        _ => ("...Fa".to_string(), format!(" fragment Fa on {ty} {{ ...Fb }} fragment Fb on {ty} {{ {field} }}")),
    };
    let body = if c.nested { format!("{{ {}node {{ {sel} }} }}", if c.anc_alias { "nd: " } else { "" }) } else { format!("{{ {sel} }}") };
    let head = if c.named {
        format!("{kw} Op{header} ")
    } else if header.is_empty() && c.root == 0 {
        String::new()
    } else {
        format!("{kw} {header} ")
    };
    // inner controls are printed when the enclosing argument is resolvable by the stringifier:
    // literal or provided variables (an argument mentioning an unprovided variable prints as null)
    let inner_expected = matches!(c.delivery, 0 | 1 | 3);
    Built { doc: format!("{head}{body}{frags}"), vars, sentinel, ctl0, inner_ctls, inner_expected }
}

struct Obs {
    texts: Vec<String>,
    data: String,
    errors: Vec<String>,
    /// subscription stream ended without a single response
    no_event: bool,
}

fn execute(schema: &S, root: usize, doc: &str, vars: &serde_json::Value) -> Result<Obs, String> {
    TEXTS.with(|t| t.borrow_mut().clear());
    let req = Request::new(doc).variables(Variables::from_json(vars.clone()));
    let resp = agv_engine::catch_quiet(|| {
        if root == 2 {
            let mut st = schema.execute_stream(req);
            drive(st.next())
        } else {
            drive(schema.execute(req)).map(Some)
        }
    })?;
    let texts = TEXTS.with(|t| std::mem::take(&mut *t.borrow_mut()));
    match resp {
        Some(Some(r)) => Ok(Obs { texts, data: r.data.to_string(), errors: r.errors.iter().map(|e| e.message.clone()).collect(), no_event: false }),
        Some(None) => Ok(Obs { texts, data: String::new(), errors: Vec::new(), no_event: true }),
        None => Err("request future parked (no response)".to_string()),
    }
}

/// Splits the produced text into the variable-definition header of operation `Op` and everything else.
fn split_header<'a>(text: &'a str, kw: &str) -> (&'a str, String) {
    let pat = format!("{kw} Op(");
    let Some(i) = text.find(&pat) else { return ("", text.to_string()) };
    let start = i + pat.len();
    let b = text.as_bytes();
    let (mut depth, mut in_str, mut esc, mut j) = (1i32, false, false, start);
    while j < b.len() {
        let ch = b[j];
        if in_str {
            if esc {
                esc = false
            } else if ch == b'\\' {
                esc = true
            } else if ch == b'"' {
                in_str = false
            }
        } else if ch == b'"' {
            in_str = true
        } else if ch == b'(' {
            depth += 1
        } else if ch == b')' {
            depth -= 1;
            if depth == 0 {
                break;
            }
        }
        j += 1;
    }
    (&text[start..j.min(text.len())], format!("{}{}", &text[..start], &text[j.min(text.len())..]))
}

fn keys(v: Violation, c: &Case, place: &str) -> Violation {
    v.key("root", ROOTS[c.root].1)
        .key("position", if c.nested { "nested-field" } else { "root-field" })
        .key("path", if c.path == 0 { "argument" } else { PATHS[c.path] })
        .key("shape", SHAPES[c.shape].2)
        .key("delivery", DELIVERIES[c.delivery])
        .key("ctx", CTXS[c.ctx])
        .key("op", if c.named { "named" } else { "anonymous" })
        .key("where", place)
}

fn case_json(c: &Case, id: usize, b: &Built) -> serde_json::Value {
    json!({"id": id, "root": c.root, "nested": c.nested, "path": c.path, "shape": c.shape, "delivery": c.delivery, "ctx": c.ctx,
           "named": c.named, "alias": c.alias, "ctl_last": c.ctl_last, "anc_alias": c.anc_alias, "document": b.doc, "variables": b.vars, "sentinel": b.sentinel})
}

fn body_leaks(schema: &S, c: &Case, id: usize) -> Option<bool> {
    let b = build(c, id);
    let o = execute(schema, c.root, &b.doc, &b.vars).ok()?;
    let t = o.texts.first()?;
    let (_, rest) = split_header(t, ROOTS[c.root].0);
    Some(rest.contains(&b.sentinel))
}

fn check_case(cx: &Cx, schema: &S, c: &Case, id: usize) {
    let b = build(c, id);
    cx.eval();
    let o = match execute(schema, c.root, &b.doc, &b.vars) {
        Ok(o) => o,
        Err(p) => {
            cx.violation(keys(Violation::new("panic", format!("executing {:?} panicked / parked: {p}", b.doc), case_json(c, id, &b)), c, "-"));
            return;
        }
    };
    if !o.errors.is_empty() {
        cx.machinery_error(format!("generated document is not a valid request: {} vars {} -> {:?}", b.doc, b.vars, o.errors));
        return;
    }
    if o.texts.len() != 1 {
        cx.machinery_error(format!("parse_query hook ran {} times for {}", o.texts.len(), b.doc));
        return;
    }
    let text = &o.texts[0];
    // A static schema collects subscription streams from plain root fields only: a subscription whose root
    // selection is a fragment yields an empty stream (not this property's business). The text is still produced
    // and judged; only the "secret reached the resolver" cross-check is impossible there.
    let fragment_at_subscription_root = c.root == 2 && !c.nested && c.ctx != 0;
    if o.no_event && fragment_at_subscription_root {
        cx.extra_add("subscription_root_fragment_cases_without_event", 1);
    } else if !o.data.contains(&b.sentinel) {
        cx.machinery_error(format!("the secret did not reach the secret site: {} vars {} -> data {}", b.doc, b.vars, o.data));
        return;
    }
    if !text.contains(&b.ctl0) {
        cx.machinery_error(format!("control sentinel {} missing from produced text {text:?} for {}", b.ctl0, b.doc));
        return;
    }
    let inner_ok = !b.inner_expected || b.inner_ctls.iter().all(|k| text.contains(k));
    if !inner_ok {
        cx.machinery_error(format!("non-secret nested control sentinels {:?} missing from produced text {text:?} for {}", b.inner_ctls, b.doc));
        return;
    }
    cx.nontrivial_count(1);
    cx.sample_with(agv_engine::h64(&id), || json!({"document": b.doc, "variables": b.vars, "produced_text": text, "resolver_received": o.data}));

    if !text.contains(&b.sentinel) && !text.contains("S3CR3T_") {
        return;
    }
    let (header, rest) = split_header(text, ROOTS[c.root].0);
    if header.contains(&b.sentinel) {
        let class = if matches!(c.delivery, 2 | 4) { "secret-as-variable-default" } else { "secret-in-operation-header" };
        cx.violation(keys(
            Violation::new(class, format!("document {:?} variables {} -> produced text {text:?} contains {} in the variable definitions", b.doc, b.vars, b.sentinel), case_json(c, id, &b)),
            c,
            "header",
        ));
    }
    if rest.contains(&b.sentinel) {
        // attribute the leak: does the same case without the syntactic context leak as well?
        let mut class = String::new();
        if c.ctx != 0 {
            let twin = Case { ctx: 0, ..*c };
            if body_leaks(schema, &twin, id) == Some(false) {
                class = format!("secret-under-{}", CTXS[c.ctx]);
            }
        }
        if class.is_empty() {
            class = if PATHS[c.path].contains('L') { "secret-in-list".to_string() } else { "secret-in-selection-text".to_string() };
        }
        cx.violation(keys(
            Violation::new(class, format!("document {:?} variables {} -> produced text {text:?} contains {}", b.doc, b.vars, b.sentinel), case_json(c, id, &b)),
            c,
            "body",
        ));
    }
}

fn all_cases(thorough: bool) -> Vec<Case> {
    let mut v = Vec::new();
    let extra: &[(bool, bool)] = if thorough { &[(false, false), (true, false), (false, true), (true, true)] } else { &[(false, false)] };
    for root in 0..3 {
        for nested in [false, true] {
            for path in 0..PATHS.len() {
                for shape in 0..SHAPES.len() {
                    for delivery in 0..DELIVERIES.len() {
                        if path == 0 && delivery >= 3 {
                            continue; // for a secret argument the site is the argument
                        }
                        for ctx in 0..CTXS.len() {
                            for named in [true, false] {
                                for (alias, ctl_last) in extra {
                                    for anc_alias in [false, true] {
                                        if anc_alias && !nested {
                                            continue;
                                        }
                                        v.push(Case { root, nested, path, shape, delivery, ctx, named, alias: *alias, ctl_last: *ctl_last, anc_alias });
                                    }
                                }
                            }
                        }
                    }
                }
            }
        }
    }
    v
}

pub fn run(cx: &Cx) {
    cx.rule(
        "case = one request whose document places a unique secret sentinel at a site declared #[graphql(secret)]; complete product of \
         root type (Query/Mutation/Subscription) x field position (root/nested object) x path to the site (secret argument; secret input field at depth 1,2,3; \
         field of an object inside a list argument; inside a list field) x shape of the secret value (string, list element, object field, object-in-list field, \
         nested two deep) x delivery (literal, $v provided at site, $v default at site, $v provided for whole argument, $v default for whole argument) x context \
         (direct, typed inline fragment, untyped inline fragment, named fragment, fragment spread from a fragment) x (named, anonymous) x (nested positions: enclosing field aliased or not) [thorough: x alias on the field x argument order]. \
         Non-trivial = the request executed without error, the resolver echoed the sentinel (it reached the secret site) and the non-secret control sentinels occur in the produced text.",
    );
    cx.assume("only valid requests are generated (each is executed and must succeed); text produced for documents that fail validation is not examined");
    cx.assume("directive arguments are not printed by the stringifier at all and carry no secret declaration; not enumerated");
    let schema = schema();
    let cases = all_cases(!cx.quick());
    // self-test of the harness: the sentinel of a non-secret control argument must be detected as a leak by the same scan
    {
        let c = cases[0];
        let b = build(&c, 0);
        match execute(&schema, c.root, &b.doc, &b.vars) {
            Ok(o) if o.texts.len() == 1 && o.texts[0].contains(&b.ctl0) && o.texts[0].contains("<secret>") => {}
            Ok(o) => cx.machinery_error(format!("self-test: produced text {:?} for {:?} lacks the control sentinel or the <secret> mask", o.texts, b.doc)),
            Err(e) => cx.machinery_error(format!("self-test failed: {e}")),
        }
    }
    cases.par_iter().enumerate().for_each(|(i, c)| check_case(cx, &schema, c, i + 1));
    cx.exhaustive(true);
    cx.extra("cases", json!(cases.len()));
    cx.extra(
        "axes",
        json!({"root": 3, "position": 2, "path": PATHS.len(), "shape": SHAPES.len(), "delivery": "5 (3 when the site is the argument)", "context": CTXS.len(), "operation": 2,
               "alias_x_argorder": if cx.quick() { 1 } else { 4 }}),
    );
}

pub fn replay(case: &serde_json::Value) -> String {
    let schema = schema();
    let doc = case["document"].as_str().unwrap_or("");
    let root = case["root"].as_u64().unwrap_or(0) as usize;
    let sentinel = case["sentinel"].as_str().unwrap_or("");
    match execute(&schema, root, doc, &case["variables"]) {
        Ok(o) => format!(
            "document {doc:?} variables {} -> produced text {:?}; contains {sentinel}: {}; errors {:?}; expected: the sentinel does not occur",
            case["variables"],
            o.texts,
            o.texts.iter().any(|t| t.contains(sentinel)),
            o.errors
        ),
        Err(e) => format!("execution failed: {e}"),
    }
}

fn main() {
    agv_engine::driver::main("C21", "exploration", run, Some(replay))
}
