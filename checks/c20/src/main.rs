//! C20 — the response cache policy is never looser than the data it contains.
//!
//! Seam: `Response.cache_control` of `Schema::execute`, `BatchResponse::cache_control()`,
//! `CacheControl::value()`.
//!
//! Harness schema (derive): seven object types `T0..T6`, type `Tk` carrying type-level hint k of
//! {none, max_age 60, 30, 10, private, private+max_age 10, no_cache}; every type has fields `h0..h6`
//! (field-level hint j) and `x` (the interface field, with yet another hint). `Query` has scalar
//! fields `s0..s6` (hint j), object fields `o0..o6: Tk`, `i: I` (interface implemented by all seven)
//! and `u: U` (union of all seven). The runtime type behind `i` / `u` is the "world".
//!
//! Space: every document with ≤ 4 (quick) / ≤ 5 (thorough) selection nodes (fields, `__typename`,
//! inline fragments on object types and on `I`) over that schema, selection sets in canonical
//! order and in reversed order, × every runtime type of every abstract field that occurs, × both
//! validation modes. Plus all pairs and triples over the 2×5 policy domain for the combination laws.
//!
//! Reference (written from the statement): the policy must be ⊑ the meet of the hints of every
//! (object type, field) whose data the response contains — private if any is private, no-cache if any
//! is no-cache, else max-age ≤ every positive max-age; exactly that meet for object-only selections.

use agv_engine::record::{Cx, Violation};
use agv_engine::sched::drive;
use async_graphql::*;
use rayon::prelude::*;
use serde_json::json;

// ---------------------------------------------------------------------------------------------
// policies (reference side: plain tuples; 0 = no max-age hint, -1 = no-cache — the crate's encoding,
// `CacheControl::max_age` doc: "`-1` represent `no-cache`, default is 0")

#[derive(Clone, Copy, PartialEq, Eq, Debug, Hash)]
struct P {
    private: bool,
    age: i32,
}
const NONE: P = P { private: false, age: 0 };
/// hint index → policy. 0 none, 1 max_age 60, 2 max_age 30, 3 max_age 10, 4 private, 5 private+10, 6 no_cache
const HINTS: [P; 7] = [
    NONE,
    P { private: false, age: 60 },
    P { private: false, age: 30 },
    P { private: false, age: 10 },
    P { private: true, age: 0 },
    P { private: true, age: 10 },
    P { private: false, age: -1 },
];
const HINT_NAMES: [&str; 7] = ["none", "max_age=60", "max_age=30", "max_age=10", "private", "private,max_age=10", "no_cache"];
/// field hint of `Tk.x`
const XH: [usize; 7] = [4, 0, 6, 5, 1, 3, 2];

/// The combination of the statement: private if any private; no-cache if any no-cache; else the
/// smallest positive max-age (none if there is none).
fn meet(a: P, b: P) -> P {
    P {
        private: a.private || b.private,
        age: if a.age == -1 || b.age == -1 {
            -1
        } else if a.age > 0 && b.age > 0 {
            a.age.min(b.age)
        } else {
            a.age.max(b.age)
        },
    }
}
/// `a` is at least as restrictive as the single hint `c`.
fn covers(a: P, c: P) -> (bool, bool, bool) {
    let scope_ok = !c.private || a.private;
    let nc_ok = c.age != -1 || a.age == -1;
    let age_ok = c.age <= 0 || a.age == -1 || (a.age > 0 && a.age <= c.age);
    (scope_ok, nc_ok, age_ok)
}
fn from_cc(c: CacheControl) -> P {
    P { private: !c.public, age: c.max_age }
}
fn to_cc(p: P) -> CacheControl {
    CacheControl { public: !p.private, max_age: p.age }
}
fn pj(p: P) -> serde_json::Value {
    json!({"public": !p.private, "max_age": p.age})
}

// ---------------------------------------------------------------------------------------------
// harness schema

macro_rules! obj {
    ($name:ident, [$($tattr:tt)*], [$($xattr:tt)*]) => {
        struct $name;
        #[Object($($tattr)*)]
        impl $name {
            $($xattr)*
            async fn x(&self) -> i32 { 1 }
            async fn h0(&self) -> i32 { 1 }
            #[graphql(cache_control(max_age = 60))]
            async fn h1(&self) -> i32 { 1 }
            #[graphql(cache_control(max_age = 30))]
            async fn h2(&self) -> i32 { 1 }
            #[graphql(cache_control(max_age = 10))]
            async fn h3(&self) -> i32 { 1 }
            #[graphql(cache_control(private))]
            async fn h4(&self) -> i32 { 1 }
            #[graphql(cache_control(private, max_age = 10))]
            async fn h5(&self) -> i32 { 1 }
            #[graphql(cache_control(no_cache))]
            async fn h6(&self) -> i32 { 1 }
        }
    };
}
// type hint k; x hint XH[k]
obj!(T0, [], [#[graphql(cache_control(private))]]);
obj!(T1, [cache_control(max_age = 60)], []);
obj!(T2, [cache_control(max_age = 30)], [#[graphql(cache_control(no_cache))]]);
obj!(T3, [cache_control(max_age = 10)], [#[graphql(cache_control(private, max_age = 10))]]);
obj!(T4, [cache_control(private)], [#[graphql(cache_control(max_age = 60))]]);
obj!(T5, [cache_control(private, max_age = 10)], [#[graphql(cache_control(max_age = 10))]]);
obj!(T6, [cache_control(no_cache)], [#[graphql(cache_control(max_age = 30))]]);

#[derive(Interface)]
#[graphql(field(name = "x", ty = "i32"))]
enum I {
    T0(T0),
    T1(T1),
    T2(T2),
    T3(T3),
    T4(T4),
    T5(T5),
    T6(T6),
}
#[derive(Union)]
enum U {
    T0(T0),
    T1(T1),
    T2(T2),
    T3(T3),
    T4(T4),
    T5(T5),
    T6(T6),
}

/// Runtime type behind `i` and behind `u`.
#[derive(Clone, Copy)]
struct World {
    i: usize,
    u: usize,
}

struct Query;
#[Object]
impl Query {
    async fn s0(&self) -> i32 {
        1
    }
    #[graphql(cache_control(max_age = 60))]
    async fn s1(&self) -> i32 {
        1
    }
    #[graphql(cache_control(max_age = 30))]
    async fn s2(&self) -> i32 {
        1
    }
    #[graphql(cache_control(max_age = 10))]
    async fn s3(&self) -> i32 {
        1
    }
    #[graphql(cache_control(private))]
    async fn s4(&self) -> i32 {
        1
    }
    #[graphql(cache_control(private, max_age = 10))]
    async fn s5(&self) -> i32 {
        1
    }
    #[graphql(cache_control(no_cache))]
    async fn s6(&self) -> i32 {
        1
    }
    async fn o0(&self) -> T0 {
        T0
    }
    async fn o1(&self) -> T1 {
        T1
    }
    async fn o2(&self) -> T2 {
        T2
    }
    async fn o3(&self) -> T3 {
        T3
    }
    async fn o4(&self) -> T4 {
        T4
    }
    async fn o5(&self) -> T5 {
        T5
    }
    async fn o6(&self) -> T6 {
        T6
    }
    async fn i(&self, ctx: &Context<'_>) -> I {
        match ctx.data_unchecked::<World>().i {
            0 => I::T0(T0),
            1 => I::T1(T1),
            2 => I::T2(T2),
            3 => I::T3(T3),
            4 => I::T4(T4),
            5 => I::T5(T5),
            _ => I::T6(T6),
        }
    }
    async fn u(&self, ctx: &Context<'_>) -> U {
        match ctx.data_unchecked::<World>().u {
            0 => U::T0(T0),
            1 => U::T1(T1),
            2 => U::T2(T2),
            3 => U::T3(T3),
            4 => U::T4(T4),
            5 => U::T5(T5),
            _ => U::T6(T6),
        }
    }
}

type S = Schema<Query, EmptyMutation, EmptySubscription>;
fn schemas() -> [S; 2] {
    [
        Schema::build(Query, EmptyMutation, EmptySubscription).finish(),
        Schema::build(Query, EmptyMutation, EmptySubscription).validation_mode(ValidationMode::Fast).finish(),
    ]
}
const MODES: [&str; 2] = ["strict", "fast"];

// ---------------------------------------------------------------------------------------------
// documents: a tiny grammar over the schema

/// static scope of a selection set
#[derive(Clone, Copy, PartialEq, Eq, Debug, Hash)]
enum Scope {
    Q,
    T(usize),
    /// field of interface type `I`
    I,
    /// `... on I` inside an object / union selection
    IFrag,
    U,
}

#[derive(Clone, Debug, PartialEq, Eq, Hash)]
enum Sel {
    /// scalar field or `__typename`
    Leaf(&'static str),
    /// object-valued field of Query with its static scope
    Comp(&'static str, Scope, Vec<Sel>),
    /// inline fragment
    Frag(Scope, Vec<Sel>),
}

const S_NAMES: [&str; 7] = ["s0", "s1", "s2", "s3", "s4", "s5", "s6"];
const H_NAMES: [&str; 7] = ["h0", "h1", "h2", "h3", "h4", "h5", "h6"];
const O_NAMES: [&str; 7] = ["o0", "o1", "o2", "o3", "o4", "o5", "o6"];

#[derive(Clone, Copy)]
enum Head {
    Leaf(&'static str),
    Comp(&'static str, Scope),
    Frag(Scope),
}

fn heads(scope: Scope) -> Vec<Head> {
    let mut v = Vec::new();
    match scope {
        Scope::Q => {
            v.extend(S_NAMES.iter().map(|n| Head::Leaf(*n)));
            v.push(Head::Leaf("__typename"));
            v.extend((0..7).map(|k| Head::Comp(O_NAMES[k], Scope::T(k))));
            v.push(Head::Comp("i", Scope::I));
            v.push(Head::Comp("u", Scope::U));
        }
        Scope::T(k) => {
            v.push(Head::Leaf("x"));
            v.extend(H_NAMES.iter().map(|n| Head::Leaf(*n)));
            v.push(Head::Leaf("__typename"));
            v.push(Head::Frag(Scope::T(k)));
            v.push(Head::Frag(Scope::IFrag));
        }
        Scope::I => {
            v.push(Head::Leaf("x"));
            v.push(Head::Leaf("__typename"));
            v.extend((0..7).map(|k| Head::Frag(Scope::T(k))));
        }
        Scope::IFrag => {
            v.push(Head::Leaf("x"));
            v.push(Head::Leaf("__typename"));
        }
        Scope::U => {
            v.push(Head::Leaf("__typename"));
            v.extend((0..7).map(|k| Head::Frag(Scope::T(k))));
            v.push(Head::Frag(Scope::IFrag));
        }
    }
    v
}

/// All non-empty selection sets for `scope` with exactly `n` nodes, heads in canonical (strictly
/// increasing) order, each head at most once.
fn sets_exact(scope: Scope, n: usize) -> Vec<Vec<Sel>> {
    fn go(scope: Scope, hs: &[Head], start: usize, n: usize, cur: &mut Vec<Sel>, out: &mut Vec<Vec<Sel>>) {
        if n == 0 {
            if !cur.is_empty() {
                out.push(cur.clone());
            }
            return;
        }
        for idx in start..hs.len() {
            match hs[idx] {
                Head::Leaf(name) => {
                    cur.push(Sel::Leaf(name));
                    go(scope, hs, idx + 1, n - 1, cur, out);
                    cur.pop();
                }
                Head::Comp(name, child) => {
                    for c in 1..n {
                        for sub in sets_exact(child, c) {
                            cur.push(Sel::Comp(name, child, sub));
                            go(scope, hs, idx + 1, n - 1 - c, cur, out);
                            cur.pop();
                        }
                    }
                }
                Head::Frag(child) => {
                    for c in 1..n {
                        for sub in sets_exact(child, c) {
                            cur.push(Sel::Frag(child, sub));
                            go(scope, hs, idx + 1, n - 1 - c, cur, out);
                            cur.pop();
                        }
                    }
                }
            }
        }
    }
    let hs = heads(scope);
    let mut out = Vec::new();
    go(scope, &hs, 0, n, &mut Vec::new(), &mut out);
    out
}

fn scope_type_name(s: Scope) -> String {
    match s {
        Scope::Q => "Query".into(),
        Scope::T(k) => format!("T{k}"),
        Scope::I | Scope::IFrag => "I".into(),
        Scope::U => "U".into(),
    }
}

fn print_set(sels: &[Sel], reversed: bool, out: &mut String) {
    out.push('{');
    let order: Vec<&Sel> = if reversed { sels.iter().rev().collect() } else { sels.iter().collect() };
    for (n, s) in order.into_iter().enumerate() {
        if n > 0 {
            out.push(' ');
        }
        match s {
            Sel::Leaf(name) => out.push_str(name),
            Sel::Comp(name, _, sub) => {
                out.push_str(name);
                print_set(sub, reversed, out);
            }
            Sel::Frag(on, sub) => {
                out.push_str("... on ");
                out.push_str(&scope_type_name(*on));
                print_set(sub, reversed, out);
            }
        }
    }
    out.push('}');
}

fn uses(sels: &[Sel], name: &str) -> bool {
    sels.iter().any(|s| match s {
        Sel::Leaf(_) => false,
        Sel::Comp(n, _, sub) => *n == name || uses(sub, name),
        Sel::Frag(_, sub) => uses(sub, name),
    })
}
fn mentions_abstract(sels: &[Sel]) -> bool {
    sels.iter().any(|s| match s {
        Sel::Leaf(_) => false,
        Sel::Comp(_, sc, sub) => matches!(sc, Scope::I | Scope::U) || mentions_abstract(sub),
        Sel::Frag(sc, sub) => matches!(sc, Scope::IFrag) || mentions_abstract(sub),
    })
}

// ---------------------------------------------------------------------------------------------
// reference: which (object type, field) data does the response contain?

#[derive(Clone, Debug)]
struct Contribution {
    what: String,
    policy: P,
    /// a static walk of the document meets this hint (the selection is made in the scope of exactly this object type)
    statically_visible: bool,
    /// static scope through which the data is reached when not visible
    via: &'static str,
}

struct Walk {
    contribs: Vec<Contribution>,
}

impl Walk {
    /// Selections applied to an object whose runtime type is `Tk`, made in static scope `scope`.
    /// `type_seen`: a selection set whose static type is `Tk` encloses this one.
    fn object(&mut self, k: usize, scope: Scope, type_seen: bool, sels: &[Sel], data: &mut serde_json::Map<String, serde_json::Value>) {
        let via = match scope {
            Scope::I | Scope::IFrag => "interface",
            Scope::U => "union",
            _ => "object",
        };
        let here = scope == Scope::T(k);
        let seen = type_seen || here;
        for s in sels {
            match s {
                Sel::Leaf(name) => {
                    // the response contains data of an object of type Tk
                    self.contribs.push(Contribution { what: format!("type T{k} ({})", HINT_NAMES[k]), policy: HINTS[k], statically_visible: seen, via });
                    if *name == "__typename" {
                        data.insert(name.to_string(), json!(format!("T{k}")));
                    } else {
                        let h = if *name == "x" { XH[k] } else { H_NAMES.iter().position(|n| n == name).unwrap() };
                        self.contribs.push(Contribution { what: format!("field T{k}.{name} ({})", HINT_NAMES[h]), policy: HINTS[h], statically_visible: here, via });
                        data.insert(name.to_string(), json!(1));
                    }
                }
                Sel::Frag(on, sub) => match on {
                    Scope::T(j) if *j == k => self.object(k, Scope::T(k), seen, sub, data),
                    Scope::T(_) => {}
                    Scope::IFrag => self.object(k, Scope::IFrag, seen, sub, data),
                    _ => unreachable!(),
                },
                Sel::Comp(..) => unreachable!("objects have no composite fields in this schema"),
            }
        }
    }

    fn query(&mut self, world: World, sels: &[Sel], data: &mut serde_json::Map<String, serde_json::Value>) {
        for s in sels {
            match s {
                Sel::Leaf("__typename") => {
                    data.insert("__typename".into(), json!("Query"));
                }
                Sel::Leaf(name) => {
                    let h = S_NAMES.iter().position(|n| n == name).unwrap();
                    self.contribs.push(Contribution { what: format!("field Query.{name} ({})", HINT_NAMES[h]), policy: HINTS[h], statically_visible: true, via: "object" });
                    data.insert(name.to_string(), json!(1));
                }
                Sel::Comp(name, scope, sub) => {
                    let k = match scope {
                        Scope::T(k) => *k,
                        Scope::I => world.i,
                        Scope::U => world.u,
                        _ => unreachable!(),
                    };
                    let mut inner = serde_json::Map::new();
                    self.object(k, *scope, false, sub, &mut inner);
                    data.insert(name.to_string(), serde_json::Value::Object(inner));
                }
                Sel::Frag(..) => unreachable!(),
            }
        }
    }
}

fn sorted(v: &serde_json::Value) -> serde_json::Value {
    match v {
        serde_json::Value::Object(m) => {
            let mut ks: Vec<_> = m.keys().cloned().collect();
            ks.sort();
            serde_json::Value::Object(ks.into_iter().map(|k| (k.clone(), sorted(&m[&k]))).collect())
        }
        other => other.clone(),
    }
}

// ---------------------------------------------------------------------------------------------

fn header_consistent(p: P) -> Result<(), String> {
    let text = to_cc(p).value();
    let t = text.clone().unwrap_or_default();
    let parts: Vec<&str> = t.split(',').map(|s| s.trim()).filter(|s| !s.is_empty()).collect();
    let has_private = parts.contains(&"private");
    let has_nc = parts.contains(&"no-cache");
    let ages: Vec<i32> = parts.iter().filter_map(|s| s.strip_prefix("max-age=")).filter_map(|s| s.parse().ok()).collect();
    let unknown = parts.iter().any(|s| *s != "private" && *s != "no-cache" && !s.starts_with("max-age="));
    let ok = has_private == p.private
        && has_nc == (p.age == -1)
        && (if p.age > 0 { ages == vec![p.age] } else { ages.is_empty() })
        && !unknown
        && (text.is_none() == (!p.private && p.age == 0));
    if ok {
        Ok(())
    } else {
        Err(format!("policy {:?} renders as header {:?}", pj(p).to_string(), text))
    }
}

fn resp_with(p: P) -> Response {
    Response::new(Value::Null).cache_control(to_cc(p))
}
fn batch(ps: &[P]) -> P {
    from_cc(BatchResponse::Batch(ps.iter().map(|p| resp_with(*p)).collect()).cache_control())
}

fn merge_laws(cx: &Cx) {
    let mut dom = Vec::new();
    for private in [false, true] {
        for age in [0, 10, 30, 60, -1] {
            dom.push(P { private, age });
        }
    }
    let law = |cx: &Cx, class: &str, detail: String, case: serde_json::Value| {
        cx.violation(Violation::new(class, detail, case).key("part", "merge-laws"));
    };
    for &a in &dom {
        cx.eval();
        if let Err(e) = header_consistent(a) {
            law(cx, "header-inconsistent", e, json!({"part": "header", "a": pj(a)}));
        }
        let single = from_cc(BatchResponse::Single(resp_with(a)).cache_control());
        let one = batch(&[a]);
        let twice = batch(&[a, a]);
        if single != a || one != a {
            law(cx, "batch-of-one-differs", format!("policy {} : Single -> {}, Batch[a] -> {}", pj(a), pj(single), pj(one)), json!({"part": "single", "a": pj(a)}));
        }
        if twice != a {
            law(cx, "merge-not-idempotent", format!("a·a = {} for a = {}", pj(twice), pj(a)), json!({"part": "idempotent", "a": pj(a)}));
        }
        cx.nontrivial(agv_engine::h64(&("dom", a)));
        for &b in &dom {
            cx.eval();
            let ab = batch(&[a, b]);
            let ba = batch(&[b, a]);
            if ab != ba {
                law(cx, "merge-not-commutative", format!("a·b = {} but b·a = {} for a = {}, b = {}", pj(ab), pj(ba), pj(a), pj(b)), json!({"part": "pair", "a": pj(a), "b": pj(b)}));
            }
            if ab != meet(a, b) {
                law(cx, "merge-differs-from-statement", format!("a·b = {} but the statement's combination is {} for a = {}, b = {}", pj(ab), pj(meet(a, b)), pj(a), pj(b)), json!({"part": "pair", "a": pj(a), "b": pj(b)}));
            }
            cx.nontrivial(agv_engine::h64(&("pair", a, b)));
            for &c in &dom {
                cx.eval();
                let left = batch(&[batch(&[a, b]), c]);
                let right = batch(&[a, batch(&[b, c])]);
                let flat = batch(&[a, b, c]);
                if left != right || flat != left {
                    law(
                        cx,
                        "merge-not-associative",
                        format!("(a·b)·c = {}, a·(b·c) = {}, batch[a,b,c] = {} for a = {}, b = {}, c = {}", pj(left), pj(right), pj(flat), pj(a), pj(b), pj(c)),
                        json!({"part": "triple", "a": pj(a), "b": pj(b), "c": pj(c)}),
                    );
                }
                // every permutation of the batch gives the same policy
                let perms = [[a, c, b], [b, a, c], [b, c, a], [c, a, b], [c, b, a]];
                if perms.iter().any(|p| batch(p) != flat) {
                    law(cx, "merge-not-commutative", format!("batch policy depends on the order of a = {}, b = {}, c = {}", pj(a), pj(b), pj(c)), json!({"part": "triple", "a": pj(a), "b": pj(b), "c": pj(c)}));
                }
            }
        }
    }
    cx.extra("merge_law_domain", json!({"policies": dom.len(), "pairs": dom.len() * dom.len(), "triples": dom.len().pow(3)}));
}

fn run_doc(schema: &S, doc: &str, world: World) -> Result<Response, String> {
    let req = Request::new(doc).data(world);
    match agv_engine::catch_quiet(|| drive(schema.execute(req))) {
        Ok(Some(r)) => Ok(r),
        Ok(None) => Err("request future parked".into()),
        Err(p) => Err(format!("panic: {p}")),
    }
}

fn check_doc(cx: &Cx, schemas: &[S; 2], sels: &[Sel]) {
    let wi: Vec<usize> = if uses(sels, "i") { (0..7).collect() } else { vec![0] };
    let wu: Vec<usize> = if uses(sels, "u") { (0..7).collect() } else { vec![0] };
    let object_only = !mentions_abstract(sels);
    let mut texts = [String::new(), String::new()];
    print_set(sels, false, &mut texts[0]);
    print_set(sels, true, &mut texts[1]);
    for &i in &wi {
        for &u in &wu {
            let world = World { i, u };
            let mut w = Walk { contribs: Vec::new() };
            let mut data = serde_json::Map::new();
            w.query(world, sels, &mut data);
            let expected = w.contribs.iter().fold(NONE, |acc, c| meet(acc, c.policy));
            let expected_data = sorted(&serde_json::Value::Object(data));
            let mut first: Option<P> = None;
            for (mi, schema) in schemas.iter().enumerate() {
                for (oi, text) in texts.iter().enumerate() {
                    if oi == 1 && texts[1] == texts[0] {
                        continue;
                    }
                    cx.eval();
                    let case = json!({"document": text, "world": {"i": i, "u": u}, "mode": MODES[mi]});
                    let resp = match run_doc(schema, text, world) {
                        Ok(r) => r,
                        Err(e) => {
                            cx.violation(Violation::new("panic", format!("{text} : {e}"), case).key("part", "documents"));
                            continue;
                        }
                    };
                    if !resp.errors.is_empty() {
                        cx.machinery_error(format!("generated document {text} is not valid: {:?}", resp.errors.iter().map(|e| &e.message).collect::<Vec<_>>()));
                        return;
                    }
                    let got_data = sorted(&resp.data.clone().into_json().unwrap_or_default());
                    if got_data != expected_data {
                        cx.machinery_error(format!("reference disagrees about the data of {text} (world i=T{i}, u=T{u}): real {got_data}, reference {expected_data}"));
                        return;
                    }
                    let actual = from_cc(resp.cache_control);
                    if let Err(e) = header_consistent(actual) {
                        cx.violation(Violation::new("header-inconsistent", e, case.clone()).key("part", "documents"));
                    }
                    let batch_policy = from_cc(BatchResponse::Single(resp).cache_control());
                    if batch_policy != actual {
                        cx.violation(Violation::new("batch-of-one-differs", format!("{text}: response policy {} but BatchResponse::Single reports {}", pj(actual), pj(batch_policy)), case.clone()).key("part", "documents"));
                    }
                    match first {
                        None => first = Some(actual),
                        Some(f) if f != actual => {
                            cx.violation(
                                Violation::new("policy-depends-on-selection-order-or-mode", format!("{} gives {} but {text} ({}) gives {}", texts[0], pj(f), MODES[mi], pj(actual)), case.clone())
                                    .key("part", "documents"),
                            );
                        }
                        _ => {}
                    }
                    // the oracle
                    let bad: Vec<&Contribution> = w.contribs.iter().filter(|c| covers(actual, c.policy) != (true, true, true)).collect();
                    if !bad.is_empty() {
                        let all_runtime_only = bad.iter().all(|c| !c.statically_visible);
                        let class = if all_runtime_only { "abstract-field-ignores-runtime-object-policy" } else { "policy-looser-than-data" };
                        let mut via: Vec<&str> = bad.iter().map(|c| c.via).collect();
                        via.sort();
                        via.dedup();
                        let (mut sc, mut nc, mut ag) = (true, true, true);
                        for c in &bad {
                            let (a, b, d) = covers(actual, c.policy);
                            sc &= a;
                            nc &= b;
                            ag &= d;
                        }
                        let mut aspects = Vec::new();
                        if !sc {
                            aspects.push("scope")
                        }
                        if !nc {
                            aspects.push("no-cache")
                        }
                        if !ag {
                            aspects.push("max-age")
                        }
                        cx.extra_add(&format!("looser_cases/{class}/via={}/aspect={}", via.join("+"), aspects.join("+")), 1);
                        let mut whats: Vec<String> = bad.iter().map(|c| c.what.clone()).collect();
                        whats.sort();
                        whats.dedup();
                        cx.violation(
                            Violation::new(
                                class,
                                format!("{text} with i=T{i}, u=T{u} ({}): response policy {} ; the response contains data of {} ; required at most {}", MODES[mi], pj(actual), whats.join(", "), pj(expected)),
                                case.clone(),
                            )
                            .key("part", "documents")
                            .key("via", via.join("+"))
                            .key("aspect", aspects.join("+")),
                        );
                    } else if object_only && actual != expected {
                        cx.violation(
                            Violation::new(
                                "policy-not-exact-on-object-selection",
                                format!("{text} ({}): response policy {} but the combination of the hints of the selected object types and fields is {}", MODES[mi], pj(actual), pj(expected)),
                                case.clone(),
                            )
                            .key("part", "documents"),
                        );
                    }
                    if expected != NONE {
                        cx.nontrivial(agv_engine::h64(&(text.as_str(), i, u)));
                    }
                    cx.sample_with(agv_engine::h64(&(text.as_str(), i, u, mi)), || {
                        json!({"document": text, "world": {"i": format!("T{i}"), "u": format!("T{u}")}, "mode": MODES[mi], "response_policy": pj(actual), "reference_meet": pj(expected), "object_only": object_only})
                    });
                }
            }
        }
    }
}

pub fn run(cx: &Cx) {
    let max_nodes = cx.tier.pick(4, 5);
    cx.rule(
        "case = (document, runtime types behind the abstract fields, validation mode, selection order). Documents: every selection tree with <= N nodes (N = 4 quick, 5 thorough) over a derive schema whose \
         7 object types x 8 fields and 7 Query fields carry every hint of {none, max_age 60/30/10, private, private+max_age 10, no_cache}, reached through object fields, an interface field and a union field; \
         each selection set printed in canonical and in reversed order. Non-trivial = the reference meet of the contained data's hints is not the default policy. \
         Plus all 10 policies, 100 pairs and 1000 triples of {public, private} x {0, 10, 30, 60, -1} through BatchResponse::cache_control.",
    );
    cx.assume("max_age = 0 means 'no max-age hint' (crate docs: default 0, merge treats 0 as neutral, value() prints nothing): a response policy without max-age is looser than data with a positive max-age");
    cx.assume("an object contributes its type-level hint when at least one of its fields (including __typename) is present in the response; an empty object {} contributes nothing");
    cx.assume("dynamic schemas carry no cache hints and are not enumerated; responses with field errors are not enumerated (all resolvers succeed)");
    merge_laws(cx);
    let schemas = schemas();
    let mut docs: Vec<Vec<Sel>> = Vec::new();
    let mut per_n = Vec::new();
    for n in 1..=max_nodes {
        let d = sets_exact(Scope::Q, n);
        per_n.push(d.len());
        docs.extend(d);
    }
    docs.par_iter().for_each(|d| check_doc(cx, &schemas, d));
    cx.exhaustive(true);
    cx.extra("max_selection_nodes", json!(max_nodes));
    cx.extra("documents_per_node_count", json!(per_n));
    cx.extra("documents", json!(docs.len()));
    cx.extra("documents_object_only", json!(docs.iter().filter(|d| !mentions_abstract(d)).count()));
}

pub fn replay(case: &serde_json::Value) -> String {
    if let Some(part) = case.get("part") {
        let p = |v: &serde_json::Value| P { private: !v["public"].as_bool().unwrap_or(true), age: v["max_age"].as_i64().unwrap_or(0) as i32 };
        let a = p(&case["a"]);
        let b = p(&case["b"]);
        let c = p(&case["c"]);
        return format!(
            "{part}: a={} b={} c={} | a·b={} b·a={} (a·b)·c={} a·(b·c)={} header(a)={:?}",
            pj(a),
            pj(b),
            pj(c),
            pj(batch(&[a, b])),
            pj(batch(&[b, a])),
            pj(batch(&[batch(&[a, b]), c])),
            pj(batch(&[a, batch(&[b, c])])),
            to_cc(a).value()
        );
    }
    let doc = case["document"].as_str().unwrap_or("");
    let world = World { i: case["world"]["i"].as_u64().unwrap_or(0) as usize, u: case["world"]["u"].as_u64().unwrap_or(0) as usize };
    let mi = if case["mode"] == "fast" { 1 } else { 0 };
    match run_doc(&schemas()[mi], doc, world) {
        Ok(r) => format!("{doc} with i=T{}, u=T{} ({}) -> data {} policy {} header {:?}", world.i, world.u, MODES[mi], r.data, pj(from_cc(r.cache_control)), r.cache_control.value()),
        Err(e) => format!("execution failed: {e}"),
    }
}

fn main() {
    agv_engine::driver::main("C20", "exploration", run, Some(replay))
}
