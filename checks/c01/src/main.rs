//! C01 — query results follow the spec's field collection and completion (static schemas).
//!
//! Space: every valid document with ≤ N selection nodes over S1's field subset
//! (structure exhaustive; aliases and @skip/@include forms ≤ k decorations) ×
//! lazily enumerated data worlds (≤ k deviations from the all-default world).
//! Oracle: response data text (key order included) equals the reference
//! executor's; errors only where the reference raises a completion error.

use agv_common::gen::{gen_doc, GenCfg};
use agv_common::glue::{obs_of, table_json, ChooserWorld, MenuCfg};
use agv_common::s1::{self, Wd};
use agv_engine::explore::{explore, Chooser, Class, ExploreCfg};
use agv_engine::record::{Cx, Violation};
use agv_refgql::ast::OpKind;
use agv_refgql::exec::{execute, path_str, Ans, ErrKind};
use agv_refgql::schema::Schema;
use serde_json::{json, Value as J};
use std::sync::atomic::{AtomicU64, Ordering};
use std::sync::Arc;

const FIELDS: &[(&str, &[&str])] = &[
    ("Query", &["a", "n", "o", "i", "u", "l", "f"]),
    ("A", &["a", "n", "o", "pa"]),
    ("B", &["a", "pb"]),
    ("C", &["a", "pc"]),
    ("I", &["a", "n"]),
    ("J", &["a"]),
    ("U", &[]),
];
const CONDS: &[&str] = &["A", "B", "I", "J", "U", "Query"];

struct Counters {
    not_doc: AtomicU64,
    invalid: AtomicU64,
    valid: AtomicU64,
    agree_nonempty: AtomicU64,
}

enum Outcome {
    NotDoc,
    Invalid,
    Ran { doc_hash: u64, case_hash: u64 },
}

fn first_diff(exp: &J, got: &J, path: &str) -> Option<String> {
    match (exp, got) {
        (J::Object(a), J::Object(b)) => {
            let ka: Vec<&String> = a.keys().collect();
            let kb: Vec<&String> = b.keys().collect();
            for k in &ka {
                if !b.contains_key(*k) {
                    return Some(format!("missing-key at {path}/{k}"));
                }
            }
            for k in &kb {
                if !a.contains_key(*k) {
                    return Some(format!("extra-key at {path}/{k}"));
                }
            }
            if ka != kb {
                return Some(format!("key-order at {path}"));
            }
            for k in ka {
                if let Some(d) = first_diff(&a[k], &b[k], &format!("{path}/{k}")) {
                    return Some(d);
                }
            }
            None
        }
        (J::Array(a), J::Array(b)) => {
            if a.len() != b.len() {
                return Some(format!("list-length at {path}"));
            }
            for (i, (x, y)) in a.iter().zip(b).enumerate() {
                if let Some(d) = first_diff(x, y, &format!("{path}/{i}")) {
                    return Some(d);
                }
            }
            None
        }
        (x, y) if x == y => None,
        (J::Null, _) => Some(format!("expected-null at {path}")),
        (_, J::Null) => Some(format!("unexpected-null at {path}")),
        _ => Some(format!("value-differs at {path}")),
    }
}

fn run_case(cx: &Cx, refs: &Schema, schema: &s1::S1, gcfg: &GenCfg, ch: &mut Chooser, cnt: &Counters, world_class: Class) -> Outcome {
    let Some(gd) = gen_doc(gcfg, ch) else {
        cnt.not_doc.fetch_add(1, Ordering::Relaxed);
        return Outcome::NotDoc;
    };
    let text = agv_refgql::print::exec_doc(&gd.doc);
    let doc = match agv_refgql::parse::parse_exec(&text) {
        Ok(d) => d,
        Err(e) => {
            cx.machinery_error(format!("generator printed an unparsable document {text:?}: {}", e.msg));
            return Outcome::NotDoc;
        }
    };
    if !agv_refgql::validate::validate(refs, &doc).is_empty() {
        cnt.invalid.fetch_add(1, Ordering::Relaxed);
        return Outcome::Invalid;
    }
    cnt.valid.fetch_add(1, Ordering::Relaxed);
    let mut world = ChooserWorld {
        s: refs,
        ch,
        cfg: MenuCfg { errors: false, non_finite: true, wrong_kind: false, rich: true },
        class: world_class,
        table: Default::default(),
        asked: 0,
        filter: None,
    };
    let r = execute(refs, &doc, None, &gd.variables, &mut world);
    let table = world.table;
    let wd = Arc::new(Wd::new(table.clone()));
    let case = || json!({"query": text, "variables": J::Object(gd.variables.clone()), "world": table_json(&table)});
    let doc_hash = agv_engine::hstr(&text);
    let case_hash = agv_engine::h64(&(&text, serde_json::to_string(&gd.variables).unwrap(), format!("{table:?}")));
    cx.eval();
    let resp = match agv_engine::catch_quiet(|| agv_common::run_s1(schema, &text, None, &gd.variables, wd.clone())) {
        Ok(Ok(r)) => r,
        Ok(Err(e)) => {
            cx.machinery_error(format!("{e}: {text}"));
            return Outcome::Ran { doc_hash, case_hash };
        }
        Err(p) => {
            cx.violation(Violation::new("panic", format!("execute panicked: {p}"), case()));
            return Outcome::Ran { doc_hash, case_hash };
        }
    };
    let obs = obs_of(&resp);
    let Some(exp_data) = &r.data else {
        cx.machinery_error(format!("reference raised a request error on a validated document: {:?} for {text}", r.request_error));
        return Outcome::Ran { doc_hash, case_hash };
    };
    let exp_text = serde_json::to_string(exp_data).unwrap();
    let features = gd.features.join(",");
    // non-finite floats reached?
    let nonfinite_paths: Vec<String> = r
        .errors
        .iter()
        .filter(|e| e.kind == ErrKind::Completion && matches!(table.get(&path_str(&e.path)), Some(Ans::Float(f)) if !f.is_finite()))
        .map(|e| path_str(&e.path))
        .collect();
    let only_nonfinite_errors = !r.errors.is_empty() && nonfinite_paths.len() == r.errors.len();
    let got_json: J = serde_json::from_str(&obs.data).unwrap_or(J::Null);
    let exp_errs: Vec<_> = r.errors.iter().map(|e| e.path.clone()).collect();
    let got_errs: Vec<_> = obs.errors.iter().map(|e| e.path.clone()).collect();
    let err_ok = agv_refgql::exec::errors_consistent(&r.errors, &got_errs);
    if obs.data == exp_text && err_ok.is_ok() {
        if exp_text.len() > 2 && exp_text != "null" {
            cnt.agree_nonempty.fetch_add(1, Ordering::Relaxed);
        }
    } else if only_nonfinite_errors && obs.errors.is_empty() {
        // the implementation turned a non-finite float into null without an error
        let nullable = if exp_text == obs.data { "nullable-position" } else { "non-null-position" };
        cx.violation(
            Violation::new(
                "non-finite-float-to-null",
                format!("resolver returned a non-finite Float at {:?}: expected a field error (data {exp_text}), got data {} with no error", nonfinite_paths, obs.data),
                case(),
            )
            .key("position", nullable),
        );
    } else {
        let diff = first_diff(exp_data, &got_json, "").unwrap_or_else(|| match &err_ok {
            Err(e) => format!("errors: {e}"),
            Ok(()) => "serialization differs".into(),
        });
        let kind = diff.split(' ').next().unwrap_or("differs").trim_end_matches(':').to_string();
        cx.violation(
            Violation::new(
                format!("data-{kind}"),
                format!("{diff}\n expected data {exp_text} errors {:?}\n got      data {} errors {:?}", exp_errs.iter().map(|p| path_str(p)).collect::<Vec<_>>(), obs.data, obs.errors.iter().map(|e| (path_str(&e.path), e.message.clone())).collect::<Vec<_>>()),
                case(),
            )
            .key("features", features),
        );
    }
    cx.sample_with(case_hash, || json!({"query": text, "variables": J::Object(gd.variables.clone()), "world": table_json(&table), "data": exp_text}));
    Outcome::Ran { doc_hash, case_hash }
}

fn run(cx: &Cx) {
    let refs = match Schema::from_sdl(s1::SDL) {
        Ok(s) => s,
        Err(e) => return cx.machinery_error(format!("S1 reference SDL: {e}")),
    };
    let schema = s1::schema();
    if let Err(e) = agv_common::glue::sdl_equiv(s1::SDL, &schema.sdl()) {
        return cx.machinery_error(format!("S1's reference SDL and Schema::sdl() disagree: {e}"));
    }
    let (nodes, deco, worldb) = if cx.quick() { (4, 1, 1) } else { (5, 2, 2) };
    let gcfg = GenCfg { schema: &refs, fields: FIELDS, conds: CONDS, max_nodes: nodes, max_depth: 3, named_fragments: 2, deco: Some(Class::Dev(0)), typename: true, op: OpKind::Query };
    let cnt = Counters { not_doc: AtomicU64::new(0), invalid: AtomicU64::new(0), valid: AtomicU64::new(0), agree_nonempty: AtomicU64::new(0) };
    let ecfg = ExploreCfg { bounds: [deco, worldb, 0, 0], ..Default::default() };
    let docs = std::sync::Mutex::new(std::collections::HashSet::new());
    let st = explore(
        &ecfg,
        &|ch: &mut Chooser| run_case(cx, &refs, &schema, &gcfg, ch, &cnt, Class::Dev(1)),
        &|_, o| {
            if let Outcome::Ran { doc_hash, case_hash } = o {
                cx.nontrivial(case_hash);
                docs.lock().unwrap().insert(doc_hash);
            }
        },
    );
    if let Some(d) = st.diverged {
        cx.machinery_error(d);
    }
    let agree = cnt.agree_nonempty.load(Ordering::Relaxed);
    if agree == 0 {
        cx.machinery_error("reference and implementation never agreed on a non-empty result (vacuous or systematically wrong)");
    }
    cx.rule(&format!(
        "case = (valid document, variables, world). Documents: every document with ≤ {nodes} selection nodes over S1's subset (fields per type {FIELDS:?}, fragment conditions {CONDS:?}, ≤ 2 named fragments, __typename), structure exhaustive, ≤ {deco} decoration(s) (alias forcing key collisions; 12 @skip/@include forms incl. variables and variable defaults); validity decided by the reference validator. Worlds: answers drawn lazily per visited position, ≤ {worldb} deviation(s) from the all-default world (menus: Int {{1,2,null}}, Float {{1.5,-0.0,NaN,inf,null}}, object {{present,null}}, abstract {{A,B,C,null}}, list length {{1,0,2,null}}). Non-trivial = executed cases, distinct by (document, variables, world)."
    ));
    cx.exhaustive(!st.capped);
    cx.extra("choice_sequences", json!(st.executions));
    cx.extra("not_a_document", json!(cnt.not_doc.load(Ordering::Relaxed)));
    cx.extra("invalid_by_reference_validator", json!(cnt.invalid.load(Ordering::Relaxed)));
    cx.extra("valid_cases", json!(cnt.valid.load(Ordering::Relaxed)));
    cx.extra("distinct_documents", json!(docs.lock().unwrap().len()));
    cx.extra("agreements_nonempty", json!(agree));
    cx.extra("bounds", json!({"nodes": nodes, "decorations": deco, "world_deviations": worldb}));
    cx.assume("derive-built schemas cannot be generated at run time: the static family is the fixed schema S1 (DESIGN §8)");
    cx.assume("the reference executor (agv-refgql) is the oracle; it is bound to the spec by its unit tests and to the code by the agreement count");
}

fn replay(case: &J) -> String {
    let schema = s1::schema();
    let text = case["query"].as_str().unwrap_or("");
    let vars = case["variables"].as_object().cloned().unwrap_or_default();
    let table = agv_common::glue::table_from_json(&case["world"]);
    let refs = Schema::from_sdl(s1::SDL).unwrap();
    let doc = agv_refgql::parse::parse_exec(text).unwrap();
    let w = agv_refgql::exec::TableWorld { table: table.clone() };
    let r = execute(&refs, &doc, None, &vars, &mut agv_refgql::exec::TableWorldRef { s: &refs, w: &w });
    let resp = agv_common::run_s1(&schema, text, None, &vars, Arc::new(Wd::new(table)));
    format!(
        "\n query: {text}\n variables: {}\n expected data: {} errors at {:?}\n got: {}",
        J::Object(vars),
        r.data.map(|d| d.to_string()).unwrap_or_default(),
        r.errors.iter().map(|e| path_str(&e.path)).collect::<Vec<_>>(),
        resp.map(|r| obs_of(&r).to_json().to_string()).unwrap_or_else(|e| e)
    )
}

fn main() {
    agv_engine::driver::main("C01", "exploration", run, Some(replay))
}
