//! C01 — query results follow the spec's field collection and completion (static schemas).
//!
//! Space: every valid document with ≤ N selection nodes over S1's field subset
//! (structure exhaustive; aliases and @skip/@include forms ≤ k decorations) ×
//! lazily enumerated data worlds (≤ k deviations from the all-default world).
//! Oracle: response data text (key order included) equals the reference
//! executor's; errors only where the reference raises a completion error.

use agv_common::casecheck::{Target, first_diff, replay_fixed, run_static, CaseOutcome, Compared};
use agv_common::gen::GenCfg;
use agv_common::glue::{table_json, MenuCfg};
use agv_common::s1;
use agv_engine::explore::{explore, Chooser, Class, ExploreCfg};
use agv_engine::record::{Cx, Violation};
use agv_refgql::ast::OpKind;
use agv_refgql::exec::{path_str, Ans, ErrKind};
use agv_refgql::schema::Schema;
use serde_json::{json, Value as J};
use std::sync::atomic::{AtomicU64, Ordering};

const FIELDS: &[(&str, &[&str])] = &[
    ("Query", &["a", "n", "o", "i", "u", "l", "f"]),
    ("A", &["a", "n", "o", "pa"]),
    ("B", &["a", "pb"]),
    ("C", &["a", "pc"]),
    ("I", &["a", "n"]),
    ("J", &["a"]),
    ("U", &[]),
];
const CONDS: &[&str] = &["A", "B", "I", "J", "U", "Query"];

struct Counters {
    not_doc: AtomicU64,
    invalid: AtomicU64,
    valid: AtomicU64,
    agree_nonempty: AtomicU64,
}

enum Outcome {
    NotDoc,
    Invalid,
    Ran { doc_hash: u64, case_hash: u64 },
}

fn judge(cx: &Cx, c: &Compared, cnt: &Counters) {
    let exp_data = c.reference.data.as_ref().unwrap();
    let exp_text = c.expected_data_text();
    let r = &c.reference;
    let nonfinite_paths: Vec<String> = r
        .errors
        .iter()
        .filter(|e| e.kind == ErrKind::Completion && matches!(c.table.get(&path_str(&e.path)), Some(Ans::Float(f)) if !f.is_finite()))
        .map(|e| path_str(&e.path))
        .collect();
    let only_nonfinite_errors = !r.errors.is_empty() && nonfinite_paths.len() == r.errors.len();
    let got_json: J = serde_json::from_str(&c.obs.data).unwrap_or(J::Null);
    let got_errs: Vec<_> = c.obs.errors.iter().map(|e| e.path.clone()).collect();
    let err_ok = agv_refgql::exec::errors_consistent(&r.errors, &got_errs);
    if c.obs.data == exp_text && err_ok.is_ok() {
        if exp_text.len() > 2 && exp_text != "null" {
            cnt.agree_nonempty.fetch_add(1, Ordering::Relaxed);
        }
    } else if only_nonfinite_errors && c.obs.errors.is_empty() {
        // the implementation turned a non-finite float into null without an error
        let nullable = if exp_text == c.obs.data { "nullable-position" } else { "non-null-position" };
        cx.violation(
            Violation::new(
                "non-finite-float-to-null",
                format!("resolver returned a non-finite Float at {:?}: expected a field error (data {exp_text}), got data {} with no error", nonfinite_paths, c.obs.data),
                c.case_json(),
            )
            .key("position", nullable),
        );
    } else {
        let diff = first_diff(exp_data, &got_json, "").unwrap_or_else(|| match &err_ok {
            Err(e) => format!("errors: {e}"),
            Ok(()) => "serialization differs".into(),
        });
        let kind = diff.split(' ').next().unwrap_or("differs").trim_end_matches(':').to_string();
        cx.violation(
            Violation::new(
                format!("data-{kind}"),
                format!(
                    "{diff}\n expected data {exp_text} errors {:?}\n got      data {} errors {:?}",
                    r.errors.iter().map(|e| path_str(&e.path)).collect::<Vec<_>>(),
                    c.obs.data,
                    c.obs.errors.iter().map(|e| (path_str(&e.path), e.message.clone())).collect::<Vec<_>>()
                ),
                c.case_json(),
            )
            .key("features", c.features.join(",")),
        );
    }
}

fn run_case(cx: &Cx, refs: &Schema, schema: &s1::S1, gcfg: &GenCfg, ch: &mut Chooser, cnt: &Counters, world_class: Class) -> Outcome {
    let menu = MenuCfg { errors: false, non_finite: true, wrong_kind: false, rich: true };
    match run_static(refs, &Target::Static(schema), gcfg, ch, menu, world_class, None) {
        CaseOutcome::NotDoc => {
            cnt.not_doc.fetch_add(1, Ordering::Relaxed);
            Outcome::NotDoc
        }
        CaseOutcome::Invalid => {
            cnt.invalid.fetch_add(1, Ordering::Relaxed);
            Outcome::Invalid
        }
        CaseOutcome::Machinery(m) => {
            cx.machinery_error(m);
            Outcome::NotDoc
        }
        CaseOutcome::Panic { msg, case } => {
            cx.eval();
            cx.violation(Violation::new("panic", format!("execute panicked: {msg}"), case));
            Outcome::NotDoc
        }
        CaseOutcome::Ran(c) => {
            cx.eval();
            cnt.valid.fetch_add(1, Ordering::Relaxed);
            judge(cx, &c, cnt);
            let h = c.case_hash();
            cx.sample_with(h, || json!({"query": c.text, "variables": J::Object(c.vars.clone()), "world": table_json(&c.table), "data": c.expected_data_text()}));
            Outcome::Ran { doc_hash: agv_engine::hstr(&c.text), case_hash: h }
        }
    }
}

/// Family B — "chain pairs": every pair of selection chains (nested single-field paths of depth ≤ 4
/// through object, interface and list-of-object fields) written side by side under the same root, so that
/// the two chains share response keys down to some depth and must be merged there; lists have 2 items.
/// This reaches merge depths the ≤ N-node family cannot afford.
fn chains() -> Vec<String> {
    let root: &[&str] = &["o", "l", "ln", "i", "lu"];
    let leaves_a: &[&str] = &["a", "n"];
    fn below(c: &str) -> (&'static [&'static str], &'static [&'static str], &'static str, &'static str) {
        // (containers, leaves, open, close) for what sits under container `c`
        match c {
            "i" => (&["o"], &["a", "n"], "", ""),
            "lu" => (&["o", "l"], &["a", "n"], "... on A { ", " }"),
            _ => (&["o", "l", "ln"], &["a", "n", "pa"], "", ""),
        }
    }
    fn rec(c: &str, depth: usize, out: &mut Vec<String>) {
        let (conts, leaves, open, close) = below(c);
        for l in leaves {
            out.push(format!("{c} {{ {open}{l}{close} }}"));
        }
        if depth > 1 {
            for k in conts {
                let mut inner = Vec::new();
                rec(k, depth - 1, &mut inner);
                for i in inner {
                    out.push(format!("{c} {{ {open}{i}{close} }}"));
                }
            }
        }
    }
    let _ = leaves_a;
    let mut out = Vec::new();
    for c in root {
        rec(c, 3, &mut out);
    }
    out
}

struct Lists2<'a> {
    s: &'a Schema,
    table: std::collections::BTreeMap<String, Ans>,
}
impl<'a> agv_refgql::exec::World for Lists2<'a> {
    fn ask(&mut self, path: &[agv_refgql::exec::Seg], ty: &agv_refgql::ast::Type, _f: Option<(&str, &agv_refgql::schema::FieldT, &[(String, agv_refgql::coerce::Val)])>) -> Ans {
        if matches!(ty.nullable(), agv_refgql::ast::Type::List(_)) {
            self.table.insert(path_str(path), Ans::List(2));
            Ans::List(2)
        } else {
            agv_refgql::exec::TableWorld::default_for(self.s, ty)
        }
    }
}

fn chain_pairs(cx: &Cx, refs: &Schema, schema: &s1::S1, cnt: &Counters) -> u64 {
    use rayon::prelude::*;
    let cs = chains();
    let n = cs.len();
    let quick = cx.quick();
    let pairs: Vec<(usize, usize)> = (0..n).flat_map(|i| (0..n).map(move |j| (i, j))).filter(|(i, j)| !quick || (i + j) % 3 == 0 || cs[*i].split(' ').next() == cs[*j].split(' ').next()).collect();
    pairs.par_iter().for_each(|(i, j)| {
        let text = format!("{{ {} {} }}", cs[*i], cs[*j]);
        let Ok(doc) = agv_refgql::parse::parse_exec(&text) else { return cx.machinery_error(format!("chain document does not parse: {text}")) };
        if !agv_refgql::validate::validate(refs, &doc).is_empty() {
            return cx.machinery_error(format!("chain document is not valid: {text}"));
        }
        let mut w = Lists2 { s: refs, table: Default::default() };
        let reference = agv_refgql::exec::execute(refs, &doc, None, &Default::default(), &mut w);
        match agv_common::casecheck::run_fixed(refs, &Target::Static(schema), text, doc, Default::default(), w.table, vec!["chain-pair"], Some(reference)) {
            CaseOutcome::Ran(c) => {
                cx.eval();
                cnt.valid.fetch_add(1, Ordering::Relaxed);
                judge(cx, &c, cnt);
                cx.nontrivial(c.case_hash());
                cx.sample_with(c.case_hash(), || json!({"family": "chain-pair", "query": c.text, "data": c.expected_data_text()}));
            }
            CaseOutcome::Machinery(m) => cx.machinery_error(m),
            CaseOutcome::Panic { msg, case } => cx.violation(Violation::new("panic", msg, case)),
            _ => {}
        }
    });
    pairs.len() as u64
}

fn run(cx: &Cx) {
    let refs = match Schema::from_sdl(s1::SDL) {
        Ok(s) => s,
        Err(e) => return cx.machinery_error(format!("S1 reference SDL: {e}")),
    };
    let schema = s1::schema();
    if let Err(e) = agv_common::glue::sdl_equiv(s1::SDL, &schema.sdl()) {
        return cx.machinery_error(format!("S1's reference SDL and Schema::sdl() disagree: {e}"));
    }
    let (nodes, deco, worldb) = if cx.quick() { (4, 1, 1) } else { (5, 1, 1) };
    let gcfg = GenCfg { schema: &refs, fields: FIELDS, conds: CONDS, max_nodes: nodes, max_depth: 3, named_fragments: 2, deco: Some(Class::Dev(0)), typename: true, op: OpKind::Query, root_fragments: true };
    let cnt = Counters { not_doc: AtomicU64::new(0), invalid: AtomicU64::new(0), valid: AtomicU64::new(0), agree_nonempty: AtomicU64::new(0) };
    let ecfg = ExploreCfg { bounds: [deco, worldb, 0, 0], ..Default::default() };
    let docs = std::sync::Mutex::new(std::collections::HashSet::new());
    let st = explore(
        &ecfg,
        &|ch: &mut Chooser| run_case(cx, &refs, &schema, &gcfg, ch, &cnt, Class::Dev(1)),
        &|_, o| {
            if let Outcome::Ran { doc_hash, case_hash } = o {
                cx.nontrivial(case_hash);
                docs.lock().unwrap().insert(doc_hash);
            }
        },
    );
    if let Some(d) = st.diverged {
        cx.machinery_error(d);
    }
    let chain_docs = chain_pairs(cx, &refs, &schema, &cnt);
    cx.extra("chain_pair_documents", json!(chain_docs));
    let agree = cnt.agree_nonempty.load(Ordering::Relaxed);
    if agree == 0 {
        cx.machinery_error("reference and implementation never agreed on a non-empty result (vacuous or systematically wrong)");
    }
    cx.rule(&format!(
        "case = (valid document, variables, world). Documents: every document with ≤ {nodes} selection nodes over S1's subset (fields per type {FIELDS:?}, fragment conditions {CONDS:?}, ≤ 2 named fragments, __typename), structure exhaustive, ≤ {deco} decoration(s) (alias forcing key collisions; 12 @skip/@include forms incl. variables and variable defaults); validity decided by the reference validator. Worlds: answers drawn lazily per visited position, ≤ {worldb} deviation(s) from the all-default world (menus: Int {{1,2,null}}, Float {{1.5,-0.0,NaN,inf,null}}, object {{present,null}}, abstract {{A,B,C,null}}, list length {{1,0,2,null}}). Family B: every pair (quick: every third pair plus all pairs sharing their root field) of selection chains of depth ≤ 4 through o/l/ln/i/lu side by side, lists with 2 items (deep merging of repeated keys). Non-trivial = executed cases, distinct by (document, variables, world)."
    ));
    cx.exhaustive(!st.capped);
    cx.extra("choice_sequences", json!(st.executions));
    cx.extra("not_a_document", json!(cnt.not_doc.load(Ordering::Relaxed)));
    cx.extra("invalid_by_reference_validator", json!(cnt.invalid.load(Ordering::Relaxed)));
    cx.extra("valid_cases", json!(cnt.valid.load(Ordering::Relaxed)));
    cx.extra("distinct_documents", json!(docs.lock().unwrap().len()));
    cx.extra("agreements_nonempty", json!(agree));
    cx.extra("bounds", json!({"nodes": nodes, "decorations": deco, "world_deviations": worldb}));
    cx.assume("derive-built schemas cannot be generated at run time: the static family is the fixed schema S1 (DESIGN §8)");
    cx.assume("the reference executor (agv-refgql) is the oracle; it is bound to the spec by its unit tests and to the code by the agreement count");
}

fn replay(case: &J) -> String {
    let schema = s1::schema();
    let refs = Schema::from_sdl(s1::SDL).unwrap();
    match replay_fixed(&refs, &Target::Static(&schema), case) {
        CaseOutcome::Ran(c) => format!(
            "\n query: {}\n variables: {}\n expected data: {} errors at {:?}\n got: {}",
            c.text,
            J::Object(c.vars.clone()),
            c.expected_data_text(),
            c.reference.errors.iter().map(|e| path_str(&e.path)).collect::<Vec<_>>(),
            c.obs.to_json()
        ),
        CaseOutcome::Panic { msg, .. } => format!("panicked: {msg}"),
        CaseOutcome::Machinery(m) => m,
        _ => "case is not a valid document".into(),
    }
}

fn main() {
    agv_engine::driver::main("C01", "exploration", run, Some(replay))
}
