//! C19 — introspection modes gate schema metadata and user resolvers.
//!
//! Seam: schema builders `disable_introspection()` / `introspection_only()`, request
//! `disable_introspection()` / `only_introspection()`, `Schema::execute` / `execute_stream`, on a
//! derive ("static") schema and its `async_graphql::dynamic` twin, federation enabled, one entity.
//!
//! Space: ALL 3×3 (schema-level × request-level) mode pairs × {static, dynamic} × operation kind ×
//! every non-empty subset of the root selections legal for that kind (query: `__schema`, `__type`,
//! `__typename`, `_service{sdl}`, `_entities(...)`, ordinary scalar field, ordinary object field =
//! 127 subsets; mutation: `__typename`, counter field, object field = 7; subscription: two fields = 3)
//! × how the selections are wrapped {direct, `... on Root {}`, named fragment} (query / mutation)
//! × entry point {`execute` with request-level setters; static only: `execute_batch` with the
//! `BatchRequest`-level setters}.
//!
//! Oracle: either level Disabled ⇒ no type or field name from `__schema`, `__type`, `_service.sdl` in
//! any response (structural and substring test on sentinel names); either level IntrospectionOnly ⇒
//! no query / mutation / subscription-factory / entity resolver ran (invocation log empty);
//! `__typename`, when selected and the response carries a data object, equals the root type name.

use agv_engine::record::{Cx, Violation};
use agv_engine::sched::drive;
use async_graphql::dynamic as dy;
use async_graphql::*;
use futures_util::stream::{self, Stream, StreamExt};
use rayon::prelude::*;
use serde_json::json;
use std::sync::{Arc, Mutex};

#[derive(Clone, Default)]
struct Log(Arc<Mutex<Vec<String>>>);
impl Log {
    fn push(&self, s: &str) {
        self.0.lock().unwrap().push(s.to_string());
    }
    fn take(&self) -> Vec<String> {
        std::mem::take(&mut *self.0.lock().unwrap())
    }
}
fn log(ctx: &Context<'_>, s: &str) {
    if let Some(l) = ctx.data_opt::<Log>() {
        l.push(s)
    }
}

// ---------------------------------------------------------------------------------------------
// static schema

/// Never selected by an ordinary field in any enumerated document: its names can only reach a
/// response as schema metadata.
struct ZzSentinelType;
#[Object(name = "ZzSentinelType")]
impl ZzSentinelType {
    #[graphql(name = "zzSentinelField")]
    async fn zz_sentinel_field(&self, ctx: &Context<'_>) -> i32 {
        log(ctx, "query:ZzSentinelType.zzSentinelField");
        7
    }
}

struct Thing;
#[Object]
impl Thing {
    async fn val(&self, ctx: &Context<'_>) -> i32 {
        log(ctx, "field:Thing.val");
        3
    }
}

struct Ent {
    id: ID,
}
#[Object]
impl Ent {
    async fn id(&self, ctx: &Context<'_>) -> ID {
        log(ctx, "field:Ent.id");
        self.id.clone()
    }
}

struct Query;
#[Object]
impl Query {
    async fn plain(&self, ctx: &Context<'_>) -> i32 {
        log(ctx, "query:Query.plain");
        1
    }
    async fn obj(&self, ctx: &Context<'_>) -> Thing {
        log(ctx, "query:Query.obj");
        Thing
    }
    async fn hidden(&self, ctx: &Context<'_>) -> ZzSentinelType {
        log(ctx, "query:Query.hidden");
        ZzSentinelType
    }
    #[graphql(entity)]
    async fn find_ent(&self, ctx: &Context<'_>, id: ID) -> Ent {
        log(ctx, "entity:Ent");
        Ent { id }
    }
}

struct Mutation;
#[Object]
impl Mutation {
    async fn bump(&self, ctx: &Context<'_>) -> i32 {
        log(ctx, "mutation:Mutation.bump");
        1
    }
    async fn mobj(&self, ctx: &Context<'_>) -> Thing {
        log(ctx, "mutation:Mutation.mobj");
        Thing
    }
}

struct Subscription;
#[Subscription]
impl Subscription {
    async fn ticks(&self, ctx: &Context<'_>) -> impl Stream<Item = i32> {
        log(ctx, "subscription:Subscription.ticks");
        stream::iter(vec![1])
    }
    async fn obj_ticks(&self, ctx: &Context<'_>) -> impl Stream<Item = Thing> {
        log(ctx, "subscription:Subscription.objTicks");
        stream::iter(vec![Thing])
    }
}

type StaticSchema = Schema<Query, Mutation, Subscription>;

fn static_schema(mode: usize) -> StaticSchema {
    let b = Schema::build(Query, Mutation, Subscription).enable_federation();
    match mode {
        0 => b.finish(),
        1 => b.disable_introspection().finish(),
        _ => b.introspection_only().finish(),
    }
}

// ---------------------------------------------------------------------------------------------
// dynamic twin

fn dlog(ctx: &dy::ResolverContext<'_>, s: &str) {
    if let Some(l) = ctx.data_opt::<Log>() {
        l.push(s)
    }
}

fn dynamic_schema(mode: usize) -> Result<dy::Schema, String> {
    use dy::{Field, FieldFuture, FieldValue, Object, SubscriptionField, SubscriptionFieldFuture, TypeRef};
    let sentinel = Object::new("ZzSentinelType").field(Field::new("zzSentinelField", TypeRef::named_nn(TypeRef::INT), |ctx| {
        FieldFuture::new(async move {
            dlog(&ctx, "query:ZzSentinelType.zzSentinelField");
            Ok(Some(FieldValue::value(7)))
        })
    }));
    let thing = Object::new("Thing").field(Field::new("val", TypeRef::named_nn(TypeRef::INT), |ctx| {
        FieldFuture::new(async move {
            dlog(&ctx, "field:Thing.val");
            Ok(Some(FieldValue::value(3)))
        })
    }));
    let ent = Object::new("Ent")
        .field(Field::new("id", TypeRef::named_nn(TypeRef::ID), |ctx| {
            FieldFuture::new(async move {
                dlog(&ctx, "field:Ent.id");
                Ok(Some(FieldValue::value("1")))
            })
        }))
        .key("id");
    let query = Object::new("Query")
        .field(Field::new("plain", TypeRef::named_nn(TypeRef::INT), |ctx| {
            FieldFuture::new(async move {
                dlog(&ctx, "query:Query.plain");
                Ok(Some(FieldValue::value(1)))
            })
        }))
        .field(Field::new("obj", TypeRef::named_nn("Thing"), |ctx| {
            FieldFuture::new(async move {
                dlog(&ctx, "query:Query.obj");
                Ok(Some(FieldValue::owned_any(0u8)))
            })
        }))
        .field(Field::new("hidden", TypeRef::named_nn("ZzSentinelType"), |ctx| {
            FieldFuture::new(async move {
                dlog(&ctx, "query:Query.hidden");
                Ok(Some(FieldValue::owned_any(0u8)))
            })
        }));
    let mutation = Object::new("Mutation")
        .field(Field::new("bump", TypeRef::named_nn(TypeRef::INT), |ctx| {
            FieldFuture::new(async move {
                dlog(&ctx, "mutation:Mutation.bump");
                Ok(Some(FieldValue::value(1)))
            })
        }))
        .field(Field::new("mobj", TypeRef::named_nn("Thing"), |ctx| {
            FieldFuture::new(async move {
                dlog(&ctx, "mutation:Mutation.mobj");
                Ok(Some(FieldValue::owned_any(0u8)))
            })
        }));
    let subscription = dy::Subscription::new("Subscription")
        .field(SubscriptionField::new("ticks", TypeRef::named_nn(TypeRef::INT), |ctx| {
            SubscriptionFieldFuture::new(async move {
                dlog(&ctx, "subscription:Subscription.ticks");
                Ok(stream::iter(vec![Ok(FieldValue::value(1))]))
            })
        }))
        .field(SubscriptionField::new("objTicks", TypeRef::named_nn("Thing"), |ctx| {
            SubscriptionFieldFuture::new(async move {
                dlog(&ctx, "subscription:Subscription.objTicks");
                Ok(stream::iter(vec![Ok(FieldValue::owned_any(0u8))]))
            })
        }));
    let b = dy::Schema::build("Query", Some("Mutation"), Some("Subscription"))
        .register(sentinel)
        .register(thing)
        .register(ent)
        .register(query)
        .register(mutation)
        .register(subscription)
        .enable_federation()
        .entity_resolver(|ctx| {
            FieldFuture::new(async move {
                let n = ctx.args.try_get("representations")?.list()?.len();
                let mut values = Vec::new();
                for _ in 0..n {
                    dlog(&ctx, "entity:Ent");
                    values.push(FieldValue::owned_any(0u8).with_type("Ent"));
                }
                Ok(Some(FieldValue::list(values)))
            })
        });
    let b = match mode {
        0 => b,
        1 => b.disable_introspection(),
        _ => b.introspection_only(),
    };
    b.finish().map_err(|e| format!("dynamic schema does not build: {e}"))
}

// ---------------------------------------------------------------------------------------------
// cases

const MODES: [&str; 3] = ["enabled", "disabled", "introspection-only"];
const FLAVOURS: [&str; 2] = ["static", "dynamic"];
const KINDS: [(&str, &str); 3] = [("query", "Query"), ("mutation", "Mutation"), ("subscription", "Subscription")];
const WRAPS: [&str; 3] = ["direct", "typed-inline-fragment", "named-fragment"];

/// (response key, selection text)
const QUERY_SELS: [(&str, &str); 7] = [
    ("__schema", "__schema { types { name } }"),
    ("__type", "__type(name: \"ZzSentinelType\") { name fields { name } }"),
    ("__typename", "__typename"),
    ("_service", "_service { sdl }"),
    ("_entities", "_entities(representations: [{__typename: \"Ent\", id: \"1\"}]) { __typename ... on Ent { id } }"),
    ("plain", "plain"),
    ("obj", "obj { val }"),
];
const MUTATION_SELS: [(&str, &str); 3] = [("__typename", "__typename"), ("bump", "bump"), ("mobj", "mobj { val }")];
const SUBSCRIPTION_SELS: [(&str, &str); 2] = [("ticks", "ticks"), ("objTicks", "objTicks { val }")];

fn sels_of(kind: usize) -> &'static [(&'static str, &'static str)] {
    match kind {
        0 => &QUERY_SELS,
        1 => &MUTATION_SELS,
        _ => &SUBSCRIPTION_SELS,
    }
}

#[derive(Clone, Copy, Debug)]
struct Case {
    flavour: usize,
    schema_mode: usize,
    request_mode: usize,
    kind: usize,
    subset: u32,
    wrap: usize,
    reversed: bool,
    /// static query/mutation only: a `BatchRequest` whose mode is set with the batch-level setters, run by `execute_batch`
    via_batch: bool,
}

fn document(c: &Case) -> (String, Vec<&'static str>) {
    let sels = sels_of(c.kind);
    let mut chosen: Vec<(&str, &str)> = sels.iter().enumerate().filter(|(i, _)| c.subset & (1 << i) != 0).map(|(_, s)| *s).collect();
    if c.reversed {
        chosen.reverse();
    }
    let body = chosen.iter().map(|s| s.1).collect::<Vec<_>>().join(" ");
    let (kw, root) = KINDS[c.kind];
    let doc = match c.wrap {
        0 => format!("{kw} {{ {body} }}"),
        1 => format!("{kw} {{ ... on {root} {{ {body} }} }}"),
        _ => format!("{kw} {{ ...F }} fragment F on {root} {{ {body} }}"),
    };
    (doc, chosen.iter().map(|s| s.0).collect())
}

struct Schemas {
    st: Vec<StaticSchema>,
    dy: Vec<dy::Schema>,
}

struct Obs {
    responses: Vec<serde_json::Value>,
    log: Vec<String>,
    parked: bool,
}

fn execute(s: &Schemas, c: &Case, doc: &str) -> Result<Obs, String> {
    let log = Log::default();
    let mut req = Request::new(doc).data(log.clone());
    req = match c.request_mode {
        0 => req,
        1 => req.disable_introspection(),
        _ => req.only_introspection(),
    };
    let mut parked = false;
    let responses = agv_engine::catch_quiet(|| {
        let mut out = Vec::new();
        if c.kind == 2 {
            let mut st = if c.flavour == 0 { s.st[c.schema_mode].execute_stream(req) } else { s.dy[c.schema_mode].execute_stream(req) };
            for _ in 0..8 {
                match drive(st.next()) {
                    Some(Some(r)) => out.push(r),
                    Some(None) => break,
                    None => {
                        parked = true;
                        break;
                    }
                }
            }
        } else if c.via_batch {
            let batch = BatchRequest::Batch(vec![Request::new(doc).data(log.clone())]);
            let batch = match c.request_mode {
                0 => batch,
                1 => batch.disable_introspection(),
                _ => batch.introspection_only(),
            };
            match drive(s.st[c.schema_mode].execute_batch(batch)) {
                Some(BatchResponse::Batch(rs)) => out.extend(rs),
                Some(BatchResponse::Single(r)) => out.push(r),
                None => parked = true,
            }
        } else {
            let r = if c.flavour == 0 { drive(s.st[c.schema_mode].execute(req)) } else { drive(s.dy[c.schema_mode].execute(req)) };
            match r {
                Some(r) => out.push(r),
                None => parked = true,
            }
        }
        out
    })?;
    Ok(Obs { responses: responses.iter().map(|r| serde_json::to_value(r).unwrap_or(json!("<unserializable>"))).collect(), log: log.take(), parked })
}

fn level_key(c: &Case, mode: usize) -> &'static str {
    match (c.schema_mode == mode, c.request_mode == mode) {
        (true, true) => "schema+request",
        (true, false) => "schema",
        (false, true) => "request",
        _ => "none",
    }
}

fn base_keys(v: Violation, c: &Case) -> Violation {
    v.key("flavour", FLAVOURS[c.flavour]).key("entry", if c.via_batch { "execute_batch" } else if c.kind == 2 { "execute_stream" } else { "execute" }).key("operation", KINDS[c.kind].0).key("schema_mode", MODES[c.schema_mode]).key("request_mode", MODES[c.request_mode]).key("wrap", WRAPS[c.wrap])
}

fn case_json(c: &Case, doc: &str) -> serde_json::Value {
    json!({"flavour": c.flavour, "schema_mode": c.schema_mode, "request_mode": c.request_mode, "kind": c.kind, "subset": c.subset, "wrap": c.wrap, "reversed": c.reversed, "via_batch": c.via_batch, "document": doc})
}

/// Schema metadata found in one response: (field, what).
fn metadata_in(resp: &serde_json::Value) -> Vec<(&'static str, String)> {
    let mut found = Vec::new();
    let data = &resp["data"];
    if let Some(types) = data["__schema"]["types"].as_array() {
        if types.iter().any(|t| t["name"].is_string()) {
            found.push(("__schema", format!("{} type names", types.len())));
        }
    } else if !data["__schema"].is_null() {
        found.push(("__schema", data["__schema"].to_string()));
    }
    if !data["__type"].is_null() {
        found.push(("__type", data["__type"].to_string()));
    }
    if let Some(sdl) = data["_service"]["sdl"].as_str() {
        if sdl.contains("type ") || sdl.contains("ZzSentinel") {
            found.push(("_service-sdl", format!("SDL of {} bytes", sdl.len())));
        }
    }
    found
}

fn check_case(cx: &Cx, s: &Schemas, c: &Case) {
    let (doc, keys_selected) = document(c);
    cx.eval();
    let o = match execute(s, c, &doc) {
        Ok(o) => o,
        Err(p) => {
            cx.violation(base_keys(Violation::new("panic", format!("{doc}: {p}"), case_json(c, &doc)), c));
            return;
        }
    };
    if o.parked {
        cx.machinery_error(format!("request parked (resolvers are ready futures): {doc}"));
        return;
    }
    let disabled = c.schema_mode == 1 || c.request_mode == 1;
    let only = c.schema_mode == 2 || c.request_mode == 2;
    let ctx_line = format!("[{} schema={} request={}] {doc}", FLAVOURS[c.flavour], MODES[c.schema_mode], MODES[c.request_mode]);
    let all_text: String = o.responses.iter().map(|r| r.to_string()).collect::<Vec<_>>().join("\n");

    // metadata
    let mut meta: Vec<(&'static str, String)> = o.responses.iter().flat_map(metadata_in).collect();
    let substring_hit = all_text.contains("zzSentinelField") || (all_text.contains("ZzSentinelType") && !keys_selected.contains(&"__type"));
    if substring_hit && meta.is_empty() {
        meta.push(("unknown-place", "a sentinel type/field name occurs in the serialized response".to_string()));
    }
    if disabled {
        let mut fields: Vec<&str> = meta.iter().map(|m| m.0).collect();
        fields.sort();
        fields.dedup();
        for f in fields {
            let what: Vec<&str> = meta.iter().filter(|m| m.0 == f).map(|m| m.1.as_str()).collect();
            cx.violation(
                base_keys(
                    Violation::new(
                        format!("{}-{f}-ignores-Disabled", FLAVOURS[c.flavour]),
                        format!("{ctx_line} -> response carries schema metadata under {f} ({}) although introspection is disabled at the {} level; response {}", what.join("; "), level_key(c, 1), trunc(&all_text)),
                        case_json(c, &doc),
                    ),
                    c,
                )
                .key("field", f)
                .key("disabled_at", level_key(c, 1)),
            );
        }
    }
    // resolvers
    if only && !o.log.is_empty() {
        let mut kinds: Vec<&str> = o.log.iter().map(|l| l.split(':').next().unwrap_or("")).collect();
        kinds.sort();
        kinds.dedup();
        // `field:` entries are children of a root resolver that ran; the root entry names the defect
        let roots: Vec<&str> = kinds.iter().copied().filter(|k| *k != "field").collect();
        let roots = if roots.is_empty() { kinds.clone() } else { roots };
        for k in roots {
            let ran: Vec<&str> = o.log.iter().filter(|l| l.starts_with(k)).map(|l| l.as_str()).collect();
            cx.violation(
                base_keys(
                    Violation::new(
                        format!("{}-{k}-resolver-runs-under-IntrospectionOnly", FLAVOURS[c.flavour]),
                        format!("{ctx_line} -> resolvers ran {:?} although the {} level is introspection-only; response {}", ran, level_key(c, 2), trunc(&all_text)),
                        case_json(c, &doc),
                    ),
                    c,
                )
                .key("resolver", k)
                .key("only_at", level_key(c, 2)),
            );
        }
    }
    // __typename
    let mut typename_judged = false;
    if keys_selected.contains(&"__typename") {
        for r in &o.responses {
            if let Some(obj) = r["data"].as_object() {
                typename_judged = true;
                let got = obj.get("__typename");
                if got.and_then(|v| v.as_str()) != Some(KINDS[c.kind].1) {
                    cx.violation(
                        base_keys(
                            Violation::new(
                                format!("{}-__typename-not-root-type-name", FLAVOURS[c.flavour]),
                                format!("{ctx_line} -> __typename is {} (expected \"{}\"); response {}", got.map(|g| g.to_string()).unwrap_or("absent".into()), KINDS[c.kind].1, trunc(&all_text)),
                                case_json(c, &doc),
                            ),
                            c,
                        )
                        .key("got", got.map(|g| g.to_string()).unwrap_or("absent".into()))
                        .key("only_at", level_key(c, 2))
                        .key("disabled_at", level_key(c, 1)),
                    );
                }
            }
        }
    }
    // non-vacuity: with everything enabled the same requests do return metadata and do run resolvers
    if c.schema_mode == 0 && c.request_mode == 0 && c.wrap == 0 {
        let wants_meta = keys_selected.iter().any(|k| matches!(*k, "__schema" | "__type" | "_service"));
        let wants_resolver = keys_selected.iter().any(|k| !matches!(*k, "__schema" | "__type" | "_service" | "__typename"));
        if wants_meta && (meta.is_empty() || !all_text.contains("ZzSentinelType")) {
            cx.machinery_error(format!("self-check: with introspection enabled {ctx_line} returned no metadata: {}", trunc(&all_text)));
        }
        if wants_resolver && o.log.is_empty() {
            cx.machinery_error(format!("self-check: with introspection enabled {ctx_line} ran no resolver: {}", trunc(&all_text)));
        }
    }
    if disabled || only || typename_judged {
        cx.nontrivial_count(1);
    }
    cx.extra_add(if typename_judged { "typename_judged" } else { "typename_not_selected_or_no_data" }, 1);
    let id = agv_engine::h64(&(c.flavour, c.schema_mode, c.request_mode, c.kind, c.subset, c.wrap, c.reversed, c.via_batch));
    cx.sample_with(id, || json!({"flavour": FLAVOURS[c.flavour], "schema_mode": MODES[c.schema_mode], "request_mode": MODES[c.request_mode], "document": doc, "resolver_log": o.log, "responses": o.responses.iter().map(|r| trunc(&r.to_string())).collect::<Vec<_>>()}));
}

fn trunc(s: &str) -> String {
    if s.len() > 400 {
        let mut e = 400;
        while !s.is_char_boundary(e) {
            e -= 1;
        }
        format!("{}… ({} bytes)", &s[..e], s.len())
    } else {
        s.to_string()
    }
}

fn all_cases(thorough: bool) -> Vec<Case> {
    let mut v = Vec::new();
    for flavour in 0..2 {
        for schema_mode in 0..3 {
            for request_mode in 0..3 {
                for kind in 0..3 {
                    let n = sels_of(kind).len();
                    for subset in 1u32..(1 << n) {
                        for wrap in 0..3 {
                            if kind == 2 && wrap != 0 {
                                continue; // static schemas collect subscription streams from plain root fields only
                            }
                            for reversed in [false, true] {
                                if reversed && (!thorough || subset.count_ones() < 2) {
                                    continue;
                                }
                                v.push(Case { flavour, schema_mode, request_mode, kind, subset, wrap, reversed, via_batch: false });
                                if flavour == 0 && kind != 2 {
                                    v.push(Case { flavour, schema_mode, request_mode, kind, subset, wrap, reversed, via_batch: true });
                                }
                            }
                        }
                    }
                }
            }
        }
    }
    v
}

fn build_schemas() -> Result<Schemas, String> {
    Ok(Schemas { st: (0..3).map(static_schema).collect(), dy: (0..3).map(dynamic_schema).collect::<Result<Vec<_>, _>>()? })
}

pub fn run(cx: &Cx) {
    cx.rule(
        "case = (flavour static/dynamic, schema-level mode, request-level mode, operation kind, non-empty subset of that kind's root selections, wrapping). All 3x3 mode pairs; query: 127 subsets of \
         {__schema, __type, __typename, _service{sdl}, _entities, scalar field, object field}; mutation: 7 subsets of {__typename, counter, object field}; subscription: 3 subsets of two fields; \
         query/mutation selections direct, under `... on Root {}` and in a named fragment, through execute and (static) execute_batch with batch-level mode setters [thorough: also in reversed order]. \
         Non-trivial = a case in which at least one oracle clause applies (a level is Disabled or IntrospectionOnly, or __typename was selected and a data object came back).",
    );
    cx.assume("'the operation executes' = the response carries a data object; requests rejected by validation (e.g. __schema on a schema built with introspection disabled) or nulled by a field error are not judged for __typename");
    cx.assume("subscriptions are driven through execute_stream to the end of the stream (each harness stream has one item); fragments at the subscription root are not enumerated");
    cx.assume("whether introspection fields answer under IntrospectionOnly, and whether ordinary fields answer under Disabled, is not part of the statement and not judged");
    let schemas = match build_schemas() {
        Ok(s) => s,
        Err(e) => {
            cx.machinery_error(e);
            return;
        }
    };
    let cases = all_cases(!cx.quick());
    cases.par_iter().for_each(|c| check_case(cx, &schemas, c));
    cx.exhaustive(true);
    cx.extra("cases", json!(cases.len()));
    cx.extra("mode_pairs", json!(9));
    cx.extra("subsets", json!({"query": 127, "mutation": 7, "subscription": 3}));
}

pub fn replay(case: &serde_json::Value) -> String {
    let g = |k: &str| case[k].as_u64().unwrap_or(0) as usize;
    let c = Case { flavour: g("flavour"), schema_mode: g("schema_mode"), request_mode: g("request_mode"), kind: g("kind"), subset: g("subset") as u32, wrap: g("wrap"), reversed: case["reversed"].as_bool().unwrap_or(false), via_batch: case["via_batch"].as_bool().unwrap_or(false) };
    let schemas = match build_schemas() {
        Ok(s) => s,
        Err(e) => return e,
    };
    let (doc, _) = document(&c);
    match execute(&schemas, &c, &doc) {
        Ok(o) => format!(
            "[{} schema={} request={}] {doc} -> resolver log {:?}; responses {}",
            FLAVOURS[c.flavour],
            MODES[c.schema_mode],
            MODES[c.request_mode],
            o.log,
            o.responses.iter().map(|r| trunc(&r.to_string())).collect::<Vec<_>>().join(" | ")
        ),
        Err(e) => format!("execution failed: {e}"),
    }
}

fn main() {
    agv_engine::driver::main("C19", "exploration", run, Some(replay))
}
