//! Seam B — validators declared with `#[graphql(validator(...))]` on arguments and input-object fields,
//! driven through `Schema::execute` in `ValidationMode::Strict` and `ValidationMode::Fast`.
//!
//! One root field per annotated site (macros `arg_sites!` / `io_sites!`, two derive schemas). The validator attribute is written once:
//! the macro passes the same tokens to the derive attribute and, stringified, to the harness, which parses them
//! into the predicate list the oracle evaluates. The Rust type is handled the same way.

use crate::direct::{char_count, regex_oracle, utf8_len, Table};
use crate::real::{self, real_f64, real_int, Real};
use agv_engine::record::{Cx, Violation};
use agv_engine::sched::drive;
use async_graphql::*;
use async_graphql::Value as ConstValue;
use rayon::prelude::*;
use serde_json::json;
use std::cell::RefCell;
use std::cmp::Ordering;
use std::sync::atomic::{AtomicU64, Ordering as AO};
use std::sync::Arc;

thread_local! {
    static LOG: RefCell<Vec<String>> = const { RefCell::new(Vec::new()) };
}
fn log_inv(s: String) {
    LOG.with(|l| l.borrow_mut().push(s));
}
fn take_log() -> Vec<String> {
    LOG.with(|l| std::mem::take(&mut *l.borrow_mut()))
}

pub type Exec = Arc<dyn Fn(Request) -> Option<Response> + Send + Sync>;

fn execs<Q: ObjectType + 'static>(mk: fn() -> Q) -> [Exec; 2] {
    [ValidationMode::Strict, ValidationMode::Fast].map(|m| {
        let s = Schema::build(mk(), EmptyMutation, EmptySubscription).validation_mode(m).finish();
        Arc::new(move |r: Request| drive(s.execute(r))) as Exec
    })
}
pub const MODES: [&str; 2] = ["strict", "fast"];

#[derive(Clone, Copy, PartialEq, Eq, Debug)]
pub enum Shape {
    /// the annotated site is the argument `v` of a root field
    Arg,
    /// the annotated site is field `v` of input object `In`, passed as argument `v: In!` of a root field
    InObj,
    /// … passed inside a list argument `v: [In!]!` of a second root field
    InObjList,
    /// the annotated site is a variant (field with this key) of a `OneofObject`, passed as argument `v`
    OneOf(&'static str),
}

pub struct FieldCase {
    pub name: String,
    pub field: &'static str,
    /// GraphQL name of the input object type (input-object sites)
    pub in_type: String,
    pub rust_type: String,
    pub validators: String,
    /// GraphQL type of the annotated site, from `InputType::qualified_type_name()`
    pub gql_type: String,
    pub shape: Shape,
    /// "query" or "subscription" (the site is an argument of a `#[Subscription]` field)
    pub op: &'static str,
    /// derive flavour that generated the validator call
    pub flavour: &'static str,
    pub exec: [Exec; 2],
    pub ty: TypeShape,
    pub spec: Spec,
}

// All argument sites are fields of one root object, all input-object sites fields of a second one (one `#[Object]`
// expansion each keeps the build time of this crate reasonable). `rename_fields = "lowercase"` keeps the GraphQL field
// name equal to the (already lowercase) Rust method name.
macro_rules! arg_sites {
    ($( ($m:ident, [$($t:tt)*], [$($val:tt)*]); )*) => {
        pub struct QA;
        #[Object(rename_fields = "lowercase")]
        impl QA {
            $(
                async fn $m(&self, #[graphql(validator($($val)*))] v: $($t)*) -> bool {
                    log_inv(format!("{:?}", v));
                    true
                }
            )*
        }
        fn arg_cases(ex: &[Exec; 2]) -> Vec<FieldCase> {
            vec![$(
                FieldCase::new(stringify!($m), stringify!($m), stringify!($($t)*), stringify!($($val)*), <$($t)* as InputType>::qualified_type_name(), Shape::Arg, String::new(), ex.clone()),
            )*]
        }
    };
}

macro_rules! io_sites {
    ($( ($m:ident, $ml:ident, $In:ident, [$($t:tt)*], [$($val:tt)*]); )*) => {
        $(
            #[derive(InputObject)]
            pub struct $In {
                #[graphql(validator($($val)*))]
                pub v: $($t)*,
            }
        )*
        pub struct QI;
        #[Object(rename_fields = "lowercase")]
        impl QI {
            $(
                async fn $m(&self, v: $In) -> bool {
                    log_inv(format!("{:?}", v.v));
                    true
                }
                async fn $ml(&self, v: Vec<$In>) -> bool {
                    log_inv(format!("{:?}", v.iter().map(|i| &i.v).collect::<Vec<_>>()));
                    true
                }
            )*
        }
        fn io_cases(ex: &[Exec; 2]) -> Vec<FieldCase> {
            let mut out = Vec::new();
            $(
                let g = <$($t)* as InputType>::qualified_type_name();
                let tn = <$In as InputType>::type_name().to_string();
                out.push(FieldCase::new(concat!(stringify!($m), "/obj"), stringify!($m), stringify!($($t)*), stringify!($($val)*), g.clone(), Shape::InObj, tn.clone(), ex.clone()));
                out.push(FieldCase::new(concat!(stringify!($m), "/list-of-obj"), stringify!($ml), stringify!($($t)*), stringify!($($val)*), g, Shape::InObjList, tn, ex.clone()));
            )*
            out
        }
    };
}

// The other derive flavours that call `Validators::create_validators`: `#[ComplexObject]` arguments,
// `#[Subscription]` arguments and `OneofObject` variants (derive/src/{complex_object,subscription,oneof_object}.rs).
#[derive(SimpleObject)]
#[graphql(complex)]
pub struct QC {
    pub unused: bool,
}
macro_rules! cx_sites {
    ($( ($m:ident, [$($t:tt)*], [$($val:tt)*]); )*) => {
        #[ComplexObject(rename_fields = "lowercase")]
        impl QC {
            $(
                async fn $m(&self, #[graphql(validator($($val)*))] v: $($t)*) -> bool {
                    log_inv(format!("{:?}", v));
                    true
                }
            )*
        }
        fn cx_cases(ex: &[Exec; 2]) -> Vec<FieldCase> {
            vec![$(
                FieldCase::new(stringify!($m), stringify!($m), stringify!($($t)*), stringify!($($val)*), <$($t)* as InputType>::qualified_type_name(), Shape::Arg, String::new(), ex.clone()).flavour("ComplexObject"),
            )*]
        }
    };
}
pub struct QD;
#[Object]
impl QD {
    async fn unused(&self) -> bool {
        true
    }
}
pub struct SubRoot;
macro_rules! sub_sites {
    ($( ($m:ident, [$($t:tt)*], [$($val:tt)*]); )*) => {
        #[Subscription(rename_fields = "lowercase")]
        impl SubRoot {
            $(
                async fn $m(&self, #[graphql(validator($($val)*))] v: $($t)*) -> impl futures_util::Stream<Item = bool> {
                    log_inv(format!("{:?}", v));
                    futures_util::stream::iter(vec![true])
                }
            )*
        }
        fn sub_cases(ex: &[Exec; 2]) -> Vec<FieldCase> {
            vec![$(
                FieldCase::new(stringify!($m), stringify!($m), stringify!($($t)*), stringify!($($val)*), <$($t)* as InputType>::qualified_type_name(), Shape::Arg, String::new(), ex.clone()).flavour("Subscription").subscription(),
            )*]
        }
    };
}
macro_rules! oneof_sites {
    ($( ($variant:ident, $key:literal, $name:literal, [$($t:tt)*], [$($val:tt)*]); )*) => {
        #[derive(OneofObject)]
        pub enum One {
            $(
                #[graphql(validator($($val)*))]
                $variant($($t)*),
            )*
        }
        pub struct QO;
        #[Object(rename_fields = "lowercase")]
        impl QO {
            async fn one(&self, v: One) -> bool {
                log_inv(match &v { $( One::$variant(x) => format!("{:?}", x), )* });
                true
            }
        }
        fn oneof_cases(ex: &[Exec; 2]) -> Vec<FieldCase> {
            let tn = <One as InputType>::type_name().to_string();
            vec![$(
                FieldCase::new($name, "one", stringify!($($t)*), stringify!($($val)*), <$($t)* as InputType>::qualified_type_name(), Shape::OneOf($key), tn.clone(), ex.clone()).flavour("OneofObject"),
            )*]
        }
    };
}

fn execs_sub() -> [Exec; 2] {
    use futures_util::StreamExt;
    [ValidationMode::Strict, ValidationMode::Fast].map(|m| {
        let s = Schema::build(QD, EmptyMutation, SubRoot).validation_mode(m).finish();
        Arc::new(move |r: Request| {
            let mut st = s.execute_stream(r);
            drive(st.next()).flatten()
        }) as Exec
    })
}

pub fn all_cases() -> Vec<FieldCase> {
    let mut v = arg_cases(&execs(|| QA));
    v.extend(io_cases(&execs(|| QI)));
    v.extend(cx_cases(&execs(|| QC { unused: true })));
    v.extend(sub_cases(&execs_sub()));
    v.extend(oneof_cases(&execs(|| QO)));
    v
}

cx_sites! {
    (cx_u64_max, [u64], [maximum = 10]);
    (cx_i32_mul, [i32], [multiple_of = 3]);
    (cx_l_list, [Vec<String>], [list, max_length = 3, max_items = 2]);
}

sub_sites! {
    (sub_u64_max, [u64], [maximum = 10]);
    (sub_f64_min, [f64], [minimum = 0.5]);
    (sub_s_cminlen, [String], [chars_min_length = 2]);
}

oneof_sites! {
    (A, "a", "oneof_s_maxlen", [String], [max_length = 3]);
    (B, "b", "oneof_u64_max", [u64], [maximum = 10]);
    (C, "c", "oneof_l_list", [Vec<i32>], [list, minimum = 1, max_items = 2]);
}

arg_sites! {
    // every numeric Rust type × the three numeric validators (integer literal bounds)
    (i8_max, [i8], [maximum = 10]);
    (i8_min, [i8], [minimum = 10]);
    (i8_mul, [i8], [multiple_of = 3]);
    (u8_max, [u8], [maximum = 10]);
    (u8_min, [u8], [minimum = 10]);
    (u8_mul, [u8], [multiple_of = 3]);
    (i16_max, [i16], [maximum = 10]);
    (i16_min, [i16], [minimum = 10]);
    (i16_mul, [i16], [multiple_of = 3]);
    (u16_max, [u16], [maximum = 10]);
    (u16_min, [u16], [minimum = 10]);
    (u16_mul, [u16], [multiple_of = 3]);
    (i32_max, [i32], [maximum = 10]);
    (i32_min, [i32], [minimum = 10]);
    (i32_mul, [i32], [multiple_of = 3]);
    (u32_max, [u32], [maximum = 10]);
    (u32_min, [u32], [minimum = 10]);
    (u32_mul, [u32], [multiple_of = 3]);
    (i64_max, [i64], [maximum = 10]);
    (i64_min, [i64], [minimum = 10]);
    (i64_mul, [i64], [multiple_of = 3]);
    (u64_max, [u64], [maximum = 10]);
    (u64_min, [u64], [minimum = 10]);
    (u64_mul, [u64], [multiple_of = 3]);
    (isize_max, [isize], [maximum = 10]);
    (isize_min, [isize], [minimum = 10]);
    (isize_mul, [isize], [multiple_of = 3]);
    (usize_max, [usize], [maximum = 10]);
    (usize_min, [usize], [minimum = 10]);
    (usize_mul, [usize], [multiple_of = 3]);
    (f32_max, [f32], [maximum = 10.5]);
    (f32_min, [f32], [minimum = 0.5]);
    (f32_mul, [f32], [multiple_of = 0.5]);
    (f64_max, [f64], [maximum = 10.5]);
    (f64_min, [f64], [minimum = 0.5]);
    (f64_mul, [f64], [multiple_of = 0.5]);
    // bounds at the edges of the types
    (i8_max_127, [i8], [maximum = 127]);
    (i8_max_200, [i8], [maximum = 200]);
    (i8_min_0, [i8], [minimum = 0]);
    (u8_max_255, [u8], [maximum = 255]);
    (u8_max_0, [u8], [maximum = 0]);
    (u8_min_1, [u8], [minimum = 1]);
    (u8_mul_2, [u8], [multiple_of = 2]);
    (i32_max_i32max, [i32], [maximum = 2147483647]);
    (u32_min_u32max, [u32], [minimum = 4294967295]);
    (i64_max_i64max, [i64], [maximum = 9223372036854775807]);
    (i64_min_0, [i64], [minimum = 0]);
    (i64_mul_2, [i64], [multiple_of = 2]);
    (u64_max_i64max, [u64], [maximum = 9223372036854775807]);
    (u64_min_i64max, [u64], [minimum = 9223372036854775807]);
    (u64_max_0, [u64], [maximum = 0]);
    (u64_min_0, [u64], [minimum = 0]);
    (u64_min_1, [u64], [minimum = 1]);
    (u64_mul_2, [u64], [multiple_of = 2]);
    (u64_mul_1, [u64], [multiple_of = 1]);
    (u64_mul_100, [u64], [multiple_of = 100]);
    (usize_max_100, [usize], [maximum = 100]);
    (i32_mul_0, [i32], [multiple_of = 0]);
    // float literal bound on integer types, integer literal bound on float types
    (i32_max_f, [i32], [maximum = 10.5]);
    (i64_max_f53, [i64], [maximum = 9007199254740992.0]);
    (i64_min_f53, [i64], [minimum = 9007199254740992.0]);
    (u64_min_f, [u64], [minimum = 0.5]);
    (u64_max_f63, [u64], [maximum = 9223372036854775808.0]);
    (i32_mul_f, [i32], [multiple_of = 2.5]);
    (f64_max_i, [f64], [maximum = 10]);
    (f64_min_i, [f64], [minimum = 0]);
    (f64_mul_i, [f64], [multiple_of = 2]);
    (f32_max_i, [f32], [maximum = 10]);
    (f64_mul_tenth, [f64], [multiple_of = 0.1]);
    (f32_max_tenth, [f32], [maximum = 0.1]);
    (f64_max_0, [f64], [maximum = 0.0]);
    (f64_min_0, [f64], [minimum = 0.0]);
    // several validators on one argument
    (i32_combo, [i32], [minimum = 2, maximum = 10, multiple_of = 2]);
    (u64_combo, [u64], [minimum = 1, maximum = 9223372036854775807]);
    (f64_combo, [f64], [minimum = 0.5, maximum = 2.5, multiple_of = 0.5]);
    // Option<T>
    (opt_i32_max, [Option<i32>], [maximum = 10]);
    (opt_u64_min, [Option<u64>], [minimum = 5]);
    (opt_f64_max, [Option<f64>], [maximum = 1.5]);
    (opt_string_maxlen, [Option<String>], [max_length = 3]);
    // strings
    (s_maxlen, [String], [max_length = 3]);
    (s_minlen, [String], [min_length = 3]);
    (s_cmaxlen, [String], [chars_max_length = 3]);
    (s_cminlen, [String], [chars_min_length = 3]);
    (s_maxlen_0, [String], [max_length = 0]);
    (s_minlen_0, [String], [min_length = 0]);
    (s_cmaxlen_1, [String], [chars_max_length = 1]);
    (s_len_range, [String], [min_length = 2, max_length = 4]);
    (s_mixed_measures, [String], [chars_min_length = 2, max_length = 4]);
    (s_re_digits, [String], [regex = "^[0-9]+$"]);
    (s_re_astar, [String], [regex = "^a*$"]);
    (s_re_b, [String], [regex = "b"]);
    (s_re_dot, [String], [regex = "^.$"]);
    (s_re_alt_len, [String], [regex = "^(ab|cd)+$", max_length = 4]);
    (s_re_class, [String], [regex = "^[a-b0]{2,3}$"]);
    (id_maxlen, [ID], [max_length = 3]);
    // lists: list-level validators
    (l_max_items, [Vec<i32>], [max_items = 2]);
    (l_min_items, [Vec<i32>], [min_items = 2]);
    (l_items_range, [Vec<i32>], [min_items = 1, max_items = 3]);
    (l_max_items_0, [Vec<String>], [max_items = 0]);
    (l_min_items_0, [Vec<String>], [min_items = 0]);
    (ol_min_items, [Option<Vec<String>>], [min_items = 1]);
    // list forms: element validators applied to every member
    (l_list_max, [Vec<i32>], [list, maximum = 3]);
    (l_list_max_u64, [Vec<u64>], [list, maximum = 100]);
    (l_list_min_items, [Vec<u64>], [list, minimum = 1, max_items = 2]);
    (l_list_mul_opt, [Vec<Option<i32>>], [list, multiple_of = 2, min_items = 1]);
    (ol_list_max_items, [Option<Vec<u64>>], [list, maximum = 100, max_items = 3]);
    (l_list_fmin, [Vec<f64>], [list, minimum = 0.5]);
    (l_list_maxlen_items, [Vec<String>], [list, max_length = 3, max_items = 2]);
    (l_list_regex, [Vec<String>], [list, regex = "^[0-9]+$"]);
    (l_list_cminlen, [Vec<String>], [list, chars_min_length = 2]);
    (l_list_cmaxlen, [Vec<String>], [list, chars_max_length = 2]);
    (ol_list_minlen_items, [Option<Vec<String>>], [list, min_length = 1, min_items = 1]);
    // input-object fields
}

io_sites! {
    (io_i32_max, io_i32_max_list, InI32Max, [i32], [maximum = 10]);
    (io_u64_max, io_u64_max_list, InU64Max, [u64], [maximum = 100]);
    (io_u64_mul, io_u64_mul_list, InU64Mul, [u64], [multiple_of = 2]);
    (io_f64_max, io_f64_max_list, InF64Max, [f64], [maximum = 10.5]);
    (io_opt_i32_min, io_opt_i32_min_list, InOptI32Min, [Option<i32>], [minimum = 1]);
    (io_s_maxlen, io_s_maxlen_list, InSMaxlen, [String], [max_length = 3]);
    (io_s_cminlen, io_s_cminlen_list, InSCminlen, [String], [chars_min_length = 2]);
    (io_s_regex, io_s_regex_list, InSRegex, [String], [regex = "^[0-9]+$"]);
    (io_l_list, io_l_list_list, InLList, [Vec<String>], [list, max_length = 3, max_items = 2]);
    (io_l_items, io_l_items_list, InLItems, [Vec<u64>], [min_items = 1, max_items = 2]);
}

// ---------------------------------------------------------------------------------------------
// the declared type and the stated predicates, parsed from the macro's own tokens

#[derive(Clone, Debug, PartialEq)]
pub enum Scalar {
    Int { name: String, lo: i128, hi: i128 },
    Float { name: String, single: bool },
    Str { name: String },
}
impl Scalar {
    pub fn name(&self) -> &str {
        match self {
            Scalar::Int { name, .. } | Scalar::Float { name, .. } | Scalar::Str { name } => name,
        }
    }
}

#[derive(Clone, Debug)]
pub struct TypeShape {
    pub outer_opt: bool,
    pub list: bool,
    pub item_opt: bool,
    pub scalar: Scalar,
}

fn parse_type(s: &str) -> Result<TypeShape, String> {
    let mut t: String = s.chars().filter(|c| !c.is_whitespace()).collect();
    let strip = |t: &mut String, w: &str| -> bool {
        if t.starts_with(&format!("{w}<")) && t.ends_with('>') {
            *t = t[w.len() + 1..t.len() - 1].to_string();
            true
        } else {
            false
        }
    };
    let outer_opt = strip(&mut t, "Option");
    let list = strip(&mut t, "Vec");
    let item_opt = list && strip(&mut t, "Option");
    let int = |lo: i128, hi: i128| Scalar::Int { name: t.clone(), lo, hi };
    let scalar = match t.as_str() {
        "i8" => int(i8::MIN as i128, i8::MAX as i128),
        "u8" => int(0, u8::MAX as i128),
        "i16" => int(i16::MIN as i128, i16::MAX as i128),
        "u16" => int(0, u16::MAX as i128),
        "i32" => int(i32::MIN as i128, i32::MAX as i128),
        "u32" => int(0, u32::MAX as i128),
        "i64" => int(i64::MIN as i128, i64::MAX as i128),
        "u64" => int(0, u64::MAX as i128),
        "isize" => int(isize::MIN as i128, isize::MAX as i128),
        "usize" => int(0, usize::MAX as i128),
        "f32" => Scalar::Float { name: t.clone(), single: true },
        "f64" => Scalar::Float { name: t.clone(), single: false },
        "String" | "ID" => Scalar::Str { name: t.clone() },
        other => return Err(format!("harness does not know Rust type {other:?}")),
    };
    Ok(TypeShape { outer_opt, list, item_opt, scalar })
}

#[derive(Clone, Debug)]
pub enum Pred {
    Maximum(Real, bool),
    Minimum(Real, bool),
    MultipleOf(Real, bool),
    MaxLength(u128),
    MinLength(u128),
    CharsMaxLength(u128),
    CharsMinLength(u128),
    Regex(String),
    MaxItems(u128),
    MinItems(u128),
}
impl Pred {
    pub fn name(&self) -> &'static str {
        match self {
            Pred::Maximum(..) => "maximum",
            Pred::Minimum(..) => "minimum",
            Pred::MultipleOf(..) => "multiple_of",
            Pred::MaxLength(_) => "max_length",
            Pred::MinLength(_) => "min_length",
            Pred::CharsMaxLength(_) => "chars_max_length",
            Pred::CharsMinLength(_) => "chars_min_length",
            Pred::Regex(_) => "regex",
            Pred::MaxItems(_) => "max_items",
            Pred::MinItems(_) => "min_items",
        }
    }
    fn is_list_level(&self) -> bool {
        matches!(self, Pred::MaxItems(_) | Pred::MinItems(_))
    }
    /// bound of a numeric predicate and whether it was written as a float literal
    fn bound(&self) -> Option<(Real, bool)> {
        match self {
            Pred::Maximum(b, f) | Pred::Minimum(b, f) | Pred::MultipleOf(b, f) => Some((*b, *f)),
            _ => None,
        }
    }
    fn len_bound(&self) -> Option<u128> {
        match self {
            Pred::MaxLength(n) | Pred::MinLength(n) | Pred::CharsMaxLength(n) | Pred::CharsMinLength(n) | Pred::MaxItems(n) | Pred::MinItems(n) => Some(*n),
            _ => None,
        }
    }
}

#[derive(Clone, Debug, Default)]
pub struct Spec {
    pub list: bool,
    pub preds: Vec<Pred>,
}

fn split_top(s: &str) -> Vec<String> {
    let mut out = Vec::new();
    let mut cur = String::new();
    let mut in_str = false;
    let mut esc = false;
    for c in s.chars() {
        if in_str {
            cur.push(c);
            if esc {
                esc = false;
            } else if c == '\\' {
                esc = true;
            } else if c == '"' {
                in_str = false;
            }
        } else if c == '"' {
            in_str = true;
            cur.push(c);
        } else if c == ',' {
            out.push(std::mem::take(&mut cur));
        } else {
            cur.push(c);
        }
    }
    if !cur.trim().is_empty() {
        out.push(cur);
    }
    out
}

fn parse_spec(s: &str) -> Result<Spec, String> {
    let mut spec = Spec::default();
    for part in split_top(s) {
        let part = part.trim();
        if part == "list" {
            spec.list = true;
            continue;
        }
        let (k, v) = part.split_once('=').ok_or_else(|| format!("cannot parse validator {part:?}"))?;
        let (k, v) = (k.trim(), v.trim());
        let num = || -> Result<(Real, bool), String> {
            let t: String = v.chars().filter(|c| !c.is_whitespace() && *c != '_').collect();
            if t.contains('.') || t.contains('e') || t.contains('E') {
                t.parse::<f64>().map(|f| (real_f64(f), true)).map_err(|e| format!("{v}: {e}"))
            } else {
                t.parse::<i128>().map(|i| (real_int(i), false)).map_err(|e| format!("{v}: {e}"))
            }
        };
        let len = || v.parse::<u128>().map_err(|e| format!("{v}: {e}"));
        spec.preds.push(match k {
            "maximum" => {
                let (b, f) = num()?;
                Pred::Maximum(b, f)
            }
            "minimum" => {
                let (b, f) = num()?;
                Pred::Minimum(b, f)
            }
            "multiple_of" => {
                let (b, f) = num()?;
                Pred::MultipleOf(b, f)
            }
            "max_length" => Pred::MaxLength(len()?),
            "min_length" => Pred::MinLength(len()?),
            "chars_max_length" => Pred::CharsMaxLength(len()?),
            "chars_min_length" => Pred::CharsMinLength(len()?),
            "max_items" => Pred::MaxItems(len()?),
            "min_items" => Pred::MinItems(len()?),
            "regex" => {
                let re: String = serde_json::from_str(v).map_err(|e| format!("regex literal {v}: {e}"))?;
                if regex_oracle(&re, "").is_none() {
                    return Err(format!("no hand-written matcher for regex {re:?}"));
                }
                Pred::Regex(re)
            }
            other => return Err(format!("unknown validator {other:?}")),
        });
    }
    Ok(spec)
}

impl FieldCase {
    fn new(name: &str, field: &'static str, rust_type: &str, validators: &str, gql_type: String, shape: Shape, in_type: String, exec: [Exec; 2]) -> FieldCase {
        let rust_type: String = rust_type.chars().filter(|c| !c.is_whitespace()).collect();
        let ty = parse_type(&rust_type).unwrap_or_else(|e| panic!("{name}: {e}"));
        let spec = parse_spec(validators).unwrap_or_else(|e| panic!("{name}: {e}"));
        FieldCase { name: name.to_string(), field, in_type, op: "query", flavour: if shape == Shape::Arg { "Object" } else { "InputObject" }, rust_type, validators: validators.to_string(), gql_type, shape, exec, ty, spec }
    }
}

impl FieldCase {
    fn flavour(mut self, f: &'static str) -> Self {
        self.flavour = f;
        self
    }
    fn subscription(mut self) -> Self {
        self.op = "subscription";
        self
    }
}

// ---------------------------------------------------------------------------------------------
// supplied values and their meaning

#[derive(Clone, Debug)]
pub enum Sc {
    Num(Real),
    Str(String),
}
#[derive(Clone, Debug)]
pub enum Sem {
    /// null or omitted (only offered where the declared type is nullable)
    Absent,
    Scalar(Sc),
    List(Vec<Option<Sc>>),
}
#[derive(Clone, Debug)]
pub struct Supplied {
    /// `None` = the argument / input field is omitted
    pub value: Option<ConstValue>,
    pub sem: Sem,
}

fn pred_holds(p: &Pred, sc: &Sc) -> bool {
    match (p, sc) {
        (Pred::Maximum(b, _), Sc::Num(v)) => matches!(real::cmp(*v, *b), Some(Ordering::Less | Ordering::Equal)),
        (Pred::Minimum(b, _), Sc::Num(v)) => matches!(real::cmp(*v, *b), Some(Ordering::Greater | Ordering::Equal)),
        (Pred::MultipleOf(b, _), Sc::Num(v)) => real::is_multiple(*v, *b).unwrap_or(false),
        (Pred::MaxLength(n), Sc::Str(s)) => utf8_len(s) <= *n,
        (Pred::MinLength(n), Sc::Str(s)) => utf8_len(s) >= *n,
        (Pred::CharsMaxLength(n), Sc::Str(s)) => char_count(s) <= *n,
        (Pred::CharsMinLength(n), Sc::Str(s)) => char_count(s) >= *n,
        (Pred::Regex(re), Sc::Str(s)) => regex_oracle(re, s).unwrap(),
        _ => panic!("harness: predicate {} applied to a value of the wrong kind", p.name()),
    }
}

/// Names of the stated predicates the supplied value violates (empty = the value must reach the resolver).
pub fn violated(spec: &Spec, sem: &Sem) -> Vec<&'static str> {
    let mut out = Vec::new();
    let mut add = |n: &'static str| {
        if !out.contains(&n) {
            out.push(n)
        }
    };
    match sem {
        Sem::Absent => {}
        Sem::Scalar(sc) => {
            for p in spec.preds.iter().filter(|p| !p.is_list_level()) {
                if !pred_holds(p, sc) {
                    add(p.name());
                }
            }
        }
        Sem::List(items) => {
            for p in &spec.preds {
                match p {
                    Pred::MaxItems(n) => {
                        if items.len() as u128 > *n {
                            add(p.name())
                        }
                    }
                    Pred::MinItems(n) => {
                        if (items.len() as u128) < *n {
                            add(p.name())
                        }
                    }
                    _ => {
                        for sc in items.iter().flatten() {
                            if !pred_holds(p, sc) {
                                add(p.name());
                            }
                        }
                    }
                }
            }
        }
    }
    out
}

fn cv_int(v: i128) -> ConstValue {
    if v >= 0 {
        ConstValue::Number(Number::from(v as u64))
    } else {
        ConstValue::Number(Number::from(v as i64))
    }
}

/// Integer values for one site: the bounds' neighbourhoods, multiples, the type's extremes, the signed/unsigned
/// and float-precision edges — all 2^8 values for the 8-bit types.
fn int_values(lo: i128, hi: i128, spec: &Spec, dense: &[i128]) -> Vec<i128> {
    let mut v: Vec<i128> = Vec::new();
    if hi - lo < 256 {
        v.extend(lo..=hi);
        return v;
    }
    v.extend(dense.iter().copied());
    for d in 0..=2 {
        v.push(lo + d);
        v.push(hi - d);
    }
    let edges = [0i128, i64::MAX as i128, 1 << 53, -(1 << 53), i64::MIN as i128, 1 << 63, u64::MAX as i128];
    for p in &spec.preds {
        if let Some((b, _)) = p.bound() {
            if let Some(f) = b.floor_i128() {
                for d in -2..=3 {
                    v.push(f + d);
                }
                if f != 0 {
                    for k in -3..=3 {
                        v.push(k * f);
                    }
                    // true multiples (and their neighbours) near every edge
                    for e in edges.iter().chain([lo, hi].iter()) {
                        let m = e - e.rem_euclid(f.abs());
                        for x in [m - f.abs(), m, m + f.abs()] {
                            for d in -1..=1 {
                                v.push(x + d);
                            }
                        }
                    }
                }
                // twice the bound as a half-integer multiple base (multiple_of = 2.5 → 5, 10)
                if let Some(f2) = real_twice(b) {
                    for k in -2..=4 {
                        v.push(k * f2);
                    }
                }
            }
        }
    }
    v.retain(|x| *x >= lo && *x <= hi);
    v.sort();
    v.dedup();
    v
}

fn real_twice(b: Real) -> Option<i128> {
    match b {
        Real::Fin { neg, m, e } => Real::Fin { neg, m, e: e + 1 }.as_integer(),
        _ => None,
    }
}

fn real_to_f64(b: Real) -> Option<f64> {
    // only used to derive test values; exactness is irrelevant here
    match b {
        Real::Fin { neg, m, e } => {
            let x = (m as f64) * 2f64.powi(e);
            Some(if neg { -x } else { x })
        }
        _ => None,
    }
}

fn bump(x: f64, up: bool) -> f64 {
    if x == 0.0 {
        return if up { 5e-324 } else { -5e-324 };
    }
    let b = x.to_bits();
    f64::from_bits(if (x > 0.0) == up { b + 1 } else { b - 1 })
}

/// Finite float values for one site (JSON cannot carry NaN or infinities). For f32 sites only doubles that are
/// exactly representable in f32 are offered, so the Rust value is the supplied number.
fn float_values(single: bool, spec: &Spec) -> Vec<(ConstValue, Real)> {
    let mut v: Vec<f64> = vec![
        0.0, -0.0, 0.1, 0.2, 0.25, 0.3, 0.5, 0.75, 0.9, -0.9, -0.5, 1.0, -1.0, 1.5, 2.0, 2.5, 3.0, 4.0, 4.5, 9.5, 10.0, 10.25, 10.5, 10.75, 10.9, 11.0, 11.5, 100.0,
        9007199254740992.0, 9007199254740994.0, 9223372036854775808.0, 18446744073709551616.0, 1e300, -1e300, 5e-324, -5e-324, 1e-300, f64::MAX, f64::MIN,
        0.1f32 as f64, f32::MAX as f64, f32::MIN_POSITIVE as f64, f32::from_bits(1) as f64, 16777216.0, 16777218.0,
    ];
    for p in &spec.preds {
        if let Some((b, _)) = p.bound() {
            if let Some(x) = real_to_f64(b) {
                v.extend([x, bump(x, true), bump(x, false), x + 0.5, x - 0.5, x + 0.25, x + 1.0, x - 1.0, -x, x * 2.0, x * 3.0, x * 0.5, x * 1.5, x * 2.5, x * 7.0, x * 1e15]);
                if single {
                    let s = x as f32;
                    v.extend([s as f64, f32::from_bits(s.to_bits().wrapping_add(1)) as f64, f32::from_bits(s.to_bits().wrapping_sub(1)) as f64]);
                }
            }
        }
    }
    v.retain(|x| x.is_finite() && (!single || ((*x as f32).is_finite() && (*x as f32) as f64 == *x)));
    v.sort_by_key(|x| x.to_bits());
    v.dedup_by_key(|x| x.to_bits());
    let mut out: Vec<(ConstValue, Real)> = v.into_iter().map(|x| (ConstValue::Number(Number::from_f64(x).unwrap()), real_f64(x))).collect();
    // integer-typed JSON numbers for a Float site (spec: Int input coerces to Float); only exactly representable ones
    for i in [0i128, 1, -1, 2, 3, 4, 9, 10, 11, 12, 100, 1 << 24, 1 << 53, -(1 << 53)] {
        out.push((cv_int(i), real_int(i)));
    }
    out
}

fn string_values(spec: &Spec, quick: bool) -> Vec<String> {
    let mut v = crate::direct::strings_upto(if quick { 2 } else { 3 }, 9);
    let mut maxlen = 3u128;
    for p in &spec.preds {
        if let Some(n) = p.len_bound() {
            if !p.is_list_level() {
                maxlen = maxlen.max(n);
            }
        }
    }
    for unit in ["a", "é", "😀", "e\u{301}", "ab", "0"] {
        for k in 0..=(maxlen as usize + 2) {
            v.push(unit.repeat(k));
        }
    }
    v.extend(["abcd", "abab", "abcdab", "cdab", "abc", "0123456789", "aé", "éa", "a😀", "aéa", "ééa"].map(String::from));
    v.sort();
    v.dedup();
    v
}

fn scalar_values(f: &FieldCase, dense: &[i128], quick: bool) -> Vec<(ConstValue, Sc)> {
    match &f.ty.scalar {
        Scalar::Int { lo, hi, .. } => int_values(*lo, *hi, &f.spec, dense).into_iter().map(|i| (cv_int(i), Sc::Num(real_int(i)))).collect(),
        Scalar::Float { single, .. } => float_values(*single, &f.spec).into_iter().map(|(c, r)| (c, Sc::Num(r))).collect(),
        Scalar::Str { .. } => string_values(&f.spec, quick).into_iter().map(|s| (ConstValue::String(s.clone()), Sc::Str(s))).collect(),
    }
}

/// Everything offered at one annotated site.
pub fn supplied_values(f: &FieldCase, dense: &[i128], small: &[i128], quick: bool) -> Vec<Supplied> {
    let mut v = supplied_values_raw(f, dense, small, quick);
    let mut seen = std::collections::HashSet::new();
    v.retain(|s| seen.insert(format!("{:?}", s.value)));
    v
}

fn supplied_values_raw(f: &FieldCase, dense: &[i128], small: &[i128], quick: bool) -> Vec<Supplied> {
    let mut out = Vec::new();
    if f.ty.outer_opt {
        out.push(Supplied { value: None, sem: Sem::Absent });
        out.push(Supplied { value: Some(ConstValue::Null), sem: Sem::Absent });
    }
    if !f.ty.list {
        for (c, sc) in scalar_values(f, dense, quick) {
            out.push(Supplied { value: Some(c), sem: Sem::Scalar(sc) });
        }
        return out;
    }
    // lists
    let elems = scalar_values(f, small, true);
    let elem_spec = Spec { list: false, preds: f.spec.preds.iter().filter(|p| !p.is_list_level()).cloned().collect() };
    let good = elems.iter().find(|(_, sc)| !f.spec.list || violated(&elem_spec, &Sem::Scalar(sc.clone())).is_empty()).cloned();
    let mut max_n = 2u128;
    for p in &f.spec.preds {
        if p.is_list_level() {
            max_n = max_n.max(p.len_bound().unwrap());
        }
    }
    if let Some((gc, gs)) = &good {
        for n in 0..=(max_n as usize + 2) {
            out.push(Supplied { value: Some(ConstValue::List(vec![gc.clone(); n])), sem: Sem::List(vec![Some(gs.clone()); n]) });
        }
        for (c, sc) in &elems {
            // single element, first of two, last of two, and the bare value (input coercion wraps it into a list of one)
            out.push(Supplied { value: Some(ConstValue::List(vec![c.clone()])), sem: Sem::List(vec![Some(sc.clone())]) });
            out.push(Supplied { value: Some(ConstValue::List(vec![c.clone(), gc.clone()])), sem: Sem::List(vec![Some(sc.clone()), Some(gs.clone())]) });
            out.push(Supplied { value: Some(ConstValue::List(vec![gc.clone(), c.clone()])), sem: Sem::List(vec![Some(gs.clone()), Some(sc.clone())]) });
            out.push(Supplied { value: Some(c.clone()), sem: Sem::List(vec![Some(sc.clone())]) });
        }
        if f.ty.item_opt {
            out.push(Supplied { value: Some(ConstValue::List(vec![ConstValue::Null])), sem: Sem::List(vec![None]) });
            out.push(Supplied { value: Some(ConstValue::List(vec![ConstValue::Null, gc.clone()])), sem: Sem::List(vec![None, Some(gs.clone())]) });
            out.push(Supplied { value: Some(ConstValue::List(vec![])), sem: Sem::List(vec![]) });
            if let Some((bc, bs)) = elems.iter().find(|(_, sc)| !violated(&elem_spec, &Sem::Scalar(sc.clone())).is_empty()) {
                out.push(Supplied { value: Some(ConstValue::List(vec![ConstValue::Null, bc.clone()])), sem: Sem::List(vec![None, Some(bs.clone())]) });
                out.push(Supplied { value: Some(ConstValue::List(vec![bc.clone(), ConstValue::Null])), sem: Sem::List(vec![Some(bs.clone()), None]) });
            }
        }
    }
    out
}

// ---------------------------------------------------------------------------------------------
// requests

/// 0 = literal, 1 = the whole argument is a variable, 2 = (input objects) the annotated field is a variable
pub const FORMS: [&str; 3] = ["literal", "variable", "inner-variable"];

fn obj(v: Option<ConstValue>) -> ConstValue {
    let mut m = indexmap_new();
    if let Some(v) = v {
        m.insert(Name::new("v"), v);
    }
    ConstValue::Object(m)
}
fn indexmap_new() -> async_graphql::indexmap::IndexMap<Name, ConstValue> {
    Default::default()
}

pub fn build_request(f: &FieldCase, sup: &Supplied, form: usize) -> Option<(String, serde_json::Value)> {
    let field = f.field;
    let op = f.op;
    let keyed = |key: &str, v: Option<ConstValue>| {
        let mut m = indexmap_new();
        if let Some(v) = v {
            m.insert(Name::new(key), v);
        }
        ConstValue::Object(m)
    };
    let (arg_value, arg_type): (Option<ConstValue>, String) = match f.shape {
        Shape::Arg => (sup.value.clone(), f.gql_type.clone()),
        Shape::InObj => (Some(obj(sup.value.clone())), format!("{}!", f.in_type)),
        Shape::InObjList => (Some(ConstValue::List(vec![obj(sup.value.clone())])), format!("[{}!]!", f.in_type)),
        Shape::OneOf(key) => (Some(keyed(key, sup.value.clone())), format!("{}!", f.in_type)),
    };
    match form {
        0 => Some(match &arg_value {
            Some(v) => (format!("{op} {{ {field}(v: {v}) }}"), json!({})),
            None => (format!("{op} {{ {field} }}"), json!({})),
        }),
        1 => Some(match &arg_value {
            Some(v) => (format!("{op}($x: {arg_type}) {{ {field}(v: $x) }}"), json!({"x": v.clone().into_json().ok()?})),
            None => (format!("{op}($x: {arg_type}) {{ {field}(v: $x) }}"), json!({})),
        }),
        2 => {
            let inner = match f.shape {
                Shape::Arg => return None,
                Shape::InObj => "{v: $x}".to_string(),
                Shape::InObjList => "[{v: $x}]".to_string(),
                Shape::OneOf(key) => format!("{{{key}: $x}}"),
            };
            let q = format!("{op}($x: {}) {{ {field}(v: {inner}) }}", f.gql_type);
            Some(match &sup.value {
                Some(v) => (q, json!({"x": v.clone().into_json().ok()?})),
                None => (q, json!({})),
            })
        }
        _ => None,
    }
}

pub struct Outcome {
    pub invoked: usize,
    pub errors: Vec<(String, String)>,
    pub field_error: bool,
    pub panic: Option<String>,
    pub parked: bool,
}

pub fn execute(f: &FieldCase, mode: usize, query: &str, variables: &serde_json::Value) -> Outcome {
    let req = Request::new(query).variables(Variables::from_json(variables.clone()));
    let _ = take_log();
    let r = agv_engine::catch_quiet(|| (f.exec[mode])(req));
    let log = take_log();
    match r {
        Err(p) => Outcome { invoked: log.len(), errors: vec![], field_error: false, panic: Some(p), parked: false },
        Ok(None) => Outcome { invoked: log.len(), errors: vec![], field_error: false, panic: None, parked: true },
        Ok(Some(resp)) => {
            let want = vec![PathSegment::Field(f.field.to_string())];
            let field_error = resp.errors.iter().any(|e| e.path == want);
            let errors = resp.errors.iter().map(|e| (format!("{:?}", e.path), e.message.clone())).collect();
            Outcome { invoked: log.len(), errors, field_error, panic: None, parked: false }
        }
    }
}

fn nums_of(sem: &Sem) -> Vec<Real> {
    let mut nums: Vec<Real> = Vec::new();
    match sem {
        Sem::Scalar(Sc::Num(r)) => nums.push(*r),
        Sem::List(items) => nums.extend(items.iter().flatten().filter_map(|s| if let Sc::Num(r) = s { Some(*r) } else { None })),
        _ => {}
    }
    nums
}

fn has_above_i64(sem: &Sem) -> bool {
    nums_of(sem).iter().any(|r| real::cmp(*r, real_int(i64::MAX as i128)) == Some(Ordering::Greater))
}

fn value_class(f: &FieldCase, sem: &Sem) -> &'static str {
    let nums = nums_of(sem);
    if nums.is_empty() {
        return "n/a";
    }
    let is_int_ty = matches!(f.ty.scalar, Scalar::Int { .. });
    let float_bound = f.spec.preds.iter().any(|p| matches!(p.bound(), Some((_, true))));
    if is_int_ty && nums.iter().any(|r| real::cmp(*r, real_int(i64::MAX as i128)) == Some(Ordering::Greater)) && !float_bound {
        "above-i64-max"
    } else if is_int_ty && float_bound && nums.iter().any(|r| matches!(r.as_integer(), Some(i) if i.unsigned_abs() > 1 << 53)) {
        "beyond-2^53"
    } else if !is_int_ty && !float_bound && nums.iter().any(|r| !matches!(real::cmp(*r, real_int(i64::MAX as i128)), Some(Ordering::Less | Ordering::Equal)) || real::cmp(*r, real_int(i64::MIN as i128)) == Some(Ordering::Less)) {
        "beyond-i64"
    } else if !is_int_ty && !float_bound && nums.iter().any(|r| real::is_multiple(*r, real_int(1)) != Some(true)) {
        "fractional"
    } else {
        "plain"
    }
}

#[derive(Default)]
pub struct ExecCounts {
    pub strict_blocked: AtomicU64,
    pub reached: AtomicU64,
    pub rejected: AtomicU64,
    pub executions: AtomicU64,
}

fn judge(cx: &Cx, f: &FieldCase, sup: &Supplied, form: usize, mode: usize, query: &str, vars: &serde_json::Value, cnt: &ExecCounts) -> bool {
    let bad = violated(&f.spec, &sup.sem);
    let o = execute(f, mode, query, vars);
    cnt.executions.fetch_add(1, AO::Relaxed);
    let case = || json!({"seam": "execute", "site": f.name, "rust_type": f.rust_type, "validators": f.validators, "mode": MODES[mode], "form": FORMS[form], "query": query, "variables": vars});
    let float_bound = f.spec.preds.iter().any(|p| matches!(p.bound(), Some((_, true))));
    let viol = |class: &str, validator: String, detail: String| {
        crate::emit(cx, 
            Violation::new(class, format!("site {} `{}: {}` with validator({}), {} mode, {}: {detail}\n query {query} variables {vars}", f.name, f.field, f.rust_type, f.validators, MODES[mode], FORMS[form]), case())
                .key("seam", "execute")
                .key("validator", validator)
                .key("rust_type", f.ty.scalar.name())
                .key("bound_literal", if float_bound { "float" } else { "int" })
                .key("value_class", value_class(f, &sup.sem)),
        )
    };
    let all_names = || f.spec.preds.iter().map(|p| p.name()).collect::<Vec<_>>().join("+");
    if let Some(p) = &o.panic {
        let zero_bound = f.spec.preds.iter().any(|p| matches!(p, Pred::MultipleOf(b, _) if b.is_zero()));
        crate::emit(cx, 
            Violation::new("panic", format!("site {} with validator({}), {} mode: execute panicked: {p}\n query {query} variables {vars}", f.name, f.validators, MODES[mode]), case())
                .key("seam", "execute")
                .key("validator", all_names())
                .key("rust_type", f.ty.scalar.name())
                .key("trigger", if zero_bound { "zero-bound" } else { "other" }),
        );
        return true;
    }
    if o.parked {
        cx.machinery_error(format!("execute parked on site {} ({query})", f.name));
        return false;
    }
    // Strict mode validates every `Int` with i32's `is_valid` (= fits i64; registry::add_system_types registers the
    // built-in scalars first), so a 64-bit unsigned value above i64::MAX is turned away by validation — an error
    // without path, before any validator can run. The validator is not reached, so C08 has nothing to judge.
    if mode == 0 && o.invoked == 0 && !o.errors.is_empty() && o.errors.iter().all(|(p, _)| p == "[]") && has_above_i64(&sup.sem) && matches!(f.ty.scalar, Scalar::Int { .. }) {
        cnt.strict_blocked.fetch_add(1, AO::Relaxed);
        return false;
    }
    if bad.is_empty() {
        if o.invoked == 1 {
            cnt.reached.fetch_add(1, AO::Relaxed);
            return false;
        }
        // satisfied, not invoked
        let zero_of_multiple = f.spec.preds.iter().any(|p| matches!(p, Pred::MultipleOf(..))) && {
            let mut z = false;
            match &sup.sem {
                Sem::Scalar(Sc::Num(r)) => z = r.is_zero(),
                Sem::List(items) => z = items.iter().flatten().any(|s| matches!(s, Sc::Num(r) if r.is_zero())),
                _ => {}
            }
            z
        };
        let class = if o.invoked > 1 {
            "resolver-invoked-more-than-once"
        } else if zero_of_multiple {
            "multiple-of-rejects-zero"
        } else {
            "rejects-satisfying-value"
        };
        viol(class, all_names(), format!("the value satisfies every stated predicate, so the resolver must run once; it ran {} time(s); errors {:?}", o.invoked, o.errors));
        true
    } else {
        if o.invoked == 0 && o.field_error {
            cnt.rejected.fetch_add(1, AO::Relaxed);
            return false;
        }
        if o.invoked > 0 {
            viol("accepts-violating-value", bad.join("+"), format!("the value violates {bad:?}, yet the resolver ran ({} time(s)); errors {:?}", o.invoked, o.errors));
        } else {
            viol("missing-field-error", bad.join("+"), format!("the value violates {bad:?} and the resolver did not run, but no error has path [{:?}]; errors {:?}", f.field, o.errors));
        }
        true
    }
}

pub fn run(cx: &Cx, table: &Table, cnt: &ExecCounts) {
    let cases = all_cases();
    let quick = cx.quick();
    let dense = crate::direct::dense_menu(if quick { 1 } else { 3 });
    let small = crate::direct::dense_menu(0);
    // self-check of the harness: every site's GraphQL type is what the Rust type says
    for f in &cases {
        let expect_nullable = f.ty.outer_opt;
        if f.gql_type.ends_with('!') == expect_nullable {
            cx.machinery_error(format!("site {}: Rust type {} but GraphQL type {}", f.name, f.rust_type, f.gql_type));
        }
    }
    let mut work: Vec<(usize, Supplied)> = Vec::new();
    let mut per_site = serde_json::Map::new();
    for (i, f) in cases.iter().enumerate() {
        let vals = supplied_values(f, &dense, &small, quick);
        per_site.insert(f.name.clone(), json!({"type": f.rust_type, "validator": f.validators, "values": vals.len()}));
        for s in vals {
            work.push((i, s));
        }
    }
    let res: Vec<(usize, u64, u64)> = work
        .par_iter()
        .with_min_len(8)
        .map(|(i, sup)| {
            let f = &cases[*i];
            let (mut c, mut d) = (0u64, 0u64);
            for form in 0..3 {
                let Some((q, vars)) = build_request(f, sup, form) else { continue };
                for mode in 0..2 {
                    c += 1;
                    if judge(cx, f, sup, form, mode, &q, &vars, cnt) {
                        d += 1;
                    }
                }
            }
            (*i, c, d)
        })
        .collect();
    let mut by_site = vec![(0u64, 0u64); cases.len()];
    for (i, c, d) in res {
        by_site[i].0 += c;
        by_site[i].1 += d;
    }
    for (i, f) in cases.iter().enumerate() {
        let names = f.spec.preds.iter().map(|p| p.name()).collect::<Vec<_>>().join("+");
        let names = if f.spec.list { format!("list,{names}") } else { names };
        let place = match f.shape {
            Shape::Arg => match f.flavour {
                "ComplexObject" => " (ComplexObject argument)",
                "Subscription" => " (Subscription argument)",
                _ => "",
            },
            Shape::InObj => " in input object",
            Shape::InObjList => " in list of input objects",
            Shape::OneOf(_) => " in oneof object",
        };
        table.add(&format!("execute: {names}"), &format!("{}{place}", f.rust_type), by_site[i].0, by_site[i].1);
        cx.evals(by_site[i].0);
        cx.sample_with(agv_engine::hstr(&f.name), || json!({"seam": "execute", "site": f.name, "rust_type": f.rust_type, "graphql_type": f.gql_type, "validators": f.validators, "values_offered": per_site[&f.name]["values"], "requests": by_site[i].0}));
    }
    cx.extra("execute_sites", json!(cases.len()));
    cx.extra("execute_values_per_site", serde_json::Value::Object(per_site));
}

pub fn replay(case: &serde_json::Value) -> String {
    let cases = all_cases();
    let site = case["site"].as_str().unwrap_or("");
    let Some(f) = cases.iter().find(|f| f.name == site) else { return format!("unknown site {site}") };
    let mode = if case["mode"] == "fast" { 1 } else { 0 };
    let q = case["query"].as_str().unwrap_or("");
    let o = execute(f, mode, q, &case["variables"]);
    format!(
        "site {} `{}: {}` validator({}) {} mode\n query {q} variables {}\n resolver invocations: {}; error with path [{:?}]: {}; errors: {:?}; panic: {:?}",
        f.name, f.field, f.rust_type, f.validators, MODES[mode], case["variables"], o.invoked, f.field, o.field_error, o.errors, o.panic
    )
}
