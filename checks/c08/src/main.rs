//! C08 — built-in input validators accept exactly the values satisfying their predicate.
//!
//! Two seams, both on the real code:
//!
//! (A) `async_graphql::validators::{maximum, minimum, multiple_of, max_length, min_length, chars_max_length,
//!     chars_min_length, max_items, min_items, regex}` called directly. Complete sweeps: every validator kind ×
//!     every supported Rust type × bound type (the value's own type, `i64` and `f64` — the two the derive macro
//!     emits for integer / float literals — and `i128`) × bounds menu × values; all values × all bounds for the
//!     8-bit types, all values × the bounds menu for the 16-bit types (module `direct`).
//! (B) a root field per annotated site (`#[graphql(validator(...))]` on `#[Object]`, `#[ComplexObject]` and
//!     `#[Subscription]` arguments, `InputObject` fields, `OneofObject` variants; `Option<T>`, `Vec<T>`, list forms,
//!     several validators), executed in `ValidationMode::Strict` and `Fast` with the value supplied as a literal and
//!     as variables; the resolver logs its invocations (module `exec`).
//!
//! Oracle: the stated predicate evaluated in exact arithmetic on the real values (module `real`: integer
//! mantissa·2^e, no float operations), UTF-8 byte / scalar-value counts computed by hand, hand-written matchers
//! for the regex menu. `Ok` ⇔ predicate (A); resolver invoked ⇔ every predicate holds, otherwise an error whose
//! path is the field (B).

mod direct;
mod exec;
mod real;

use agv_engine::record::{Cx, Violation};
use serde_json::json;
use std::collections::BTreeMap;
use std::sync::atomic::Ordering;
use std::sync::Mutex;

/// Every discrepancy goes through here: forwarded to the engine, and tallied per (class, keys) so that the
/// evidence shows which sites each class was seen at (the engine keeps only the first few cases per class).
static BREAKDOWN: Mutex<BTreeMap<String, (u64, String)>> = Mutex::new(BTreeMap::new());
pub fn emit(cx: &Cx, v: Violation) {
    let key = format!("{} {}", v.class, v.keys.iter().map(|(k, x)| format!("{k}={x}")).collect::<Vec<_>>().join(" "));
    {
        let mut g = BREAKDOWN.lock().unwrap();
        // keep the shortest (then lexicographically smallest) example so that the evidence does not depend on thread timing
        let ex = v.detail.lines().next().unwrap_or("").to_string();
        let e = g.entry(key).or_insert_with(|| (0, ex.clone()));
        e.0 += 1;
        if (ex.len(), &ex) < (e.1.len(), &e.1) {
            e.1 = ex;
        }
    }
    cx.violation(v);
}

fn run(cx: &Cx) {
    if let Err(e) = real::self_test() {
        return cx.machinery_error(e);
    }
    let table = direct::Table::default();
    let cnt = direct::Counts::default();
    direct::run_numeric(cx, &table, &cnt);
    direct::run_strings(cx, &table, &cnt);
    direct::run_lists(cx, &table, &cnt);
    let (da, dr) = (cnt.agree_accept.load(Ordering::Relaxed), cnt.agree_reject.load(Ordering::Relaxed));
    let ec = exec::ExecCounts::default();
    exec::run(cx, &table, &ec);
    let (reached, rejected) = (ec.reached.load(Ordering::Relaxed), ec.rejected.load(Ordering::Relaxed));
    if da == 0 || dr == 0 || reached == 0 || rejected == 0 {
        cx.machinery_error(format!("vacuous: direct agree-accept {da}, agree-reject {dr}; execute reached {reached}, rejected-with-field-error {rejected}"));
    }
    cx.nontrivial_count(da + reached);
    cx.rule(
        "case = (validator kind, Rust type, bound, value) at the direct seam, or (annotated site, supplied value, literal/variable form, Strict/Fast) at the \
         execute seam. Direct: maximum/minimum/multiple_of × {i8 i16 i32 i64 isize u8 u16 u32 u64 usize f32 f64} × bound type {own type, i64, i128, f64}; \
         ALL values × ALL bounds of the type (8-bit, plus every integer and half-integer bound in ±300), ALL values × the bounds menu (16-bit), dense menu (±d around 0 and ±2^k, k ≤ 64) × \
         bounds menu (wider integers), float menu incl. ±0, NaN, ±inf, subnormals, neighbours of every menu integer (f32/f64); bounds menu = {type min, type max of every integer type, −1, 0, 1, 100, 2^24, 2^53, …} \
         with both neighbours. Length/regex validators × {String, Box<str>, Arc<str>, ID} × every string of ≤ 3 (thorough 4) symbols over {a b 0 é 😀 U+0301 LF (c d)} plus long strings × the length-bounds menu (coverage.direct_strings) / 7 regexes; \
         max_items/min_items × 6 list types × the lengths menu (coverage.direct_lists) × the same bounds. Execute: one root field per annotated site (listed in coverage.execute_values_per_site) over five derive schemas — #[Object] arguments, InputObject fields (bare and inside a list), \
         #[ComplexObject] arguments, #[Subscription] arguments, OneofObject variants; Option<T>, Vec<T>, list forms, several validators per site; values derived from the site's bounds, \
         the type's extremes and the signed/unsigned and float-precision edges (all 256 values for the 8-bit types), each as literal and as variable(s), in both validation modes. \
         Non-trivial = cases where the predicate holds and the implementation agrees (direct: returned Ok; execute: resolver ran once); counted distinct by construction (menus are de-duplicated).",
    );
    cx.assume("max_length/min_length count UTF-8 bytes (Rust string length), chars_* count Unicode scalar values — read off docs/en/src/input_value_validators.md, which lists both families");
    cx.assume("multiple_of(v, n) states 'there is an integer k with v = k·n' on the real values (so 0 is a multiple of every n, and only 0 is a multiple of 0); non-finite bounds are not enumerated");
    cx.assume("null / omitted values of nullable sites and null list members carry no value to judge: the resolver must run (pinned by the crate's own tests for Option<T>)");
    cx.assume("execute seam: only values inside the declared Rust type's domain are supplied (domain checks are C07's), floats for f32 sites are exactly representable in f32, JSON cannot carry NaN/inf; Strict mode validates every GraphQL Int with i32's is_valid (fits i64) whatever Rust type is declared, so u64/usize values above i64::MAX are turned away by validation (error without path) before a validator runs; those requests are counted (execute_agreements.strict_validation_blocked) and not judged — Fast mode reaches the validator");
    cx.assume("regex: only the 7 regexes with a hand-written matcher are used; invalid regexes are not judged");
    cx.exhaustive(true);
    cx.extra("table_validator_x_type", table.to_json());
    cx.extra(
        "discrepancies_by_class_and_site",
        serde_json::Value::Object(BREAKDOWN.lock().unwrap().iter().map(|(k, (n, first))| (k.clone(), json!({"cases": n, "smallest_example": first}))).collect()),
    );
    cx.extra("direct_agreements", json!({"accepted": da, "rejected": dr}));
    cx.extra("execute_agreements", json!({"resolver_reached": reached, "rejected_with_field_error": rejected, "executions": ec.executions.load(Ordering::Relaxed), "strict_validation_blocked": ec.strict_blocked.load(Ordering::Relaxed)}));
    cx.extra("complete_domains", json!("i8 u8 (all values × all bounds of the type and all integer/half-integer bounds in ±300); i16 u16 (all values × bounds menu)"));
}

fn replay(case: &serde_json::Value) -> String {
    if case["seam"] == "execute" {
        return exec::replay(case);
    }
    if case.get("bound_type").is_some() {
        return direct::replay_numeric(case);
    }
    direct::replay_other(case)
}

fn main() {
    agv_engine::driver::main("C08", "exploration", run, Some(replay))
}
