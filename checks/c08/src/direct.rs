//! Seam A — the public functions `async_graphql::validators::*` called directly.

use crate::real::{self, real_f32, real_f64, real_int, Real};
use agv_engine::record::{Cx, Violation};
use async_graphql::validators as V;
use async_graphql::{InputType, ID};
use num_traits::{AsPrimitive, Zero};
use rayon::prelude::*;
use serde_json::json;
use std::cmp::Ordering;
use std::collections::BTreeMap;
use std::fmt::Display;
use std::ops::Rem;
use std::sync::atomic::{AtomicU64, Ordering as AO};
use std::sync::{Arc, Mutex};

/// validator × type → (cases, disagreements)
#[derive(Default)]
pub struct Table(pub Mutex<BTreeMap<(String, String), (u64, u64)>>);
impl Table {
    pub fn add(&self, validator: &str, ty: &str, cases: u64, dis: u64) {
        let mut g = self.0.lock().unwrap();
        let e = g.entry((validator.to_string(), ty.to_string())).or_insert((0, 0));
        e.0 += cases;
        e.1 += dis;
    }
    pub fn to_json(&self) -> serde_json::Value {
        let g = self.0.lock().unwrap();
        let mut m = serde_json::Map::new();
        for ((v, t), (c, d)) in g.iter() {
            m.insert(format!("{v} × {t}"), json!({"cases": c, "disagreements": d}));
        }
        serde_json::Value::Object(m)
    }
}

#[derive(Default)]
pub struct Counts {
    pub agree_accept: AtomicU64,
    pub agree_reject: AtomicU64,
}

// ---------------------------------------------------------------------------------------------
// numeric types

pub trait Exact: Copy + Send + Sync + 'static {
    const NAME: &'static str;
    const FLOAT: bool;
    const BITS: u32;
    fn real(self) -> Real;
    /// Lossless text form (integers in decimal, floats as bit patterns).
    fn show(self) -> String;
    fn unshow(s: &str) -> Option<Self>;
    /// Human-readable form.
    fn pretty(self) -> String;
    fn from_i128(v: i128) -> Option<Self>;
    fn from_f64(v: f64) -> Option<Self>;
}

macro_rules! exact_int {
    ($($t:ty),*) => {$(
        impl Exact for $t {
            const NAME: &'static str = stringify!($t);
            const FLOAT: bool = false;
            const BITS: u32 = <$t>::BITS;
            fn real(self) -> Real { real_int(i128::try_from(self).unwrap()) }
            fn show(self) -> String { self.to_string() }
            fn unshow(s: &str) -> Option<Self> { s.parse().ok() }
            fn pretty(self) -> String { self.to_string() }
            fn from_i128(v: i128) -> Option<Self> { <$t>::try_from(v).ok() }
            fn from_f64(_: f64) -> Option<Self> { None }
        }
    )*};
}
exact_int!(i8, i16, i32, i64, isize, u8, u16, u32, u64, usize, i128);

impl Exact for f64 {
    const NAME: &'static str = "f64";
    const FLOAT: bool = true;
    const BITS: u32 = 64;
    fn real(self) -> Real {
        real_f64(self)
    }
    fn show(self) -> String {
        format!("0x{:016x}", self.to_bits())
    }
    fn unshow(s: &str) -> Option<Self> {
        u64::from_str_radix(s.strip_prefix("0x")?, 16).ok().map(f64::from_bits)
    }
    fn pretty(self) -> String {
        format!("{self:?}")
    }
    fn from_i128(v: i128) -> Option<Self> {
        // exact only: the candidate (rounded by the compiler's int→float conversion) is kept when the
        // exact comparison says it denotes the same integer
        let c = v as f64;
        if real::eq(real_f64(c), real_int(v)) { Some(c) } else { None }
    }
    fn from_f64(v: f64) -> Option<Self> {
        Some(v)
    }
}
impl Exact for f32 {
    const NAME: &'static str = "f32";
    const FLOAT: bool = true;
    const BITS: u32 = 32;
    fn real(self) -> Real {
        real_f32(self)
    }
    fn show(self) -> String {
        format!("0x{:08x}", self.to_bits())
    }
    fn unshow(s: &str) -> Option<Self> {
        u32::from_str_radix(s.strip_prefix("0x")?, 16).ok().map(f32::from_bits)
    }
    fn pretty(self) -> String {
        format!("{self:?}")
    }
    fn from_i128(v: i128) -> Option<Self> {
        let c = v as f32;
        if real::eq(real_f32(c), real_int(v)) { Some(c) } else { None }
    }
    fn from_f64(v: f64) -> Option<Self> {
        let c = v as f32;
        if v.is_nan() {
            return Some(c);
        }
        if real::eq(real_f32(c), real_f64(v)) || (v.is_infinite() && c.is_infinite()) { Some(c) } else { None }
    }
}

#[derive(Clone, Copy, PartialEq, Eq, Debug)]
pub enum Kind {
    Maximum,
    Minimum,
    MultipleOf,
}
impl Kind {
    pub const ALL: [Kind; 3] = [Kind::Maximum, Kind::Minimum, Kind::MultipleOf];
    pub fn name(self) -> &'static str {
        match self {
            Kind::Maximum => "maximum",
            Kind::Minimum => "minimum",
            Kind::MultipleOf => "multiple_of",
        }
    }
    pub fn from_name(s: &str) -> Option<Kind> {
        Kind::ALL.into_iter().find(|k| k.name() == s)
    }
}

/// The predicate each validator states (docs/en/src/input_value_validators.md): "the number cannot be
/// greater than N" / "cannot be less than N" / "must be a multiple of N", on the real values.
pub fn numeric_predicate(kind: Kind, v: Real, n: Real) -> Option<bool> {
    match kind {
        Kind::Maximum => Some(matches!(real::cmp(v, n), Some(Ordering::Less | Ordering::Equal))),
        Kind::Minimum => Some(matches!(real::cmp(v, n), Some(Ordering::Greater | Ordering::Equal))),
        Kind::MultipleOf => real::is_multiple(v, n),
    }
}

pub trait BoundTy: Exact + PartialOrd + Display + Rem<Output = Self> + Zero + PartialEq {}
impl<N: Exact + PartialOrd + Display + Rem<Output = N> + Zero + PartialEq> BoundTy for N {}

pub enum Obs {
    Accepted,
    Rejected,
    Panicked(String),
}

pub fn call_numeric<T, N>(kind: Kind, v: T, n: N) -> Obs
where
    T: Exact + InputType + AsPrimitive<N>,
    N: BoundTy,
{
    let r = agv_engine::catch_quiet(|| match kind {
        Kind::Maximum => V::maximum(&v, n).is_ok(),
        Kind::Minimum => V::minimum(&v, n).is_ok(),
        Kind::MultipleOf => V::multiple_of(&v, n).is_ok(),
    });
    match r {
        Ok(true) => Obs::Accepted,
        Ok(false) => Obs::Rejected,
        Err(p) => Obs::Panicked(p),
    }
}

/// Judge one direct call. Returns 0 = agree on accept, 1 = agree on reject, 2 = disagreement.
fn judge_numeric<T, N>(cx: &Cx, kind: Kind, v: T, n: N) -> u8
where
    T: Exact + InputType + AsPrimitive<N>,
    N: BoundTy,
{
    let Some(pred) = numeric_predicate(kind, v.real(), n.real()) else { return 1 };
    let obs = call_numeric(kind, v, n);
    let case = || json!({"seam": "direct", "validator": kind.name(), "rust_type": T::NAME, "bound_type": N::NAME, "value": v.show(), "bound": n.show()});
    let base = |class: &str, detail: String| Violation::new(class, detail, case()).key("seam", "direct").key("validator", kind.name()).key("rust_type", T::NAME).key("bound_type", N::NAME);
    let call = || format!("{}::<{}, {}>(&{}, {})", kind.name(), T::NAME, N::NAME, v.pretty(), n.pretty());
    match obs {
        Obs::Accepted if pred => 0,
        Obs::Rejected if !pred => 1,
        Obs::Panicked(p) => {
            let trigger = if n.real().is_zero() {
                "zero-bound"
            } else if real::eq(n.real(), real_int(-1)) {
                "minus-one-bound"
            } else {
                "other"
            };
            crate::emit(cx, base("panic", format!("{} panicked ({p}); the predicate is {pred}, so the call should return {}", call(), if pred { "Ok" } else { "Err" })).key("trigger", trigger));
            2
        }
        obs => {
            let accepted = matches!(obs, Obs::Accepted);
            let conv: N = v.as_();
            let lossy = !real::eq(conv.real(), v.real()) && !(matches!(conv.real(), Real::Nan) && matches!(v.real(), Real::Nan));
            let class = if kind == Kind::MultipleOf && pred && !accepted && v.real().is_zero() {
                "multiple-of-rejects-zero"
            } else if lossy {
                match (T::FLOAT, N::FLOAT) {
                    (false, false) => "as-primitive-wraps",
                    (false, true) => "as-primitive-rounds",
                    (true, false) => "as-primitive-truncates",
                    (true, true) => "as-primitive-narrows",
                }
            } else if accepted {
                "accepts-violating-value"
            } else {
                "rejects-satisfying-value"
            };
            let detail = format!(
                "{} returned {} but the predicate on the exact values ({} vs bound {}) is {pred}{}",
                call(),
                if accepted { "Ok" } else { "Err" },
                v.real().show(),
                n.real().show(),
                if lossy { format!("; the value converts to {} as {}", conv.pretty(), N::NAME) } else { String::new() }
            );
            crate::emit(cx, base(class, detail));
            2
        }
    }
}

pub fn replay_numeric(case: &serde_json::Value) -> String {
    let (k, t, n) = (case["validator"].as_str().unwrap_or(""), case["rust_type"].as_str().unwrap_or(""), case["bound_type"].as_str().unwrap_or(""));
    let (vs, ns) = (case["value"].as_str().unwrap_or(""), case["bound"].as_str().unwrap_or(""));
    let Some(kind) = Kind::from_name(k) else { return format!("unknown validator {k}") };
    macro_rules! go {
        ($($T:ty => [$($N:ty),*]);* $(;)?) => {
            $($(
                if t == <$T as Exact>::NAME && n == <$N as Exact>::NAME {
                    let (Some(v), Some(b)) = (<$T as Exact>::unshow(vs), <$N as Exact>::unshow(ns)) else { return "cannot decode value/bound".into() };
                    let obs = match call_numeric::<$T, $N>(kind, v, b) { Obs::Accepted => "Ok".to_string(), Obs::Rejected => "Err".to_string(), Obs::Panicked(p) => format!("panic: {p}") };
                    return format!("{}::<{}, {}>(&{}, {}) = {obs}; predicate on exact values = {:?}", k, t, n, v.pretty(), b.pretty(), numeric_predicate(kind, v.real(), b.real()));
                }
            )*)*
        };
    }
    go! {
        i8 => [i8, i64, i128, f64]; u8 => [u8, i64, i128, f64]; i16 => [i16, i64, i128, f64]; u16 => [u16, i64, i128, f64];
        i32 => [i32, i64, i128, f64]; u32 => [u32, i64, i128, f64]; i64 => [i64, i128, f64]; u64 => [u64, i64, i128, f64];
        isize => [isize, i64, i128, f64]; usize => [usize, i64, i128, f64]; f32 => [f32, i64, i128, f64]; f64 => [i64, i128, f64];
    }
    format!("no replayer for {t} with bound type {n}")
}

// ---------------------------------------------------------------------------------------------
// menus

const INT_RANGES: &[(i128, i128)] = &[
    (i8::MIN as i128, i8::MAX as i128),
    (u8::MIN as i128, u8::MAX as i128),
    (i16::MIN as i128, i16::MAX as i128),
    (u16::MIN as i128, u16::MAX as i128),
    (i32::MIN as i128, i32::MAX as i128),
    (u32::MIN as i128, u32::MAX as i128),
    (i64::MIN as i128, i64::MAX as i128),
    (u64::MIN as i128, u64::MAX as i128),
];

/// Bounds menu: {type min, −1, 0, 1, 100, i64::MAX, type max} of every integer type, each with both neighbours,
/// plus small numbers and the float-precision edges 2^24, 2^53.
pub fn bounds_menu() -> Vec<i128> {
    let mut v: Vec<i128> = vec![-100, -10, -7, -3, -2, -1, 0, 1, 2, 3, 5, 7, 10, 99, 100, 101, 1000];
    for (lo, hi) in INT_RANGES {
        for d in -1..=1 {
            v.push(lo + d);
            v.push(hi + d);
        }
    }
    for k in [24u32, 53] {
        for d in -1..=1 {
            v.push((1i128 << k) + d);
            v.push(-(1i128 << k) + d);
        }
    }
    v.retain(|x| *x >= i64::MIN as i128 - 1 && *x <= u64::MAX as i128 + 1);
    v.sort();
    v.dedup();
    v
}

/// Dense integer menu: within ±d of 0 and of ±2^k (k ≤ 64) — contains every type bound and its neighbours.
pub fn dense_menu(d: i128) -> Vec<i128> {
    let mut v = Vec::new();
    for k in 0..=64u32 {
        let p = 1i128 << k;
        for x in -d..=d {
            v.push(p + x);
            v.push(-p + x);
        }
    }
    for x in -d..=d {
        v.push(x);
    }
    v.extend([10, 99, 100, 101, 1000, -100, 12345, 6148914691236517205, 6148914691236517206, 12297829382473034410]);
    v.sort();
    v.dedup();
    v
}

fn up64(x: f64) -> f64 {
    if x.is_nan() || x == f64::INFINITY {
        return x;
    }
    if x == 0.0 {
        return f64::from_bits(1);
    }
    let b = x.to_bits();
    f64::from_bits(if x > 0.0 { b + 1 } else { b - 1 })
}
fn down64(x: f64) -> f64 {
    -up64(-x)
}
fn up32(x: f32) -> f32 {
    if x.is_nan() || x == f32::INFINITY {
        return x;
    }
    if x == 0.0 {
        return f32::from_bits(1);
    }
    let b = x.to_bits();
    f32::from_bits(if x > 0.0 { b + 1 } else { b - 1 })
}
fn down32(x: f32) -> f32 {
    -up32(-x)
}

/// Float candidates (as f64; the f32 sweep keeps those exactly representable in f32): specials, every menu
/// integer with its float neighbours and halves, powers of two across the exponent range.
pub fn float_candidates(ints: &[i128], with_nonfinite: bool) -> Vec<f64> {
    let mut v: Vec<f64> = vec![
        0.0, -0.0, 5e-324, -5e-324, f64::MIN_POSITIVE, -f64::MIN_POSITIVE, f64::MAX, f64::MIN, f64::EPSILON,
        0.1, 0.2, 0.3, 0.5, -0.5, 0.9, -0.9, 1.5, -1.5, 2.5, 4.5, 9.5, 10.9, 1e300, -1e300, 1e-300,
        0.1f32 as f64, f32::MAX as f64, f32::MIN as f64, f32::MIN_POSITIVE as f64, f32::from_bits(1) as f64, f32::EPSILON as f64,
    ];
    if with_nonfinite {
        v.extend([f64::NAN, f64::INFINITY, f64::NEG_INFINITY, -f64::NAN]);
    }
    for b in ints {
        let x = *b as f64;
        v.extend([x, up64(x), down64(x), x + 0.5, x - 0.5, x + 0.25, up32(x as f32) as f64, down32(x as f32) as f64, x as f32 as f64]);
    }
    for k in [-1074, -1073, -1022, -149, -126, -24, -1, 0, 1, 23, 24, 31, 32, 52, 53, 54, 62, 63, 64, 65, 100, 127, 128, 1023] {
        let p = 2f64.powi(k);
        v.extend([p, -p, up64(p), down64(p), p * 1.5]);
    }
    v.retain(|x| with_nonfinite || x.is_finite());
    v.sort_by_key(|x| x.to_bits());
    v.dedup_by_key(|x| x.to_bits());
    v
}

fn ints_as<T: Exact>(m: &[i128]) -> Vec<T> {
    m.iter().filter_map(|x| T::from_i128(*x)).collect()
}
fn floats_as<T: Exact>(m: &[f64]) -> Vec<T> {
    let mut v: Vec<T> = m.iter().filter_map(|x| T::from_f64(*x)).collect();
    // dedup by lossless text (f32 narrows several candidates to one pattern only when exact, so this is a no-op
    // except for NaNs)
    let mut seen = std::collections::HashSet::new();
    v.retain(|x| seen.insert(x.show()));
    v
}

pub struct Menus {
    pub bounds: Vec<i128>,
    pub bounds16: Vec<i128>,
    pub small_all: Vec<i128>,
    pub dense: Vec<i128>,
    pub fvals: Vec<f64>,
    pub fbounds: Vec<f64>,
    pub fbounds_small: Vec<f64>,
    /// float bounds for the complete 16-bit sweeps: quick keeps the candidates within ±2^17 (where a 16-bit value can
    /// be at, below or above the bound in a non-trivial way) plus a few far-away magnitudes; thorough uses them all
    pub fbounds16: Vec<f64>,
}

pub fn menus(quick: bool) -> Menus {
    let bounds = bounds_menu();
    let bounds16 = if quick {
        bounds.clone()
    } else {
        let mut b = dense_menu(8);
        b.extend(bounds.iter().copied());
        b.sort();
        b.dedup();
        b
    };
    let small_all: Vec<i128> = {
        let mut v: Vec<i128> = (-300..=300).collect();
        v.extend(bounds.iter().copied());
        v.sort();
        v.dedup();
        v
    };
    let dense = dense_menu(if quick { 2 } else { 130 });
    let fvals = float_candidates(&bounds, true);
    let fbounds = float_candidates(&bounds, false);
    let fbounds_small = {
        let mut v = fbounds.clone();
        for k in -300..=300 {
            v.push(k as f64);
            v.push(k as f64 + 0.5);
        }
        v.sort_by_key(|x| x.to_bits());
        v.dedup_by_key(|x| x.to_bits());
        v
    };
    let fbounds16: Vec<f64> = if quick {
        let far = [1e300, -1e300, f64::MAX, f64::MIN, 9007199254740992.0, -9007199254740992.0, 9223372036854775808.0, -9223372036854775808.0, 18446744073709551616.0];
        fbounds.iter().copied().filter(|x| x.abs() <= 131072.0 || far.contains(x)).collect()
    } else {
        fbounds.clone()
    };
    Menus { bounds, bounds16, small_all, dense, fvals, fbounds, fbounds_small, fbounds16 }
}

fn sweep<T, N>(cx: &Cx, table: &Table, cnt: &Counts, values: &[T], bounds: &[N])
where
    T: Exact + InputType + AsPrimitive<N>,
    N: BoundTy,
{
    let (cases, dis) = values
        .par_iter()
        .with_min_len(16)
        .map(|v| {
            // c = cases, d = disagreements per kind; last slot of d: [agree-accept, agree-reject] in c[3], d[3]
            let mut c = [0u64; 4];
            let mut d = [0u64; 4];
            for n in bounds {
                for (i, k) in Kind::ALL.into_iter().enumerate() {
                    if numeric_predicate(k, v.real(), n.real()).is_none() {
                        continue;
                    }
                    c[i] += 1;
                    match judge_numeric(cx, k, *v, *n) {
                        0 => c[3] += 1,
                        1 => d[3] += 1,
                        _ => d[i] += 1,
                    }
                }
            }
            (c, d)
        })
        .reduce(|| ([0u64; 4], [0u64; 4]), |a, b| (std::array::from_fn(|i| a.0[i] + b.0[i]), std::array::from_fn(|i| a.1[i] + b.1[i])));
    cnt.agree_accept.fetch_add(cases[3], AO::Relaxed);
    cnt.agree_reject.fetch_add(dis[3], AO::Relaxed);
    for (i, k) in Kind::ALL.into_iter().enumerate() {
        table.add(k.name(), &format!("{} (bound as {})", T::NAME, N::NAME), cases[i], dis[i]);
        cx.evals(cases[i]);
    }
    if let (Some(v), Some(n)) = (values.first(), bounds.last()) {
        cx.sample(agv_engine::hstr(&format!("direct/{}/{}", T::NAME, N::NAME)), json!({"seam": "direct", "rust_type": T::NAME, "bound_type": N::NAME, "values": values.len(), "bounds": bounds.len(), "first_value": v.pretty(), "last_bound": n.pretty()}));
    }
}

fn int_type<T>(cx: &Cx, table: &Table, cnt: &Counts, m: &Menus, same_as_i64: bool)
where
    T: Exact + InputType + BoundTy + AsPrimitive<T> + AsPrimitive<i64> + AsPrimitive<i128> + AsPrimitive<f64>,
{
    let complete = T::BITS <= 16;
    let values: Vec<T> = if complete {
        // every value of the type
        let all: Vec<i128> = (-(1i128 << 16)..=(1i128 << 16)).collect();
        ints_as::<T>(&all)
    } else {
        ints_as::<T>(&m.dense)
    };
    let ib: &[i128] = if T::BITS == 8 { &m.small_all } else if T::BITS == 16 { &m.bounds16 } else { &m.bounds };
    let fb: &[f64] = if T::BITS == 8 { &m.fbounds_small } else if T::BITS == 16 { &m.fbounds16 } else { &m.fbounds };
    if !same_as_i64 {
        // bound of the value's own type: for the 8-bit types every bound of the type
        let own: Vec<T> = if T::BITS == 8 { values.clone() } else { ints_as::<T>(ib) };
        sweep::<T, T>(cx, table, cnt, &values, &own);
    }
    sweep::<T, i64>(cx, table, cnt, &values, &ints_as::<i64>(ib));
    sweep::<T, i128>(cx, table, cnt, &values, &ints_as::<i128>(ib));
    sweep::<T, f64>(cx, table, cnt, &values, fb);
}

fn float_type<T>(cx: &Cx, table: &Table, cnt: &Counts, m: &Menus, own: bool)
where
    T: Exact + InputType + BoundTy + AsPrimitive<T> + AsPrimitive<i64> + AsPrimitive<i128> + AsPrimitive<f64>,
{
    let values: Vec<T> = floats_as::<T>(&m.fvals);
    if own {
        sweep::<T, T>(cx, table, cnt, &values, &floats_as::<T>(&m.fbounds));
    }
    sweep::<T, i64>(cx, table, cnt, &values, &ints_as::<i64>(&m.bounds));
    sweep::<T, i128>(cx, table, cnt, &values, &ints_as::<i128>(&m.bounds));
    sweep::<T, f64>(cx, table, cnt, &values, &m.fbounds);
}

pub fn run_numeric(cx: &Cx, table: &Table, cnt: &Counts) {
    let m = menus(cx.quick());
    int_type::<i8>(cx, table, cnt, &m, false);
    int_type::<u8>(cx, table, cnt, &m, false);
    int_type::<i16>(cx, table, cnt, &m, false);
    int_type::<u16>(cx, table, cnt, &m, false);
    int_type::<i32>(cx, table, cnt, &m, false);
    int_type::<u32>(cx, table, cnt, &m, false);
    int_type::<i64>(cx, table, cnt, &m, true);
    int_type::<u64>(cx, table, cnt, &m, false);
    int_type::<isize>(cx, table, cnt, &m, false);
    int_type::<usize>(cx, table, cnt, &m, false);
    float_type::<f32>(cx, table, cnt, &m, true);
    float_type::<f64>(cx, table, cnt, &m, false);
    cx.extra(
        "direct_numeric_menus",
        json!({"bounds_menu": m.bounds.len(), "bounds_for_16bit_types": m.bounds16.len(), "bounds_for_8bit_types_int": m.small_all.len(), "dense_values_menu": m.dense.len(), "float_values": m.fvals.len(), "float_bounds": m.fbounds.len(), "float_bounds_for_8bit_types": m.fbounds_small.len(), "float_bounds_for_16bit_types": m.fbounds16.len()}),
    );
}

// ---------------------------------------------------------------------------------------------
// strings

/// Byte length of the UTF-8 encoding, computed from the code points (not with `str::len`).
pub fn utf8_len(s: &str) -> u128 {
    s.chars()
        .map(|c| match c as u32 {
            0..=0x7f => 1u128,
            0x80..=0x7ff => 2,
            0x800..=0xffff => 3,
            _ => 4,
        })
        .sum()
}
/// Number of Unicode scalar values, computed from the bytes (not with `chars().count()`).
pub fn char_count(s: &str) -> u128 {
    s.as_bytes().iter().filter(|b| (**b & 0xC0) != 0x80).count() as u128
}

#[derive(Clone, Copy, PartialEq, Eq, Debug)]
pub enum LenKind {
    MaxLength,
    MinLength,
    CharsMaxLength,
    CharsMinLength,
}
impl LenKind {
    pub const ALL: [LenKind; 4] = [LenKind::MaxLength, LenKind::MinLength, LenKind::CharsMaxLength, LenKind::CharsMinLength];
    pub fn name(self) -> &'static str {
        match self {
            LenKind::MaxLength => "max_length",
            LenKind::MinLength => "min_length",
            LenKind::CharsMaxLength => "chars_max_length",
            LenKind::CharsMinLength => "chars_min_length",
        }
    }
    /// docs: max_length/min_length = "the length of the string" (Rust string length: UTF-8 bytes; the chars_*
    /// validators exist for "the count of the unicode chars").
    pub fn holds(self, s: &str, n: u128) -> bool {
        match self {
            LenKind::MaxLength => utf8_len(s) <= n,
            LenKind::MinLength => utf8_len(s) >= n,
            LenKind::CharsMaxLength => char_count(s) <= n,
            LenKind::CharsMinLength => char_count(s) >= n,
        }
    }
}

/// Regexes with a hand-written matcher each (the oracle never runs a regex engine).
pub const REGEXES: &[&str] = &["^[0-9]+$", "^a*$", "b", "^.$", "^(ab|cd)+$", "é$", "^[a-b0]{2,3}$"];
pub fn regex_oracle(re: &str, s: &str) -> Option<bool> {
    let cs: Vec<char> = s.chars().collect();
    Some(match re {
        "^[0-9]+$" => !cs.is_empty() && cs.iter().all(|c| ('0'..='9').contains(c)),
        "^a*$" => cs.iter().all(|c| *c == 'a'),
        "b" => cs.contains(&'b'),
        "^.$" => cs.len() == 1 && cs[0] != '\n',
        "^(ab|cd)+$" => !cs.is_empty() && cs.len() % 2 == 0 && cs.chunks(2).all(|p| p == ['a', 'b'] || p == ['c', 'd']),
        "é$" => cs.last() == Some(&'é'),
        "^[a-b0]{2,3}$" => (2..=3).contains(&cs.len()) && cs.iter().all(|c| matches!(c, 'a' | 'b' | '0')),
        _ => return None,
    })
}

pub const ALPHABET: &[&str] = &["a", "b", "0", "é", "😀", "\u{301}", "\n", "c", "d"];

/// Every string of ≤ n symbols over the first `k` alphabet symbols.
pub fn strings_upto(n: usize, k: usize) -> Vec<String> {
    let mut all = vec![String::new()];
    let mut layer = vec![String::new()];
    for _ in 0..n {
        let mut next = Vec::new();
        for s in &layer {
            for a in &ALPHABET[..k] {
                next.push(format!("{s}{a}"));
            }
        }
        all.extend(next.iter().cloned());
        layer = next;
    }
    all
}

pub fn long_strings() -> Vec<String> {
    let mut v = Vec::new();
    for (unit, reps) in [("a", vec![99usize, 100, 101, 255, 256, 257]), ("é", vec![49, 50, 51, 99, 100, 101]), ("😀", vec![24, 25, 26, 99, 100, 101]), ("e\u{301}", vec![33, 34, 50])] {
        for r in reps {
            v.push(unit.repeat(r));
        }
    }
    v.push(format!("{}é", "a".repeat(99)));
    v.push(format!("é{}", "a".repeat(98)));
    v
}

pub fn len_bounds() -> Vec<usize> {
    let mut v: Vec<usize> = (0..=14).collect();
    v.extend([24, 25, 26, 33, 34, 49, 50, 51, 66, 67, 68, 96, 98, 99, 100, 101, 102, 103, 150, 198, 199, 200, 201, 202, 255, 256, 257, 300, 396, 400, 404, 1000, i32::MAX as usize, u32::MAX as usize, i64::MAX as usize, i64::MAX as usize + 1, usize::MAX - 1, usize::MAX]);
    v
}

fn viol_str(cx: &Cx, validator: &str, ty: &str, accepted: bool, pred: bool, s: &str, bound: serde_json::Value, panic: Option<String>) {
    let class = if panic.is_some() { "panic" } else if accepted { "accepts-violating-value" } else { "rejects-satisfying-value" };
    let detail = match &panic {
        Some(p) => format!("{validator}::<{ty}>(&{s:?}, {bound}) panicked: {p}"),
        None => format!(
            "{validator}::<{ty}>(&{s:?}, {bound}) returned {} but the predicate is {pred} (the string has {} UTF-8 bytes and {} chars)",
            if accepted { "Ok" } else { "Err" },
            utf8_len(s),
            char_count(s)
        ),
    };
    crate::emit(cx, 
        Violation::new(class, detail, json!({"seam": "direct", "validator": validator, "rust_type": ty, "value": s, "bound": bound}))
            .key("seam", "direct")
            .key("validator", validator)
            .key("rust_type", ty)
            .key("measure", if utf8_len(s) == char_count(s) { "bytes=chars" } else { "bytes≠chars" }),
    );
}

pub fn call_len<S: AsRef<str> + InputType>(k: LenKind, s: &S, n: usize) -> Result<bool, String> {
    agv_engine::catch_quiet(|| match k {
        LenKind::MaxLength => V::max_length(s, n).is_ok(),
        LenKind::MinLength => V::min_length(s, n).is_ok(),
        LenKind::CharsMaxLength => V::chars_max_length(s, n).is_ok(),
        LenKind::CharsMinLength => V::chars_min_length(s, n).is_ok(),
    })
}

fn string_type<S: AsRef<str> + InputType + From<String>>(cx: &Cx, table: &Table, cnt: &Counts, ty: &str, strings: &[String], bounds: &[usize], regex_strings: &[String]) {
    let res: Vec<([u64; 5], [u64; 5])> = strings
        .par_iter()
        .with_min_len(8)
        .map(|s| {
            let mut c = [0u64; 5];
            let mut d = [0u64; 5];
            let sv: S = S::from(s.clone());
            for n in bounds {
                for (i, k) in LenKind::ALL.into_iter().enumerate() {
                    c[i] += 1;
                    let pred = k.holds(s, *n as u128);
                    match call_len(k, &sv, *n) {
                        Ok(a) if a == pred => {
                            if a { cnt.agree_accept.fetch_add(1, AO::Relaxed) } else { cnt.agree_reject.fetch_add(1, AO::Relaxed) };
                        }
                        Ok(a) => {
                            d[i] += 1;
                            viol_str(cx, k.name(), ty, a, pred, s, json!(n), None);
                        }
                        Err(p) => {
                            d[i] += 1;
                            viol_str(cx, k.name(), ty, false, pred, s, json!(n), Some(p));
                        }
                    }
                }
            }
            (c, d)
        })
        .collect();
    let mut c = [0u64; 5];
    let mut d = [0u64; 5];
    for (a, b) in res {
        for i in 0..5 {
            c[i] += a[i];
            d[i] += b[i];
        }
    }
    let rr: Vec<(u64, u64)> = regex_strings
        .par_iter()
        .with_min_len(8)
        .map(|s| {
            let sv: S = S::from(s.clone());
            let (mut c, mut d) = (0, 0);
            for re in REGEXES {
                c += 1;
                let pred = regex_oracle(re, s).unwrap();
                match agv_engine::catch_quiet(|| V::regex(&sv, re).is_ok()) {
                    Ok(a) if a == pred => {
                        if a { cnt.agree_accept.fetch_add(1, AO::Relaxed) } else { cnt.agree_reject.fetch_add(1, AO::Relaxed) };
                    }
                    Ok(a) => {
                        d += 1;
                        viol_str(cx, "regex", ty, a, pred, s, json!(re), None);
                    }
                    Err(p) => {
                        d += 1;
                        viol_str(cx, "regex", ty, false, pred, s, json!(re), Some(p));
                    }
                }
            }
            (c, d)
        })
        .collect();
    for (a, b) in rr {
        c[4] += a;
        d[4] += b;
    }
    for (i, k) in LenKind::ALL.into_iter().enumerate() {
        table.add(k.name(), ty, c[i], d[i]);
        cx.evals(c[i]);
    }
    table.add("regex", ty, c[4], d[4]);
    cx.evals(c[4]);
}

pub fn run_strings(cx: &Cx, table: &Table, cnt: &Counts) {
    let n = if cx.quick() { 3 } else { 4 };
    let mut strings = strings_upto(n, 7);
    strings.extend(long_strings());
    let regex_strings = strings_upto(if cx.quick() { 3 } else { 4 }, 9);
    let bounds = len_bounds();
    string_type::<String>(cx, table, cnt, "String", &strings, &bounds, &regex_strings);
    string_type::<Box<str>>(cx, table, cnt, "Box<str>", &strings, &bounds, &regex_strings);
    string_type::<Arc<str>>(cx, table, cnt, "Arc<str>", &strings, &bounds, &regex_strings);
    string_type::<ID>(cx, table, cnt, "ID", &strings, &bounds, &regex_strings);
    cx.extra("direct_strings", json!({"length_strings": strings.len(), "max_symbols": n, "alphabet": &ALPHABET[..7], "length_bounds": bounds.len(), "regex_strings": regex_strings.len(), "regex_alphabet": ALPHABET, "regexes": REGEXES}));
}

// ---------------------------------------------------------------------------------------------
// lists

fn list_type<L, E>(cx: &Cx, table: &Table, cnt: &Counts, ty: &str, mk: &(dyn Fn(usize) -> L + Sync), lens: &[usize], bounds: &[usize])
where
    L: std::ops::Deref<Target = [E]> + InputType,
{
    let (mut c, mut d) = ([0u64; 2], [0u64; 2]);
    for len in lens {
        let l = mk(*len);
        for n in bounds {
            for (i, name) in ["max_items", "min_items"].into_iter().enumerate() {
                c[i] += 1;
                let pred = if i == 0 { (*len as u128) <= *n as u128 } else { (*len as u128) >= *n as u128 };
                let r = agv_engine::catch_quiet(|| if i == 0 { V::max_items(&l, *n).is_ok() } else { V::min_items(&l, *n).is_ok() });
                match r {
                    Ok(a) if a == pred => {
                        if a { cnt.agree_accept.fetch_add(1, AO::Relaxed) } else { cnt.agree_reject.fetch_add(1, AO::Relaxed) };
                    }
                    other => {
                        d[i] += 1;
                        let (class, what) = match &other {
                            Err(p) => ("panic", format!("panicked: {p}")),
                            Ok(true) => ("accepts-violating-value", "returned Ok".to_string()),
                            Ok(false) => ("rejects-satisfying-value", "returned Err".to_string()),
                        };
                        crate::emit(cx, 
                            Violation::new(class, format!("{name}::<{ty}>(list of {len} items, {n}) {what}; predicate is {pred}"), json!({"seam": "direct", "validator": name, "rust_type": ty, "items": len, "bound": n}))
                                .key("seam", "direct")
                                .key("validator", name)
                                .key("rust_type", ty),
                        );
                    }
                }
            }
        }
    }
    table.add("max_items", ty, c[0], d[0]);
    table.add("min_items", ty, c[1], d[1]);
    cx.evals(c[0] + c[1]);
}

pub fn run_lists(cx: &Cx, table: &Table, cnt: &Counts) {
    let mut lens: Vec<usize> = (0..=16).collect();
    lens.extend([99, 100, 101, 255, 256, 257, 1000]);
    let bounds = len_bounds();
    list_type::<Vec<i32>, i32>(cx, table, cnt, "Vec<i32>", &|n| vec![7i32; n], &lens, &bounds);
    list_type::<Vec<String>, String>(cx, table, cnt, "Vec<String>", &|n| vec!["é".to_string(); n], &lens, &bounds);
    list_type::<Vec<Option<u64>>, Option<u64>>(cx, table, cnt, "Vec<Option<u64>>", &|n| vec![None; n], &lens, &bounds);
    list_type::<Vec<Vec<i32>>, Vec<i32>>(cx, table, cnt, "Vec<Vec<i32>>", &|n| vec![vec![1, 2, 3]; n], &lens, &bounds);
    list_type::<Box<[i32]>, i32>(cx, table, cnt, "Box<[i32]>", &|n| vec![7i32; n].into_boxed_slice(), &lens, &bounds);
    list_type::<Arc<[i32]>, i32>(cx, table, cnt, "Arc<[i32]>", &|n| Arc::from(vec![7i32; n]), &lens, &bounds);
    cx.extra("direct_lists", json!({"lengths": lens, "bounds": bounds.len()}));
}

pub fn replay_other(case: &serde_json::Value) -> String {
    let k = case["validator"].as_str().unwrap_or("");
    if let Some(items) = case["items"].as_u64() {
        let l = vec![7i32; items as usize];
        let n = case["bound"].as_u64().unwrap_or(0) as usize;
        let r = if k == "max_items" { V::max_items(&l, n).is_ok() } else { V::min_items(&l, n).is_ok() };
        return format!("{k}(list of {items} items, {n}) = {}", if r { "Ok" } else { "Err" });
    }
    let s = case["value"].as_str().unwrap_or("").to_string();
    if k == "regex" {
        let re = case["bound"].as_str().unwrap_or("");
        let Some(re_static) = REGEXES.iter().find(|r| **r == re) else { return "unknown regex".into() };
        return format!("regex(&{s:?}, {re:?}) = {}; hand-written matcher = {:?}", if V::regex(&s, *re_static).is_ok() { "Ok" } else { "Err" }, regex_oracle(re, &s));
    }
    let n = case["bound"].as_u64().unwrap_or(0) as usize;
    match LenKind::ALL.into_iter().find(|x| x.name() == k) {
        Some(lk) => format!("{k}(&{s:?}, {n}) = {:?}; predicate = {} ({} bytes, {} chars)", call_len(lk, &s, n), lk.holds(&s, n as u128), utf8_len(&s), char_count(&s)),
        None => format!("unknown validator {k}"),
    }
}
