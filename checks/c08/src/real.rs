//! Exact arithmetic on the real values denoted by Rust's primitive numbers.
//!
//! Every finite i8…u64/i128/f32/f64 value is ±m·2^e with an integer mantissa, so order and
//! divisibility ("v = k·n for an integer k") are decidable with integer arithmetic only. Nothing
//! here uses `as` conversions between integer and float types, float comparison or `%` on floats.

use std::cmp::Ordering;

#[derive(Clone, Copy, Debug)]
pub enum Real {
    Nan,
    Inf { neg: bool },
    /// value = (−1)^neg · m · 2^e ; zero is m == 0 with neg == false.
    Fin { neg: bool, m: u128, e: i32 },
}

pub fn real_int(v: i128) -> Real {
    Real::Fin { neg: v < 0, m: v.unsigned_abs(), e: 0 }
}

pub fn real_f64(x: f64) -> Real {
    let bits = x.to_bits();
    let neg = bits >> 63 != 0;
    let exp = ((bits >> 52) & 0x7ff) as i32;
    let frac = bits & ((1u64 << 52) - 1);
    if exp == 0x7ff {
        return if frac != 0 { Real::Nan } else { Real::Inf { neg } };
    }
    let (m, e) = if exp == 0 { (frac, -1074) } else { (frac | (1u64 << 52), exp - 1075) };
    if m == 0 {
        Real::Fin { neg: false, m: 0, e: 0 }
    } else {
        Real::Fin { neg, m: m as u128, e }
    }
}

pub fn real_f32(x: f32) -> Real {
    let bits = x.to_bits();
    let neg = bits >> 31 != 0;
    let exp = ((bits >> 23) & 0xff) as i32;
    let frac = bits & ((1u32 << 23) - 1);
    if exp == 0xff {
        return if frac != 0 { Real::Nan } else { Real::Inf { neg } };
    }
    let (m, e) = if exp == 0 { (frac, -149) } else { (frac | (1u32 << 23), exp - 150) };
    if m == 0 {
        Real::Fin { neg: false, m: 0, e: 0 }
    } else {
        Real::Fin { neg, m: m as u128, e }
    }
}

impl Real {
    pub fn is_zero(self) -> bool {
        matches!(self, Real::Fin { m: 0, .. })
    }
    /// The integer this real equals, if it is one of magnitude < 2^126.
    pub fn as_integer(self) -> Option<i128> {
        match self {
            Real::Fin { m: 0, .. } => Some(0),
            Real::Fin { neg, m, e } => {
                let tz = m.trailing_zeros() as i32;
                if e + tz < 0 {
                    return None;
                }
                let bitlen = 128 - m.leading_zeros() as i32;
                if bitlen + e > 126 {
                    return None;
                }
                let mag = if e >= 0 { m << e } else { m >> (-e) };
                Some(if neg { -(mag as i128) } else { mag as i128 })
            }
            _ => None,
        }
    }
    /// floor(self) as an integer when |self| < 2^126 (used only to derive test values, never by an oracle).
    pub fn floor_i128(self) -> Option<i128> {
        match self {
            Real::Fin { m: 0, .. } => Some(0),
            Real::Fin { neg, m, e } => {
                let bitlen = 128 - m.leading_zeros() as i32;
                if bitlen + e > 126 {
                    return None;
                }
                if e >= 0 {
                    let mag = (m << e) as i128;
                    Some(if neg { -mag } else { mag })
                } else if -e >= 128 {
                    Some(if neg { -1 } else { 0 })
                } else {
                    let q = (m >> (-e)) as i128;
                    let exact = (q as u128) << (-e) == m;
                    Some(if neg { if exact { -q } else { -q - 1 } } else { q })
                }
            }
            _ => None,
        }
    }
    pub fn show(self) -> String {
        match self {
            Real::Nan => "NaN".into(),
            Real::Inf { neg } => if neg { "-inf".into() } else { "+inf".into() },
            Real::Fin { neg, m, e } => match self.as_integer() {
                Some(i) => i.to_string(),
                None => format!("{}{}*2^{}", if neg { "-" } else { "" }, m, e),
            },
        }
    }
}

fn sign(r: Real) -> i32 {
    match r {
        Real::Fin { m: 0, .. } => 0,
        Real::Fin { neg, .. } => if neg { -1 } else { 1 },
        _ => unreachable!(),
    }
}

fn cmp_mag(ma: u128, ea: i32, mb: u128, eb: i32) -> Ordering {
    // both mantissas non-zero and < 2^100 (ours are ≤ 2^64)
    let la = 128 - ma.leading_zeros() as i32;
    let lb = 128 - mb.leading_zeros() as i32;
    let ta = la + ea;
    let tb = lb + eb;
    if ta != tb {
        return ta.cmp(&tb);
    }
    // equal top bit position: aligning to the smaller exponent keeps both below max(la, lb) bits
    if ea >= eb {
        (ma << (ea - eb)).cmp(&mb)
    } else {
        ma.cmp(&(mb << (eb - ea)))
    }
}

/// Order of the real values; `None` when either is NaN.
pub fn cmp(a: Real, b: Real) -> Option<Ordering> {
    use Ordering::*;
    match (a, b) {
        (Real::Nan, _) | (_, Real::Nan) => None,
        (Real::Inf { neg: x }, Real::Inf { neg: y }) => Some(y.cmp(&x)),
        (Real::Inf { neg }, _) => Some(if neg { Less } else { Greater }),
        (_, Real::Inf { neg }) => Some(if neg { Greater } else { Less }),
        (Real::Fin { m: ma, e: ea, .. }, Real::Fin { m: mb, e: eb, .. }) => {
            let (sa, sb) = (sign(a), sign(b));
            if sa != sb {
                return Some(sa.cmp(&sb));
            }
            if sa == 0 {
                return Some(Equal);
            }
            let c = cmp_mag(ma, ea, mb, eb);
            Some(if sa < 0 { c.reverse() } else { c })
        }
    }
}

pub fn eq(a: Real, b: Real) -> bool {
    cmp(a, b) == Some(Ordering::Equal)
}

/// "v is a multiple of n": there is an integer k with v = k·n.
/// `None` when n is not finite (the statement is then meaningless; such bounds are not enumerated).
pub fn is_multiple(v: Real, n: Real) -> Option<bool> {
    match (v, n) {
        (_, Real::Nan) | (_, Real::Inf { .. }) => None,
        (Real::Nan, _) | (Real::Inf { .. }, _) => Some(false),
        (Real::Fin { m: mv, e: ev, .. }, Real::Fin { m: mn, e: en, .. }) => {
            if mv == 0 {
                return Some(true); // 0 = 0·n
            }
            if mn == 0 {
                return Some(false); // k·0 = 0 ≠ v
            }
            let tv = mv.trailing_zeros() as i32;
            let tn = mn.trailing_zeros() as i32;
            let ov = mv >> tv;
            let on = mn >> tn;
            // v/n = (ov/on)·2^((tv+ev)−(tn+en)), ov and on odd
            Some(ov % on == 0 && (tv + ev) - (tn + en) >= 0)
        }
    }
}

/// Self-test of the oracle arithmetic against independently known facts. Returns the first failure.
pub fn self_test() -> Result<(), String> {
    use Ordering::*;
    let t = |c: bool, what: &str| if c { Ok(()) } else { Err(format!("real::self_test: {what}")) };
    t(cmp(real_int(u64::MAX as i128), real_int(100)) == Some(Greater), "u64::MAX > 100")?;
    t(cmp(real_int(-1), real_int(u64::MAX as i128)) == Some(Less), "-1 < u64::MAX")?;
    t(cmp(real_f64(10.5), real_int(10)) == Some(Greater), "10.5 > 10")?;
    t(cmp(real_f64(-0.5), real_int(0)) == Some(Less), "-0.5 < 0")?;
    t(cmp(real_f64(-0.0), real_f64(0.0)) == Some(Equal), "-0 == 0")?;
    t(cmp(real_f64(9007199254740992.0), real_int(9007199254740993)) == Some(Less), "2^53 < 2^53+1")?;
    t(cmp(real_f64(18446744073709551616.0), real_int(u64::MAX as i128)) == Some(Greater), "2^64 > u64::MAX")?;
    t(cmp(real_f64(9223372036854775808.0), real_int(i64::MAX as i128)) == Some(Greater), "2^63 > i64::MAX")?;
    t(cmp(real_f64(5e-324), real_int(0)) == Some(Greater), "min subnormal > 0")?;
    t(cmp(real_f64(f64::MAX), real_int(u64::MAX as i128)) == Some(Greater), "f64::MAX > u64::MAX")?;
    t(cmp(real_f64(f64::NAN), real_int(0)).is_none(), "NaN unordered")?;
    t(cmp(real_f64(f64::NEG_INFINITY), real_int(i64::MIN as i128)) == Some(Less), "-inf < i64::MIN")?;
    t(cmp(real_f32(0.1f32), real_f64(0.1)) == Some(Greater), "0.1f32 > 0.1f64")?;
    t(cmp(real_f32(16777216.0f32), real_int(16777216)) == Some(Equal), "2^24 f32")?;
    t(cmp(real_f64(0.5), real_f64(0.25)) == Some(Greater), "0.5 > 0.25")?;
    t(cmp(real_f64(-3.0), real_f64(-2.5)) == Some(Less), "-3 < -2.5")?;
    t(is_multiple(real_int(6), real_int(3)) == Some(true), "6 | 3")?;
    t(is_multiple(real_int(5), real_int(3)) == Some(false), "5 ∤ 3")?;
    t(is_multiple(real_int(0), real_int(3)) == Some(true), "0 | 3")?;
    t(is_multiple(real_int(-6), real_int(3)) == Some(true), "-6 | 3")?;
    t(is_multiple(real_int(6), real_int(-3)) == Some(true), "6 | -3")?;
    t(is_multiple(real_int(5), real_int(0)) == Some(false), "5 ∤ 0")?;
    t(is_multiple(real_int(0), real_int(0)) == Some(true), "0 | 0")?;
    t(is_multiple(real_int(u64::MAX as i128), real_int(3)) == Some(true), "u64::MAX = 3·6148914691236517205")?;
    t(is_multiple(real_int(u64::MAX as i128), real_int(2)) == Some(false), "u64::MAX odd")?;
    t(is_multiple(real_f64(4.5), real_int(2)) == Some(false), "4.5 ∤ 2")?;
    t(is_multiple(real_f64(4.5), real_f64(1.5)) == Some(true), "4.5 = 3·1.5")?;
    t(is_multiple(real_f64(0.2), real_f64(0.1)) == Some(true), "double(0.2) = 2·double(0.1)")?;
    t(is_multiple(real_f64(0.3), real_f64(0.1)) == Some(false), "double(0.3) ≠ 3·double(0.1)")?;
    t(is_multiple(real_f64(1.0), real_f64(0.25)) == Some(true), "1 = 4·0.25")?;
    t(is_multiple(real_f64(0.25), real_f64(1.0)) == Some(false), "0.25 ∤ 1")?;
    t(is_multiple(real_f64(1e300), real_f64(5e-324)) == Some(true), "everything is a multiple of the smallest subnormal")?;
    t(is_multiple(real_f64(f64::INFINITY), real_int(2)) == Some(false), "inf")?;
    t(is_multiple(real_int(4), real_f64(f64::NAN)).is_none(), "nan bound")?;
    t(real_f64(-7.0).as_integer() == Some(-7), "as_integer")?;
    t(real_f64(7.5).as_integer().is_none(), "as_integer frac")?;
    t(real_f64(-7.5).floor_i128() == Some(-8), "floor -7.5")?;
    t(real_f64(7.5).floor_i128() == Some(7), "floor 7.5")?;
    t(real_f64(-8.0).floor_i128() == Some(-8), "floor -8")?;
    Ok(())
}
