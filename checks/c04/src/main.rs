//! C04 — merged fields resolve once; mutation root fields run one at a time, in order.
//!
//! Part a (inputs): every valid document ≤ N nodes over S1 in which response keys
//! repeat (literal repeats, alias collisions, repeats through inline and named
//! fragments, at root and nested; queries and mutations). Oracle on the resolver
//! log: at most one `S:<response path>` per path; data equals the reference's merge.
//! Part b (schedules): mutation documents with 2–3 root fields whose resolvers (root
//! and nested) await gates; EVERY order of gate openings. Invariant on every
//! execution: all log entries of root field i precede all entries of root field i+1.

use agv_common::casecheck::{Target, run_static2, CaseOutcome};
use agv_common::gen::GenCfg;
use agv_common::glue::{obs_of, MenuCfg};
use agv_common::s1::{self, Wd};
use agv_engine::explore::{explore, Chooser, Class, ExploreCfg};
use agv_engine::record::{Cx, Violation};
use agv_engine::sched::{self, End, Handle, Policy, RunCfg};
use agv_refgql::ast::OpKind;
use agv_refgql::schema::Schema;
use async_graphql::Request;
use serde_json::{json, Value as J};
use std::collections::BTreeMap;
use std::sync::atomic::{AtomicU64, Ordering};
use std::sync::Arc;

const Q_FIELDS: &[(&str, &[&str])] = &[("Query", &["a", "n", "o", "i", "l"]), ("A", &["a", "n", "o"]), ("B", &["a", "n"]), ("I", &["a", "n"])];
const M_FIELDS: &[(&str, &[&str])] = &[("Mutation", &["inc", "m", "mn"]), ("A", &["a", "n"])];

fn starts(log: &[String]) -> BTreeMap<String, usize> {
    let mut m = BTreeMap::new();
    for l in log {
        if let Some(p) = l.strip_prefix("S:") {
            *m.entry(p.to_string()).or_insert(0) += 1;
        }
    }
    m
}

fn part_a(cx: &Cx, refs: &Schema, schema: &s1::S1, gcfg: &GenCfg, flavour: &str, deco: u32, repeated: &AtomicU64, agree: &AtomicU64) {
    let menu = MenuCfg { errors: false, non_finite: false, wrong_kind: false, rich: false };
    let st = explore(
        &ExploreCfg { bounds: [deco, 0, 0, 0], ..Default::default() },
        &|ch: &mut Chooser| match run_static2(refs, &Target::Static(schema), gcfg, ch, menu, Class::Dev(1), None, None) {
            CaseOutcome::Ran(c) => Some(c),
            CaseOutcome::Machinery(m) => {
                cx.machinery_error(m);
                None
            }
            CaseOutcome::Panic { msg, case } => {
                cx.violation(Violation::new("panic", msg, case).key("flavour", flavour));
                None
            }
            _ => None,
        },
        &|_, c| {
            let Some(c) = c else { return };
            cx.eval();
            let st = starts(&c.log);
            let ref_paths: Vec<String> = c.reference.invocations.iter().map(|i| agv_refgql::exec::path_str(&i.path)).collect();
            // does any response path get contributions from several field nodes? (that is what "repeated key" means)
            let has_repeat = {
                fn keys(sel: &[agv_refgql::ast::Selection], doc: &agv_refgql::ast::ExecDoc, out: &mut Vec<String>, depth: usize) -> bool {
                    let mut local: Vec<String> = Vec::new();
                    fn flat<'a>(sel: &'a [agv_refgql::ast::Selection], doc: &'a agv_refgql::ast::ExecDoc, local: &mut Vec<&'a agv_refgql::ast::Field>, d: usize) {
                        if d > 8 {
                            return;
                        }
                        for s in sel {
                            match s {
                                agv_refgql::ast::Selection::Field(f) => local.push(f),
                                agv_refgql::ast::Selection::Inline(i) => flat(&i.sel, doc, local, d + 1),
                                agv_refgql::ast::Selection::Spread(sp) => {
                                    if let Some(fr) = doc.frag(&sp.name.s) {
                                        flat(&fr.sel, doc, local, d + 1)
                                    }
                                }
                            }
                        }
                    }
                    let mut fs = Vec::new();
                    flat(sel, doc, &mut fs, 0);
                    let mut rep = false;
                    for f in &fs {
                        if local.contains(&f.key().to_string()) {
                            rep = true;
                        }
                        local.push(f.key().to_string());
                    }
                    for f in &fs {
                        if !f.sel.is_empty() && depth < 6 && keys(&f.sel, doc, out, depth + 1) {
                            rep = true;
                        }
                    }
                    out.extend(local);
                    rep
                }
                let mut out = Vec::new();
                c.doc.ops().next().map(|o| keys(&o.sel, &c.doc, &mut out, 0)).unwrap_or(false)
            };
            if !has_repeat {
                return;
            }
            repeated.fetch_add(1, Ordering::Relaxed);
            cx.nontrivial(c.case_hash());
            let dup: Vec<(&String, &usize)> = st.iter().filter(|(_, n)| **n > 1).collect();
            let exp = c.expected_data_text();
            if !dup.is_empty() {
                cx.violation(
                    Violation::new(
                        "merged-key-resolved-n-times",
                        format!("resolver started more than once for one response path: {:?}\n document {}\n reference resolves each of {:?} once", dup, c.text, ref_paths),
                        c.case_json(),
                    )
                    .key("flavour", flavour),
                );
            }
            if c.obs.data != exp {
                cx.violation(Violation::new("merged-data-differs", format!("expected {exp} got {} for {}", c.obs.data, c.text), c.case_json()).key("flavour", flavour));
            } else if dup.is_empty() {
                agree.fetch_add(1, Ordering::Relaxed);
            }
            cx.sample_with(c.case_hash(), || json!({"part": "a", "flavour": flavour, "query": c.text, "resolver_starts": st, "data": c.obs.data}));
        },
    );
    if let Some(d) = st.diverged {
        cx.machinery_error(d);
    }
    cx.extra(&format!("part_a_choice_sequences_{flavour}"), json!(st.executions));
}

const MUT_DOCS: &[&str] = &[
    "mutation { inc mn }",
    "mutation { mn m { a n } inc }",
    "mutation { m { a n } x: m { n a } }",
    "mutation { inc m { a } mn }",
    "mutation { a1: inc a2: inc a3: inc }",
    "mutation { minn m { a n } mn }",
    "mutation { mn minn x: m { n a } inc }",
];

fn part_b(cx: &Cx, schema: &s1::S1) {
    let sched_count = AtomicU64::new(0);
    let st = explore(
        &ExploreCfg::default(),
        &|ch: &mut Chooser| {
            let di = ch.any("doc", MUT_DOCS.len());
            let text = MUT_DOCS[di];
            // one failing resolver (or none): every root key and every nested field of the document
            let doc0 = agv_refgql::parse::parse_exec(text).unwrap();
            let mut sites: Vec<String> = Vec::new();
            for s in &doc0.ops().next().unwrap().sel {
                if let agv_refgql::ast::Selection::Field(f) = s {
                    sites.push(f.key().to_string());
                    for c in &f.sel {
                        if let agv_refgql::ast::Selection::Field(cf) = c {
                            sites.push(format!("{}.{}", f.key(), cf.key()));
                        }
                    }
                }
            }
            let fk = ch.any("fault", sites.len() + 1);
            let mut table = BTreeMap::new();
            if fk > 0 {
                table.insert(sites[fk - 1].clone(), agv_refgql::exec::Ans::Err);
            }
            let h = Handle::new();
            let mut wdv = Wd::new(table);
            wdv.gates = Some(h.clone());
            let wd = Arc::new(wdv);
            let req = Request::new(text).data(wd.clone());
            let r = sched::run(&h, ch, &RunCfg { policy: Policy::Eager, gate_class: Class::Exhaustive, preempt_class: Class::Dev(3), max_steps: 5000 }, schema.execute(req), &mut |_| {});
            (di, r.end, r.schedule, r.output.as_ref().map(obs_of), wd.take_log(), ch.choices(), wd.table.keys().next().cloned())
        },
        &|_, (di, end, schedule, obs, log, choices, fault)| {
            cx.eval();
            cx.add_traces(1);
            cx.add_transitions(schedule.len() as u64);
            sched_count.fetch_add(1, Ordering::Relaxed);
            let text = MUT_DOCS[di];
            let case = json!({"query": text, "schedule": schedule, "choices": choices, "log": log, "failing_resolver": fault});
            if end != End::Done {
                cx.violation(Violation::new("deadlock", format!("mutation ended {end:?} after {schedule:?}"), case).key("part", "b"));
                return;
            }
            // root keys in document order
            let doc = agv_refgql::parse::parse_exec(text).unwrap();
            let roots: Vec<String> = doc.ops().next().unwrap().sel.iter().filter_map(|s| if let agv_refgql::ast::Selection::Field(f) = s { Some(f.key().to_string()) } else { None }).collect();
            let root_of = |entry: &str| -> Option<usize> {
                let p = &entry[2..];
                let k = p.split('.').next().unwrap_or("");
                roots.iter().position(|r| r == k)
            };
            let seq: Vec<usize> = log.iter().filter_map(|e| root_of(e)).collect();
            let sorted = seq.windows(2).all(|w| w[0] <= w[1]);
            // after a failing non-null root field the remaining root fields may legitimately be skipped
            let data_nulled = obs.as_ref().map(|o| o.data == "null").unwrap_or(false);
            let all_roots_seen = data_nulled || (0..roots.len()).all(|i| seq.contains(&i));
            if !sorted || !all_roots_seen {
                cx.violation(
                    Violation::new("mutation-roots-not-serial", format!("resolver log {log:?} is not grouped by root field in document order {roots:?} (schedule {schedule:?})"), case)
                        .key("part", "b"),
                );
            }
            if let Some(o) = obs {
                cx.nontrivial(agv_engine::h64(&(di, &schedule, &fault)));
                cx.sample_with(agv_engine::h64(&(di, &schedule, &fault)), || json!({"part": "b", "query": text, "schedule": schedule, "log": log, "data": o.data}));
            }
        },
    );
    if let Some(d) = st.diverged {
        cx.machinery_error(d);
    }
    cx.add_states(MUT_DOCS.len() as u64);
    cx.extra("part_b_schedules", json!(st.executions));
}

fn run(cx: &Cx) {
    let refs = match Schema::from_sdl(s1::SDL) {
        Ok(s) => s,
        Err(e) => return cx.machinery_error(format!("S1 reference SDL: {e}")),
    };
    let schema = s1::schema();
    let (n, deco) = if cx.quick() { (3, 2) } else { (4, 2) };
    let repeated = AtomicU64::new(0);
    let agree = AtomicU64::new(0);
    let q = GenCfg { schema: &refs, fields: Q_FIELDS, conds: &["A", "I", "Query"], max_nodes: n, max_depth: 3, named_fragments: 1, deco: Some(Class::Dev(0)), typename: false, op: OpKind::Query, root_fragments: true };
    part_a(cx, &refs, &schema, &q, "static-query", deco, &repeated, &agree);
    let m = GenCfg { schema: &refs, fields: M_FIELDS, conds: &["Mutation", "A"], max_nodes: n, max_depth: 3, named_fragments: 1, deco: Some(Class::Dev(0)), typename: false, op: OpKind::Mutation, root_fragments: true };
    part_a(cx, &refs, &schema, &m, "static-mutation", deco, &repeated, &agree);
    part_b(cx, &schema);
    cx.rule(&format!(
        "part a: case = valid document with ≥ 1 repeated response key (every document ≤ {n} nodes over a subset of S1, ≤ {deco} alias/directive decorations, fragments inline and named) in the all-default world; oracle = one resolver start per response path + data equals the reference merge. part b: {} mutation documents × (no fault | one failing resolver at every root or nested field) × every order of gate openings; invariant = log grouped by root field in document order. Non-trivial = part-a documents with a repeated key + part-b schedules.",
        MUT_DOCS.len()
    ));
    cx.exhaustive(true);
    cx.extra("part_a_documents_with_repeated_key", json!(repeated.load(Ordering::Relaxed)));
    cx.extra("part_a_merged_correctly", json!(agree.load(Ordering::Relaxed)));
    cx.assume("static flavour (S1); dynamic flavour is added with the dynamic twin");
}

fn replay(case: &J) -> String {
    let refs = Schema::from_sdl(s1::SDL).unwrap();
    let schema = s1::schema();
    if case.get("schedule").is_some() {
        return format!("part b case: rerun the check; recorded log {}", case["log"]);
    }
    match agv_common::casecheck::replay_fixed(&refs, &Target::Static(&schema), case) {
        CaseOutcome::Ran(c) => format!("query {} -> resolver starts {:?}, data {}, expected {}", c.text, starts(&c.log), c.obs.data, c.expected_data_text()),
        _ => "could not replay".into(),
    }
}

fn main() {
    agv_engine::driver::main("C04", "model_checking", run, Some(replay))
}
