//! C32 — connection cursors round-trip and pagination arguments are checked.
//!
//! Seams: `CursorType::{encode_cursor, decode_cursor}` for every implementation
//! compiled into the workspace feature set, `OpaqueCursor<T>`,
//! `connection::query` / `connection::query_with`, and executed connection
//! fields (`Connection` with and without the `nodes` field).
//!
//! Parts (all plain complete sweeps on the real code, no sampling):
//!  A  round trip  decode(encode(x)) == x  (bitwise for floats)
//!  B  decode inputs: every string ≤ 3 over {0 - a . = é ' '} decodes or errors
//!     without panic; a decoded value re-encodes to a fixed point
//!  C  query / query_with: full product of cursor and first/last arguments
//!  D  executed connections with 0–3 edges: pageInfo cursors

use agv_engine::record::{Cx, Violation};
use agv_engine::sched::drive;
use async_graphql::connection::{
    self, Connection, ConnectionNameType, CursorType, DefaultConnectionName, DefaultEdgeName, DisableNodesField, Edge, EmptyFields,
    EnableNodesField, OpaqueCursor,
};
use async_graphql::{EmptyMutation, EmptySubscription, Error, Object, OutputType, Schema, ID};
use rayon::prelude::*;
use serde::{de::DeserializeOwned, Deserialize, Serialize};
use serde_json::{json, Value as J};
use std::cell::RefCell;
use std::collections::BTreeMap;
use std::fmt::{Debug, Display};
use std::marker::PhantomData;

// ---------------------------------------------------------------------------
// harness-side description of a cursor type
// ---------------------------------------------------------------------------

trait Cur: CursorType + Send + Sync + Sized + 'static {
    fn name() -> String;
    /// Equality the property is judged with (bitwise for floats).
    fn same(a: &Self, b: &Self) -> bool;
    /// Printable / replayable form of a value.
    fn show(a: &Self) -> J;
    fn unshow(_: &J) -> Option<Self> {
        None
    }
    /// `value` key of a violation (structural category where the domain is large).
    fn vkey(_a: &Self) -> String {
        "any".into()
    }
    fn mismatch_class(_a: &Self, _b: &Self) -> &'static str {
        "roundtrip-mismatch"
    }
    /// A defect visible in the encoding alone.
    fn encode_class(_s: &str) -> Option<&'static str> {
        None
    }
}

macro_rules! cur_int {
    ($($t:ty)*) => {$(
        impl Cur for $t {
            fn name() -> String { stringify!($t).into() }
            fn same(a: &Self, b: &Self) -> bool { a == b }
            fn show(a: &Self) -> J { json!(a.to_string()) }
            fn unshow(v: &J) -> Option<Self> { v.as_str()?.parse().ok() }
        }
    )*}
}
cur_int! { isize i8 i16 i32 i64 i128 usize u8 u16 u32 u64 u128 }

fn fcat(nan: bool, inf: bool, neg: bool, zero: bool, sub: bool) -> String {
    if nan {
        "nan".into()
    } else if inf {
        if neg { "-inf".into() } else { "+inf".into() }
    } else if zero {
        if neg { "-0".into() } else { "+0".into() }
    } else if sub {
        "subnormal".into()
    } else {
        "finite".into()
    }
}

macro_rules! cur_float {
    ($t:ty, $bits:ty) => {
        impl Cur for $t {
            fn name() -> String { stringify!($t).into() }
            // bit-exact, except that any NaN round-tripping to a NaN counts as equal: the statement does not
            // promise NaN sign/payload bits and no API can observe them through a cursor
            fn same(a: &Self, b: &Self) -> bool { a.to_bits() == b.to_bits() || (a.is_nan() && b.is_nan()) }
            fn show(a: &Self) -> J { json!(a.to_bits() as u64) }
            fn unshow(v: &J) -> Option<Self> { Some(<$t>::from_bits(v.as_u64()? as $bits)) }
            fn vkey(a: &Self) -> String { fcat(a.is_nan(), a.is_infinite(), a.is_sign_negative(), *a == 0.0, a.is_subnormal()) }
            fn mismatch_class(a: &Self, b: &Self) -> &'static str {
                if a.is_nan() && b.is_nan() { "nan-bits-not-preserved" } else { "roundtrip-mismatch" }
            }
        }
    };
}
cur_float!(f32, u32);
cur_float!(f64, u64);

impl Cur for char {
    fn name() -> String { "char".into() }
    fn same(a: &Self, b: &Self) -> bool { a == b }
    fn show(a: &Self) -> J { json!(*a as u32) }
    fn unshow(v: &J) -> Option<Self> { char::from_u32(v.as_u64()? as u32) }
}
impl Cur for bool {
    fn name() -> String { "bool".into() }
    fn same(a: &Self, b: &Self) -> bool { a == b }
    fn show(a: &Self) -> J { json!(a) }
    fn unshow(v: &J) -> Option<Self> { v.as_bool() }
}
impl Cur for String {
    fn name() -> String { "String".into() }
    fn same(a: &Self, b: &Self) -> bool { a == b }
    fn show(a: &Self) -> J { json!(a) }
    fn unshow(v: &J) -> Option<Self> { v.as_str().map(|s| s.to_string()) }
}
impl Cur for ID {
    fn name() -> String { "ID".into() }
    fn same(a: &Self, b: &Self) -> bool { a == b }
    fn show(a: &Self) -> J { json!(a.0) }
    fn unshow(v: &J) -> Option<Self> { v.as_str().map(|s| ID(s.to_string())) }
}

/// Payload types carried by `OpaqueCursor<T>`.
trait Payload: Serialize + DeserializeOwned + Debug + Send + Sync + Sized + 'static {
    fn tname() -> &'static str;
    fn same(&self, o: &Self) -> bool;
    fn vkey(&self) -> String {
        format!("{:?}", self)
    }
    /// Class of a value that came back different (computed from the two values).
    fn mismatch_class(&self, _o: &Self) -> &'static str {
        "roundtrip-mismatch"
    }
    /// The small exhaustive value set enumerated for this payload type.
    fn menu() -> Vec<Self>;
}

impl<T: Payload> Cur for OpaqueCursor<T> {
    fn name() -> String { format!("OpaqueCursor<{}>", T::tname()) }
    fn same(a: &Self, b: &Self) -> bool { a.0.same(&b.0) }
    fn show(a: &Self) -> J { json!(format!("{:?}", a.0)) }
    fn vkey(a: &Self) -> String { a.0.vkey() }
    fn mismatch_class(a: &Self, b: &Self) -> &'static str { a.0.mismatch_class(&b.0) }
    fn encode_class(s: &str) -> Option<&'static str> {
        // base64 of any JSON text is non-empty; "" is what `unwrap_or_default()` leaves after a
        // serialization error
        if s.is_empty() { Some("opaque-encode-error-swallowed") } else { None }
    }
}

#[derive(Serialize, Deserialize, PartialEq, Debug, Clone)]
struct Key {
    a: i8,
    b: Option<bool>,
    c: String,
}
#[derive(Serialize, Deserialize, PartialEq, Debug, Clone)]
enum En {
    Unit,
    New(i8),
    Tup(i8, bool),
    Rec { x: u8 },
}
#[derive(Serialize, Deserialize, PartialEq, Debug, Clone)]
struct UnitS;
#[derive(Serialize, Deserialize, PartialEq, Debug, Clone)]
struct NewT(i16);
/// A realistic key-set cursor: (sort key, tie-breaker id).
#[derive(Serialize, Deserialize, PartialEq, Debug, Clone)]
struct Pos {
    t: f64,
    id: u32,
}

fn seqs<T: Clone>(items: &[T], max: usize) -> Vec<Vec<T>> {
    let mut out: Vec<Vec<T>> = vec![vec![]];
    let mut last: Vec<Vec<T>> = vec![vec![]];
    for _ in 0..max {
        let mut next = Vec::new();
        for p in &last {
            for i in items {
                let mut q = p.clone();
                q.push(i.clone());
                next.push(q);
            }
        }
        out.extend(next.iter().cloned());
        last = next;
    }
    out
}

fn string_alphabet() -> Vec<&'static str> {
    vec!["a", "\"", "\\", "/", "\n", "\r", "\t", "\u{0}", "\u{1b}", "\u{7f}", "é", "\u{ffff}", "😀", " ", "=", "-", "."]
}
fn strings_le2() -> Vec<String> {
    seqs(&string_alphabet(), 2).into_iter().map(|v| v.concat()).collect()
}
fn key_menu() -> Vec<Key> {
    let mut v = Vec::new();
    for a in [-128i8, 0, 127] {
        for b in [None, Some(false), Some(true)] {
            for c in ["", "a", "\"\\\n", "é😀"] {
                v.push(Key { a, b, c: c.to_string() });
            }
        }
    }
    v
}
fn en_menu() -> Vec<En> {
    vec![En::Unit, En::New(-128), En::New(0), En::New(127), En::Tup(-1, false), En::Tup(1, true), En::Rec { x: 0 }, En::Rec { x: 255 }]
}

fn f64_menu() -> Vec<f64> {
    let mut v = vec![
        0.0, -0.0, 1.0, -1.0, 1.5, 0.1, 1e-7, 1e21, 1e16, 5e-324, -5e-324, f64::MIN_POSITIVE, f64::MAX, f64::MIN, f64::EPSILON,
        f64::INFINITY, f64::NEG_INFINITY, f64::NAN, -f64::NAN, 9007199254740993.0, 1e300, 123456789.123456789,
    ];
    for k in 0..64 {
        let p = (1u64 << k) as f64;
        v.extend([p, -p, p + 1.0, p - 1.0, p * 1.0000000000000002, 1.0 / p]);
    }
    // every exponent with three mantissas, both signs (includes NaN payloads 1 and all-ones)
    for e in 0..2048u64 {
        for m in [0u64, 1, (1 << 52) - 1, 1 << 51] {
            for s in [0u64, 1] {
                v.push(f64::from_bits((s << 63) | (e << 52) | m));
            }
        }
    }
    let mut seen = std::collections::HashSet::new();
    v.retain(|x| seen.insert(x.to_bits()));
    v
}
fn f32_menu() -> Vec<f32> {
    let mut v: Vec<f32> = vec![0.1, 1.5, 1e-7, 1e21, 16777217.0, f32::MAX, f32::MIN, f32::MIN_POSITIVE, f32::EPSILON, f32::NAN, -f32::NAN];
    for e in 0..256u32 {
        for m in [0u32, 1, 0x7fffff, 0x400000, 0x2aaaaa] {
            for s in [0u32, 1] {
                v.push(f32::from_bits((s << 31) | (e << 23) | m));
            }
        }
    }
    let mut seen = std::collections::HashSet::new();
    v.retain(|x| seen.insert(x.to_bits()));
    v
}

macro_rules! payload_eq {
    ($t:ty, $n:expr, $menu:expr) => {
        impl Payload for $t {
            fn tname() -> &'static str { $n }
            fn same(&self, o: &Self) -> bool { self == o }
            fn menu() -> Vec<Self> { $menu }
        }
    };
}
payload_eq!(Key, "Key", key_menu());
payload_eq!(En, "En", en_menu());
payload_eq!(UnitS, "UnitS", vec![UnitS]);
payload_eq!(NewT, "NewT", vec![NewT(i16::MIN), NewT(0), NewT(i16::MAX)]);
payload_eq!(Pos, "Pos", vec![Pos { t: 0.0, id: 0 }, Pos { t: 1.5, id: 1 }, Pos { t: -1e300, id: u32::MAX }, Pos { t: 5e-324, id: 7 }, Pos { t: 1726956000.123456, id: 42 }]);
payload_eq!((), "()", vec![()]);
payload_eq!(bool, "bool", vec![false, true]);
payload_eq!(char, "char", vec!['a', '"', '\\', '\u{0}', '\u{7f}', 'é', '\u{ffff}', '😀']);
payload_eq!(String, "String", strings_le2());
payload_eq!(i32, "i32", vec![i32::MIN, -1, 0, 1, i32::MAX]);
payload_eq!(i64, "i64", vec![i64::MIN, i64::MIN + 1, -1, 0, 1, (1 << 53) + 1, i64::MAX]);
payload_eq!(u64, "u64", vec![0, 1, (1 << 53) + 1, i64::MAX as u64 + 1, u64::MAX]);
payload_eq!(Vec<i8>, "Vec<i8>", seqs(&[-128i8, 0, 127], 2));
payload_eq!(Vec<u8>, "Vec<u8>", seqs(&[0u8, 255], 3));
payload_eq!(Vec<Option<bool>>, "Vec<Option<bool>>", seqs(&[None, Some(false), Some(true)], 2));
payload_eq!(Option<i32>, "Option<i32>", vec![None, Some(i32::MIN), Some(0), Some(i32::MAX)]);
payload_eq!(Option<String>, "Option<String>", vec![None, Some(String::new()), Some("null".into()), Some("a\"\\".into())]);
payload_eq!(Option<Option<bool>>, "Option<Option<bool>>", vec![None, Some(None), Some(Some(false)), Some(Some(true))]);
payload_eq!(Option<()>, "Option<()>", vec![None, Some(())]);
payload_eq!(Option<En>, "Option<En>", std::iter::once(None).chain(en_menu().into_iter().map(Some)).collect());
payload_eq!((i8, String, bool), "(i8,String,bool)", {
    let mut v = Vec::new();
    for a in [-128i8, 0, 127] {
        for b in ["", "a", "\"é"] {
            for c in [false, true] {
                v.push((a, b.to_string(), c));
            }
        }
    }
    v
});
payload_eq!(((i8, i8), Option<(bool,)>), "((i8,i8),Option<(bool,)>)", vec![((0, 0), None), ((-128, 127), Some((true,))), ((1, -1), Some((false,)))]);
payload_eq!(Vec<Key>, "Vec<Key>", seqs(&[key_menu()[0].clone(), key_menu()[35].clone()], 2));
payload_eq!(BTreeMap<String, i8>, "BTreeMap<String,i8>", vec![
    BTreeMap::new(),
    BTreeMap::from([(String::new(), 0)]),
    BTreeMap::from([("a".to_string(), -1), ("é\"".to_string(), 1)]),
]);
payload_eq!(BTreeMap<i32, bool>, "BTreeMap<i32,bool>", vec![BTreeMap::new(), BTreeMap::from([(-1, true), (i32::MAX, false)])]);
payload_eq!(BTreeMap<(i8, i8), bool>, "BTreeMap<(i8,i8),bool>", vec![BTreeMap::new(), BTreeMap::from([((0, 1), true)])]);

impl Payload for i128 {
    fn tname() -> &'static str { "i128" }
    fn same(&self, o: &Self) -> bool { self == o }
    fn vkey(&self) -> String {
        if *self > u64::MAX as i128 { "above-u64".into() } else if *self < i64::MIN as i128 { "below-i64".into() } else { "within-64-bit".into() }
    }
    fn menu() -> Vec<Self> {
        vec![i128::MIN, i64::MIN as i128 - 1, i64::MIN as i128, -1, 0, 1, i64::MAX as i128, u64::MAX as i128, u64::MAX as i128 + 1, i128::MAX]
    }
}
impl Payload for u128 {
    fn tname() -> &'static str { "u128" }
    fn same(&self, o: &Self) -> bool { self == o }
    fn vkey(&self) -> String {
        if *self > u64::MAX as u128 { "above-u64".into() } else { "within-64-bit".into() }
    }
    fn menu() -> Vec<Self> {
        vec![0, 1, u64::MAX as u128, u64::MAX as u128 + 1, u128::MAX]
    }
}
impl Payload for f64 {
    fn tname() -> &'static str { "f64" }
    fn same(&self, o: &Self) -> bool { self.to_bits() == o.to_bits() }
    fn vkey(&self) -> String { <f64 as Cur>::vkey(self) }
    fn mismatch_class(&self, o: &Self) -> &'static str {
        // distance in units in the last place, taken from the two bit patterns
        let same_sign = self.is_sign_negative() == o.is_sign_negative();
        if self.is_finite() && o.is_finite() && same_sign && (self.to_bits() as i128 - o.to_bits() as i128).abs() <= 2 {
            "float-off-by-ulp"
        } else {
            "roundtrip-mismatch"
        }
    }
    fn menu() -> Vec<Self> { f64_menu() }
}
impl Payload for f32 {
    fn tname() -> &'static str { "f32" }
    fn same(&self, o: &Self) -> bool { self.to_bits() == o.to_bits() }
    fn vkey(&self) -> String { <f32 as Cur>::vkey(self) }
    fn menu() -> Vec<Self> { f32_menu() }
}
impl Payload for Option<f64> {
    fn tname() -> &'static str { "Option<f64>" }
    fn same(&self, o: &Self) -> bool { self.map(|x| x.to_bits()) == o.map(|x| x.to_bits()) }
    fn vkey(&self) -> String {
        match self {
            None => "None".into(),
            Some(x) => format!("Some({})", <f64 as Cur>::vkey(x)),
        }
    }
    fn menu() -> Vec<Self> {
        vec![None, Some(0.0), Some(-0.0), Some(1.5), Some(f64::MAX), Some(5e-324), Some(f64::INFINITY), Some(f64::NEG_INFINITY), Some(f64::NAN)]
    }
}

// ---------------------------------------------------------------------------
// part A: round trip
// ---------------------------------------------------------------------------

fn rt_one<C: Cur>(cx: &Cx, x: &C) -> bool
where
    C::Error: Display,
{
    let s = x.encode_cursor();
    let bad = |class: &str, detail: String| {
        cx.violation(
            Violation::new(class, detail, json!({"part": "roundtrip", "type": C::name(), "value": C::show(x)}))
                .key("part", "roundtrip")
                .key("type", C::name())
                .key("value", C::vkey(x)),
        );
    };
    if let Some(c) = C::encode_class(&s) {
        bad(c, format!("{}: value {} encodes to {s:?}, which is not an encoding of any value", C::name(), C::show(x)));
        return false;
    }
    match C::decode_cursor(&s) {
        Ok(y) if C::same(x, &y) => true,
        Ok(y) => {
            bad(C::mismatch_class(x, &y), format!("{}: {} encodes to {s:?} which decodes to {}", C::name(), C::show(x), C::show(&y)));
            false
        }
        Err(e) => {
            bad("roundtrip-decode-error", format!("{}: {} encodes to {s:?} which does not decode: {e}", C::name(), C::show(x)));
            false
        }
    }
}

/// Complete sweep of an indexed domain.
fn sweep<C: Cur>(cx: &Cx, n: u64, make: &(dyn Fn(u64) -> C + Sync))
where
    C::Error: Display,
{
    let chunk = 1u64 << 14;
    let chunks = n.div_ceil(chunk);
    (0..chunks).into_par_iter().for_each(|c| {
        let lo = c * chunk;
        let hi = (lo + chunk).min(n);
        let mut ok = 0u64;
        let r = agv_engine::catch_quiet(|| {
            for i in lo..hi {
                if rt_one(cx, &make(i)) {
                    ok += 1;
                }
            }
        });
        if let Err(p) = r {
            cx.violation(
                Violation::new("panic", format!("{}: round trip panicked in index range {lo}..{hi}: {p}", C::name()), json!({"part": "roundtrip", "type": C::name(), "range": [lo, hi]}))
                    .key("part", "roundtrip")
                    .key("type", C::name()),
            );
        }
        cx.evals(hi - lo);
        cx.nontrivial_count(ok);
    });
    cx.extra_add("roundtrip_values", n);
}

fn menu<C: Cur>(cx: &Cx, items: Vec<C>)
where
    C::Error: Display,
{
    let n = items.len() as u64;
    for x in &items {
        cx.eval();
        match agv_engine::catch_quiet(|| rt_one(cx, x)) {
            Ok(true) => cx.nontrivial(agv_engine::h64(&("rt", C::name(), C::show(x).to_string()))),
            Ok(false) => {}
            Err(p) => cx.violation(
                Violation::new("panic", format!("{}: round trip of {} panicked: {p}", C::name(), C::show(x)), json!({"part": "roundtrip", "type": C::name(), "value": C::show(x)}))
                    .key("part", "roundtrip")
                    .key("type", C::name())
                    .key("value", C::vkey(x)),
            ),
        }
    }
    cx.extra_add("roundtrip_values", n);
    cx.sample_with(agv_engine::h64(&("menu", C::name())), || json!({"part": "roundtrip", "type": C::name(), "values": n, "first": items.first().map(|x| C::show(x))}));
}

fn opaque_menu<T: Payload>(cx: &Cx)
where
    <OpaqueCursor<T> as CursorType>::Error: Display,
{
    menu::<OpaqueCursor<T>>(cx, T::menu().into_iter().map(OpaqueCursor).collect());
}

/// ±130 around 0 and around ±2^k for every k < 128, clipped to [lo, hi]; plus lo and hi.
fn wide_menu(lo: i128, hi_u: u128) -> Vec<(bool, u128)> {
    // represented as (negative, magnitude) to cover i128::MIN..=u128::MAX without overflow
    let mut out: Vec<(bool, u128)> = Vec::new();
    let mut push = |neg: bool, mag: u128| {
        let ok = if neg { mag <= lo.unsigned_abs() } else { mag <= hi_u };
        if ok && !(neg && mag == 0) {
            out.push((neg, mag));
        }
    };
    for d in 0..=130u128 {
        push(false, d);
        push(true, d);
    }
    for k in 0..128u32 {
        let p = 1u128 << k;
        for d in 0..=130u128 {
            for neg in [false, true] {
                push(neg, p.saturating_add(d));
                push(neg, p.saturating_sub(d));
            }
        }
    }
    push(true, lo.unsigned_abs());
    push(false, hi_u);
    out.sort();
    out.dedup();
    out
}
macro_rules! wide {
    ($cx:expr, $t:ty) => {{
        let lo = <$t>::MIN as i128;
        let hi = <$t>::MAX as u128;
        let items: Vec<$t> = wide_menu(lo, hi)
            .into_iter()
            .map(|(neg, mag)| if neg { (mag as i128).wrapping_neg() as $t } else { mag as $t })
            .collect();
        menu::<$t>($cx, items);
    }};
}
macro_rules! complete {
    ($cx:expr, $t:ty) => {{
        let lo = <$t>::MIN as i128;
        let n = (<$t>::MAX as i128 - lo + 1) as u64;
        sweep::<$t>($cx, n, &move |i| (lo + i as i128) as $t);
    }};
}

// ---------------------------------------------------------------------------
// part B: decode inputs
// ---------------------------------------------------------------------------

fn decode_one<C: Cur>(s: &str) -> Result<Option<String>, (String, String)>
where
    C::Error: Display,
{
    // Ok(None) rejected, Ok(Some(enc)) decoded and stable, Err((class, detail))
    match C::decode_cursor(s) {
        Err(_) => Ok(None),
        Ok(v) => {
            let e = v.encode_cursor();
            match C::decode_cursor(&e) {
                Ok(v2) if C::same(&v, &v2) && v2.encode_cursor() == e => Ok(Some(e)),
                Ok(v2) => Err((
                    "decode-reencode-unstable".into(),
                    format!("{}: {s:?} decodes to {}, re-encodes to {e:?}, which decodes to {} (re-encoding {:?})", C::name(), C::show(&v), C::show(&v2), v2.encode_cursor()),
                )),
                Err(err) => Err(("decode-reencode-undecodable".into(), format!("{}: {s:?} decodes to {}, whose encoding {e:?} does not decode: {err}", C::name(), C::show(&v)))),
            }
        }
    }
}

fn decode_inputs<C: Cur>(cx: &Cx, inputs: &[String])
where
    C::Error: Display,
{
    let mut decoded = 0u64;
    for s in inputs {
        cx.eval();
        let r = agv_engine::catch_quiet(|| decode_one::<C>(s));
        let (class, detail) = match r {
            Ok(Ok(None)) => continue,
            Ok(Ok(Some(_))) => {
                decoded += 1;
                cx.nontrivial(agv_engine::h64(&("dec", C::name(), s)));
                continue;
            }
            Ok(Err(cd)) => cd,
            Err(p) => ("panic".to_string(), format!("{}: decode_cursor({s:?}) panicked: {p}", C::name())),
        };
        cx.violation(Violation::new(class, detail, json!({"part": "decode", "type": C::name(), "input": s})).key("part", "decode").key("type", C::name()));
    }
    cx.extra_add("decode_inputs", inputs.len() as u64);
    cx.extra_add("decode_inputs_accepted", decoded);
}

// ---------------------------------------------------------------------------
// part C: query / query_with
// ---------------------------------------------------------------------------

#[derive(Clone, Copy, Debug, PartialEq)]
enum CurArg {
    Absent,
    Valid(usize),
    Bad(usize),
}

type Call<C> = (Option<C>, Option<C>, Option<usize>, Option<usize>);

struct QObs<C> {
    calls: Vec<Call<C>>,
    /// None: the future parked (harness problem); Some(is_ok)
    result: Option<bool>,
}

fn run_query<C: Cur>(api: &str, after: Option<String>, before: Option<String>, first: Option<i32>, last: Option<i32>, closure_ok: bool) -> QObs<C>
where
    C::Error: Display + Send + Sync + 'static,
{
    let rec: RefCell<Vec<Call<C>>> = RefCell::new(Vec::new());
    let result = if api == "query_with" {
        drive(connection::query_with::<C, u8, _, _, Error>(after, before, first, last, |a, b, f, l| {
            rec.borrow_mut().push((a, b, f, l));
            async move {
                if closure_ok {
                    Ok(7u8)
                } else {
                    Err(Error::new("closure error"))
                }
            }
        }))
        .map(|r| r.is_ok())
    } else {
        drive(connection::query::<DefaultConnectionName, DefaultEdgeName, C, i32, EnableNodesField, EmptyFields, EmptyFields, _, _, Error>(
            after,
            before,
            first,
            last,
            |a, b, f, l| {
                rec.borrow_mut().push((a, b, f, l));
                async move {
                    if closure_ok {
                        Ok(Connection::new(false, false))
                    } else {
                        Err(Error::new("closure error"))
                    }
                }
            },
        ))
        .map(|r| r.is_ok())
    };
    QObs { calls: rec.into_inner(), result }
}

fn arg_string<C: Cur>(a: CurArg, valid: &[C], bad: &[&str]) -> Option<String> {
    match a {
        CurArg::Absent => None,
        CurArg::Valid(i) => Some(valid[i].encode_cursor()),
        CurArg::Bad(i) => Some(bad[i].to_string()),
    }
}

/// Judge one observation. Returns (class, arg, detail) per discrepancy.
fn judge_query<C: Cur>(o: &QObs<C>, after: CurArg, before: CurArg, first: Option<i32>, last: Option<i32>, valid: &[C]) -> Vec<(String, String, String)> {
    let mut out = Vec::new();
    let mut invalid: Vec<&str> = Vec::new();
    if matches!(first, Some(f) if f < 0) {
        invalid.push("first");
    }
    if matches!(last, Some(l) if l < 0) {
        invalid.push("last");
    }
    if matches!(after, CurArg::Bad(_)) {
        invalid.push("after");
    }
    if matches!(before, CurArg::Bad(_)) {
        invalid.push("before");
    }
    let Some(is_ok) = o.result else {
        out.push(("machinery".into(), String::new(), "the query future parked".into()));
        return out;
    };
    if !invalid.is_empty() {
        let arg = invalid.join("+");
        if !o.calls.is_empty() {
            out.push(("closure-called-despite-invalid-argument".into(), arg.clone(), format!("invalid {arg}: the page-fetching closure was called {} time(s)", o.calls.len())));
        }
        if is_ok {
            out.push(("no-error-for-invalid-argument".into(), arg, "invalid argument but the helper returned Ok".into()));
        }
        return out;
    }
    let present = {
        let mut p = Vec::new();
        if let Some(f) = first {
            p.push(format!("first={f}"));
        }
        if let Some(l) = last {
            p.push(format!("last={l}"));
        }
        if after != CurArg::Absent {
            p.push("after=valid".to_string());
        }
        if before != CurArg::Absent {
            p.push("before=valid".to_string());
        }
        p.join(",")
    };
    match o.calls.len() {
        0 => out.push(("valid-arguments-rejected".into(), present, format!("all arguments valid but the closure was never called (result ok={is_ok})"))),
        1 => {
            let (a, b, f, l) = &o.calls[0];
            let exp_c = |x: CurArg| match x {
                CurArg::Valid(i) => Some(&valid[i]),
                _ => None,
            };
            let same_c = |got: &Option<C>, exp: Option<&C>| match (got, exp) {
                (None, None) => true,
                (Some(g), Some(e)) => C::same(g, e),
                _ => false,
            };
            if !same_c(a, exp_c(after)) {
                out.push(("decoded-value-changed".into(), "after".into(), format!("closure received after={:?}, expected {:?}", a.as_ref().map(C::show), exp_c(after).map(C::show))));
            }
            if !same_c(b, exp_c(before)) {
                out.push(("decoded-value-changed".into(), "before".into(), format!("closure received before={:?}, expected {:?}", b.as_ref().map(C::show), exp_c(before).map(C::show))));
            }
            if *f != first.map(|x| x as usize) {
                out.push(("decoded-value-changed".into(), "first".into(), format!("closure received first={f:?}, expected {:?}", first)));
            }
            if *l != last.map(|x| x as usize) {
                out.push(("decoded-value-changed".into(), "last".into(), format!("closure received last={l:?}, expected {:?}", last)));
            }
        }
        n => out.push(("closure-called-more-than-once".into(), present, format!("closure called {n} times"))),
    }
    out
}

const FIRST_LAST: [Option<i32>; 6] = [None, Some(-1), Some(0), Some(1), Some(i32::MAX), Some(i32::MIN)];

fn query_product<C: Cur>(cx: &Cx, valid: Vec<C>, bad: &[&str])
where
    C::Error: Display + Send + Sync + 'static,
{
    let mut cur_args = vec![CurArg::Absent];
    cur_args.extend((0..valid.len()).map(CurArg::Valid));
    cur_args.extend((0..bad.len()).map(CurArg::Bad));
    // the "undecodable" strings must really be undecodable and the valid ones decodable, or the
    // product would not mean what it says
    for b in bad {
        if C::decode_cursor(b).is_ok() {
            cx.machinery_error(format!("{}: menu string {b:?} was meant to be undecodable but decodes", C::name()));
        }
    }
    let mut n = 0u64;
    for api in ["query_with", "query"] {
        for closure_ok in [true, false] {
            for &after in &cur_args {
                for &before in &cur_args {
                    for first in FIRST_LAST {
                        for last in FIRST_LAST {
                            n += 1;
                            let a = arg_string(after, &valid, bad);
                            let b = arg_string(before, &valid, bad);
                            let case = json!({"part": "query", "api": api, "type": C::name(), "after": a, "before": b, "first": first, "last": last, "closure_ok": closure_ok});
                            let r = agv_engine::catch_quiet(|| run_query::<C>(api, a.clone(), b.clone(), first, last, closure_ok));
                            let found = match r {
                                Ok(o) => judge_query(&o, after, before, first, last, &valid),
                                Err(p) => vec![("panic".to_string(), String::new(), format!("panicked: {p}"))],
                            };
                            for (class, arg, detail) in found {
                                if class == "machinery" {
                                    cx.machinery_error(format!("{api}<{}>: {detail}", C::name()));
                                    continue;
                                }
                                cx.violation(
                                    Violation::new(class, format!("{api}<{}>(after={a:?}, before={b:?}, first={first:?}, last={last:?}): {detail}", C::name()), case.clone())
                                        .key("part", "query")
                                        .key("api", api)
                                        .key("type", C::name())
                                        .key("arg", arg),
                                );
                            }
                        }
                    }
                }
            }
        }
    }
    cx.evals(n);
    // every case of the product exercises either the rejection or the pass-through clause
    cx.nontrivial_count(n);
    cx.extra_add("query_cases", n);
}

// ---------------------------------------------------------------------------
// part D: executed connections
// ---------------------------------------------------------------------------

trait Mk: Cur {
    fn mk(i: i32) -> Self;
}
impl Mk for usize {
    fn mk(i: i32) -> Self { [0, 7, usize::MAX][i as usize] }
}
impl Mk for i128 {
    fn mk(i: i32) -> Self { [i128::MIN, 0, i128::MAX][i as usize] }
}
impl Mk for f64 {
    fn mk(i: i32) -> Self { [-0.0, 5e-324, f64::INFINITY][i as usize] }
}
impl Mk for char {
    fn mk(i: i32) -> Self { ['a', '\u{0}', '😀'][i as usize] }
}
impl Mk for String {
    fn mk(i: i32) -> Self { ["", "a\"\\\n", "é😀 ="][i as usize].to_string() }
}
impl Mk for ID {
    fn mk(i: i32) -> Self { ID(["", "a\"\\\n", "é😀 ="][i as usize].to_string()) }
}
impl Mk for OpaqueCursor<Key> {
    fn mk(i: i32) -> Self { OpaqueCursor(key_menu()[[0usize, 17, 35][i as usize]].clone()) }
}
impl Mk for OpaqueCursor<Vec<Option<bool>>> {
    fn mk(i: i32) -> Self { OpaqueCursor([vec![], vec![None], vec![Some(true), None]][i as usize].clone()) }
}

struct DisName;
impl ConnectionNameType for DisName {
    fn type_name<T: OutputType>() -> String {
        "NoNodesConnection".to_string()
    }
}

struct Q<C>(PhantomData<C>);

#[Object]
impl<C: Mk> Q<C> {
    async fn en(&self, ids: Vec<i32>) -> Connection<C, i32> {
        let mut c = Connection::new(false, !ids.is_empty());
        c.edges.extend(ids.into_iter().map(|i| Edge::new(C::mk(i), i)));
        c
    }
    async fn dis(&self, ids: Vec<i32>) -> Connection<C, i32, EmptyFields, EmptyFields, DisName, DefaultEdgeName, DisableNodesField> {
        let mut c = Connection::new(!ids.is_empty(), false);
        c.edges.extend(ids.into_iter().map(|i| Edge::new(C::mk(i), i)));
        c
    }
}

fn exec_one<C: Mk>(schema: &Schema<Q<C>, EmptyMutation, EmptySubscription>, field: &str, ids: &[i32]) -> Result<J, String> {
    let q = format!("{{ {field}(ids: {ids:?}) {{ pageInfo {{ startCursor endCursor }} edges {{ cursor node }} }} }}");
    let resp = drive(schema.execute(q.as_str())).ok_or_else(|| "execute parked".to_string())?;
    if !resp.errors.is_empty() {
        return Err(format!("errors: {:?}", resp.errors));
    }
    let v = serde_json::to_value(&resp.data).map_err(|e| e.to_string())?;
    Ok(v[field].clone())
}

fn judge_exec<C: Mk>(got: &J, ids: &[i32]) -> Vec<(String, String, String)> {
    let mut out = Vec::new();
    let enc = |i: &i32| J::String(C::mk(*i).encode_cursor());
    let exp_start = ids.first().map(enc).unwrap_or(J::Null);
    let exp_end = ids.last().map(enc).unwrap_or(J::Null);
    let pi = &got["pageInfo"];
    if pi["startCursor"] != exp_start {
        out.push(("page-info-cursor-mismatch".into(), "startCursor".into(), format!("startCursor = {}, expected {}", pi["startCursor"], exp_start)));
    }
    if pi["endCursor"] != exp_end {
        out.push(("page-info-cursor-mismatch".into(), "endCursor".into(), format!("endCursor = {}, expected {}", pi["endCursor"], exp_end)));
    }
    let exp_edges: Vec<J> = ids.iter().map(|i| json!({"cursor": enc(i), "node": i})).collect();
    if got["edges"] != J::Array(exp_edges.clone()) {
        out.push(("edge-cursor-mismatch".into(), "edges".into(), format!("edges = {}, expected {}", got["edges"], J::Array(exp_edges))));
    }
    out
}

fn exec_part<C: Mk>(cx: &Cx) {
    let schema = match agv_engine::catch_quiet(|| Schema::build(Q::<C>(PhantomData), EmptyMutation, EmptySubscription).finish()) {
        Ok(s) => s,
        Err(p) => {
            cx.machinery_error(format!("building the connection schema for {} panicked: {p}", C::name()));
            return;
        }
    };
    let lists = seqs(&[0i32, 1, 2], 3);
    for field in ["en", "dis"] {
        for ids in &lists {
            cx.eval();
            let case = json!({"part": "execute", "type": C::name(), "field": field, "ids": ids});
            match agv_engine::catch_quiet(|| exec_one::<C>(&schema, field, ids)) {
                Ok(Ok(got)) => {
                    let found = judge_exec::<C>(&got, ids);
                    if found.is_empty() {
                        cx.nontrivial(agv_engine::h64(&("exec", C::name(), field, ids)));
                    }
                    for (class, f, detail) in found {
                        cx.violation(
                            Violation::new(class, format!("Connection<{}> field {field} with edges {ids:?}: {detail}", C::name()), case.clone())
                                .key("part", "execute")
                                .key("type", C::name())
                                .key("connection", if field == "en" { "EnableNodesField" } else { "DisableNodesField" })
                                .key("field", f),
                        );
                    }
                    cx.sample_with(agv_engine::h64(&("exec", C::name(), field, ids)), || json!({"part": "execute", "type": C::name(), "field": field, "ids": ids, "got": got}));
                }
                Ok(Err(e)) => cx.machinery_error(format!("executing connection field for {}: {e}", C::name())),
                Err(p) => cx.violation(Violation::new("panic", format!("executing Connection<{}> {field} {ids:?} panicked: {p}", C::name()), case).key("part", "execute").key("type", C::name())),
            }
        }
    }
    cx.extra_add("executed_connections", 2 * lists.len() as u64);
}

// ---------------------------------------------------------------------------

fn decode_alphabet() -> Vec<&'static str> {
    vec!["0", "-", "a", ".", "=", "é", " "]
}

pub fn run(cx: &Cx) {
    let thorough = !cx.quick();
    cx.rule(
        "Parts: (A) round trip decode(encode(x)) == x, bitwise for floats — complete i8/u8/i16/u16/char/bool (thorough: every i32, u32 and f32 bit pattern), \
         boundary menus (±130 around 0 and ±2^k) for 32/64/128-bit and pointer-size integers, an f32/f64 menu over every exponent incl. ±0, subnormals, MAX, ±inf and NaN payloads, \
         String/ID over all strings ≤ 2 of a 17-symbol alphabet, OpaqueCursor<T> over 30 serde payload types with small exhaustive value sets; \
         (B) every string ≤ 3 over {0 - a . = é space} offered to decode_cursor of every cursor type (OpaqueCursor: alphabet extended by M Q A w g so that some inputs are base64 of JSON); \
         (C) query and query_with over after/before ∈ {absent, 2 valid, 2 undecodable} × first/last ∈ {absent, -1, 0, 1, i32::MAX, i32::MIN} × closure result {Ok, Err}, 9 cursor types; \
         (D) executed Connection fields (with and without `nodes`) for every edge list of length 0–3 over 3 cursors, 8 cursor types. \
         Non-trivial = a value that round-trips (A), an input that decodes (B), every product case (C: each exercises rejection or pass-through), an executed connection whose page info was compared (D).",
    );
    cx.assume("CursorType implementations behind the cargo features chrono, jiff and uuid are not compiled into the harness feature set and are not covered");
    cx.assume("query/query_with: only what the statement fixes is judged (Err + closure not called for invalid arguments; one call with the decoded values otherwise); first and last both present, and the helper's own result when the closure ran, are not judged");
    cx.assume("the expected page-info cursor is the real encode_cursor of the edge cursor the harness constructed (the statement relates page info to the edge cursors' encodings)");

    // ---- A: complete domains
    complete!(cx, i8);
    complete!(cx, u8);
    complete!(cx, i16);
    complete!(cx, u16);
    sweep::<bool>(cx, 2, &|i| i == 1);
    let chars: Vec<char> = (0u32..=0x10FFFF).filter_map(char::from_u32).collect();
    sweep::<char>(cx, chars.len() as u64, &|i| chars[i as usize]);
    if thorough {
        complete!(cx, i32);
        complete!(cx, u32);
        sweep::<f32>(cx, 1 << 32, &|b| f32::from_bits(b as u32));
    }
    // menus
    wide!(cx, i32);
    wide!(cx, u32);
    wide!(cx, i64);
    wide!(cx, u64);
    wide!(cx, isize);
    wide!(cx, usize);
    wide!(cx, i128);
    wide!(cx, u128);
    if !thorough {
        menu::<f32>(cx, f32_menu());
    }
    menu::<f64>(cx, f64_menu());
    menu::<String>(cx, strings_le2());
    menu::<ID>(cx, strings_le2().into_iter().map(ID).collect());

    opaque_menu::<Key>(cx);
    opaque_menu::<En>(cx);
    opaque_menu::<UnitS>(cx);
    opaque_menu::<NewT>(cx);
    opaque_menu::<Pos>(cx);
    opaque_menu::<()>(cx);
    opaque_menu::<bool>(cx);
    opaque_menu::<char>(cx);
    opaque_menu::<String>(cx);
    opaque_menu::<i32>(cx);
    opaque_menu::<i64>(cx);
    opaque_menu::<u64>(cx);
    opaque_menu::<i128>(cx);
    opaque_menu::<u128>(cx);
    opaque_menu::<f32>(cx);
    opaque_menu::<f64>(cx);
    opaque_menu::<Option<f64>>(cx);
    opaque_menu::<Vec<i8>>(cx);
    opaque_menu::<Vec<u8>>(cx);
    opaque_menu::<Vec<Option<bool>>>(cx);
    opaque_menu::<Option<i32>>(cx);
    opaque_menu::<Option<String>>(cx);
    opaque_menu::<Option<Option<bool>>>(cx);
    opaque_menu::<Option<()>>(cx);
    opaque_menu::<Option<En>>(cx);
    opaque_menu::<(i8, String, bool)>(cx);
    opaque_menu::<((i8, i8), Option<(bool,)>)>(cx);
    opaque_menu::<Vec<Key>>(cx);
    opaque_menu::<BTreeMap<String, i8>>(cx);
    opaque_menu::<BTreeMap<i32, bool>>(cx);
    opaque_menu::<BTreeMap<(i8, i8), bool>>(cx);

    // ---- B: decode inputs
    let inputs: Vec<String> = seqs(&decode_alphabet(), 3).into_iter().map(|v| v.concat()).collect();
    let mut oalpha = decode_alphabet();
    oalpha.extend(["M", "Q", "A", "w", "g"]);
    let oinputs: Vec<String> = seqs(&oalpha, 3).into_iter().map(|v| v.concat()).collect();
    macro_rules! dec {
        ($($t:ty),*) => {$( decode_inputs::<$t>(cx, &inputs); )*};
    }
    macro_rules! odec {
        ($($t:ty),*) => {$( decode_inputs::<OpaqueCursor<$t>>(cx, &oinputs); )*};
    }
    dec!(i8, u8, i16, u16, i32, u32, i64, u64, i128, u128, isize, usize, f32, f64, char, bool, String, ID);
    odec!(Key, i32, u64, f64, bool, String, (), Vec<Option<bool>>, Option<Option<bool>>, Option<i32>, En);

    // ---- C: query / query_with
    query_product::<i32>(cx, vec![5, -3], &["x", ""]);
    query_product::<usize>(cx, vec![0, usize::MAX], &["-1", "1.0"]);
    query_product::<i128>(cx, vec![i128::MIN, i128::MAX], &["170141183460469231731687303715884105728", " 1"]);
    query_product::<f64>(cx, vec![-0.0, 5e-324], &["0x1", "1,5"]);
    query_product::<char>(cx, vec!['a', '😀'], &["ab", ""]);
    query_product::<bool>(cx, vec![true, false], &["True", "1"]);
    query_product::<String>(cx, vec!["".to_string(), "a\"\\\né".to_string()], &[]);
    query_product::<ID>(cx, vec![ID("".to_string()), ID("a\"\\\né".to_string())], &[]);
    query_product::<OpaqueCursor<Key>>(cx, vec![OpaqueCursor(key_menu()[0].clone()), OpaqueCursor(key_menu()[35].clone())], &["!!", "MQ"]);

    // ---- D: executed connections
    exec_part::<usize>(cx);
    exec_part::<i128>(cx);
    exec_part::<f64>(cx);
    exec_part::<char>(cx);
    exec_part::<String>(cx);
    exec_part::<ID>(cx);
    exec_part::<OpaqueCursor<Key>>(cx);
    exec_part::<OpaqueCursor<Vec<Option<bool>>>>(cx);

    cx.exhaustive(true);
    cx.extra(
        "complete_domains",
        json!(if thorough { "i8 u8 i16 u16 i32 u32 char bool f32(all 2^32 bit patterns)" } else { "i8 u8 i16 u16 char bool" }),
    );
}

// ---------------------------------------------------------------------------
// replay
// ---------------------------------------------------------------------------

macro_rules! by_name {
    ($name:expr; [$($t:ty),* $(,)?]; $T:ident => $body:expr) => {{
        let mut out: Option<String> = None;
        $( if out.is_none() && $name == <$t as Cur>::name() { type $T = $t; out = Some($body); } )*
        out
    }};
}

fn replay_rt<C: Cur>(v: &J) -> String
where
    C::Error: Display,
{
    match C::unshow(v) {
        Some(x) => {
            let s = x.encode_cursor();
            match C::decode_cursor(&s) {
                Ok(y) => format!("{}: {} encodes to {s:?}, decodes to {} (same: {})", C::name(), C::show(&x), C::show(&y), C::same(&x, &y)),
                Err(e) => format!("{}: {} encodes to {s:?}, decode error: {e}", C::name(), C::show(&x)),
            }
        }
        None => format!("{}: cannot rebuild the value from {v}", C::name()),
    }
}
fn replay_opaque<T: Payload>() -> String {
    let mut lines = Vec::new();
    for x in T::menu() {
        let x = OpaqueCursor(x);
        let s = x.encode_cursor();
        let r = match <OpaqueCursor<T>>::decode_cursor(&s) {
            Ok(y) if x.0.same(&y.0) => continue,
            Ok(y) => format!("decodes to {:?}", y.0),
            Err(e) => format!("decode error: {e}"),
        };
        lines.push(format!("OpaqueCursor<{}>({:?}) encodes to {s:?}: {r}", T::tname(), x.0));
    }
    if lines.is_empty() {
        format!("OpaqueCursor<{}>: every menu value round-trips", T::tname())
    } else {
        lines.join("\n     ")
    }
}

pub fn replay(case: &J) -> String {
    let ty = case["type"].as_str().unwrap_or("");
    let out = match case["part"].as_str().unwrap_or("") {
        "roundtrip" => by_name!(ty; [i8, u8, i16, u16, i32, u32, i64, u64, i128, u128, isize, usize, f32, f64, char, bool, String, ID]; T => replay_rt::<T>(&case["value"])).or_else(|| {
            macro_rules! op {
                ($($t:ty),*) => {{
                    let mut o = None;
                    $( if o.is_none() && ty == <OpaqueCursor<$t> as Cur>::name() { o = Some(replay_opaque::<$t>()); } )*
                    o
                }};
            }
            op!(
                Key, En, UnitS, NewT, Pos, (), bool, char, String, i32, i64, u64, i128, u128, f32, f64, Option<f64>, Vec<i8>, Vec<u8>, Vec<Option<bool>>,
                Option<i32>, Option<String>, Option<Option<bool>>, Option<()>, Option<En>, (i8, String, bool), ((i8, i8), Option<(bool,)>), Vec<Key>,
                BTreeMap<String, i8>, BTreeMap<i32, bool>, BTreeMap<(i8, i8), bool>
            )
        }),
        "decode" => {
            let s = case["input"].as_str().unwrap_or("");
            by_name!(ty; [i8, u8, i16, u16, i32, u32, i64, u64, i128, u128, isize, usize, f32, f64, char, bool, String, ID,
                OpaqueCursor<Key>, OpaqueCursor<i32>, OpaqueCursor<u64>, OpaqueCursor<f64>, OpaqueCursor<bool>, OpaqueCursor<String>, OpaqueCursor<()>,
                OpaqueCursor<Vec<Option<bool>>>, OpaqueCursor<Option<Option<bool>>>, OpaqueCursor<Option<i32>>, OpaqueCursor<En>];
                T => format!("{}::decode_cursor({s:?}): {:?}", ty, agv_engine::catch_quiet(|| decode_one::<T>(s))))
        }
        "query" => {
            let api = case["api"].as_str().unwrap_or("query_with").to_string();
            let a = case["after"].as_str().map(|s| s.to_string());
            let b = case["before"].as_str().map(|s| s.to_string());
            let f = case["first"].as_i64().map(|x| x as i32);
            let l = case["last"].as_i64().map(|x| x as i32);
            let ok = case["closure_ok"].as_bool().unwrap_or(true);
            by_name!(ty; [i32, usize, i128, f64, char, bool, String, ID, OpaqueCursor<Key>]; T => {
                let o = run_query::<T>(&api, a.clone(), b.clone(), f, l, ok);
                let calls: Vec<String> = o.calls.iter().map(|(a, b, f, l)| format!("(after={:?}, before={:?}, first={f:?}, last={l:?})", a.as_ref().map(T::show), b.as_ref().map(T::show))).collect();
                format!("{api}<{ty}>(after={a:?}, before={b:?}, first={f:?}, last={l:?}) -> ok={:?}; closure calls: {calls:?}", o.result)
            })
        }
        "execute" => {
            let field = case["field"].as_str().unwrap_or("en").to_string();
            let ids: Vec<i32> = case["ids"].as_array().map(|a| a.iter().filter_map(|x| x.as_i64().map(|x| x as i32)).collect()).unwrap_or_default();
            by_name!(ty; [usize, i128, f64, char, String, ID, OpaqueCursor<Key>, OpaqueCursor<Vec<Option<bool>>>]; T => {
                let schema = Schema::build(Q::<T>(PhantomData), EmptyMutation, EmptySubscription).finish();
                match exec_one::<T>(&schema, &field, &ids) {
                    Ok(got) => format!("got {got}; discrepancies: {:?}", judge_exec::<T>(&got, &ids)),
                    Err(e) => format!("execution failed: {e}"),
                }
            })
        }
        _ => None,
    };
    out.unwrap_or_else(|| format!("no single-case replayer for {case}"))
}

fn main() {
    agv_engine::driver::main("C32", "exploration", run, Some(replay))
}
