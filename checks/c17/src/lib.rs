//! Shared by C17 and C18: the derive-built schema family and the rich schema model.
pub mod fam;
pub mod model;
