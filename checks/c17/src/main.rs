//! C17 — exported SDL is valid and describes exactly the schema.
//!
//! Space: (a) the derive-built family `fam` (every definition kind + one annotated
//! item per alphabet symbol and slot kind) and S1, (b) dynamic schemas generated
//! from a reference document whose text slots are filled with every string of
//! length ≤ 2 over {a, `"`, `\`, LF, U+001B, `"""`, `\"""`, é}, one slot at a
//! time (quick) / two slots (thorough), (c) the C02 interface-chain exemplar —
//! each under ALL 768 combinations of `SDLExportOptions` (8 switches × indent
//! width {0, 2, 4}); for two-symbol strings the quick tier uses the 32
//! combinations of the switches that decide how text is written.
//!
//! Oracle: the export parses under the reference parser and under the crate's own
//! `parse_schema`; the model of the parsed export equals the model of the schema
//! as defined (hand-written SDL for the derive family, the generating document
//! for dynamic schemas) on everything the statement lists.

use agv_c17::fam;
use agv_c17::model::{self, compare, parse_recovering, symbol_classes, CmpCfg, Diff, Model, Unparsed};
use agv_common::dynamic::{build_meta, const_value, Encoding, Meta};
use agv_engine::record::{Cx, Violation};
use agv_refgql::ast::*;
use agv_refgql::parse::parse_ts;
use async_graphql::SDLExportOptions;
use rayon::prelude::*;
use serde_json::{json, Value as J};
use std::collections::BTreeSet;
use std::sync::atomic::{AtomicU64, Ordering};
use std::sync::Mutex;

// ------------------------------------------------------------------------ options

#[derive(Clone, Copy, Debug, PartialEq, Eq, Hash)]
struct Opts {
    /// bit 0 sorted_fields, 1 sorted_arguments, 2 sorted_enum_items, 3 federation,
    /// 4 prefer_single_line_descriptions, 5 include_specified_by, 6 compose_directive, 7 use_space_ident
    bits: u32,
    /// indent width
    width: u8,
}
const WIDTHS: [u8; 3] = [0, 2, 4];
const SWITCHES: [&str; 8] = ["sorted_fields", "sorted_arguments", "sorted_enum_items", "federation", "prefer_single_line_descriptions", "include_specified_by", "compose_directive", "use_space_ident"];

impl Opts {
    fn all() -> Vec<Opts> {
        let mut v = Vec::new();
        for bits in 0..256u32 {
            for w in WIDTHS {
                v.push(Opts { bits, width: w });
            }
        }
        v
    }
    /// the combinations of the switches that decide how text is written
    /// (federation, single-line descriptions, specifiedBy, space indentation × width)
    fn text_relevant() -> Vec<Opts> {
        let mut v = Vec::new();
        for fed in [0, 1u32] {
            for single in [0, 1u32] {
                for spec in [0, 1u32] {
                    let base = fed << 3 | single << 4 | spec << 5;
                    v.push(Opts { bits: base, width: 2 });
                    for w in WIDTHS {
                        v.push(Opts { bits: base | 1 << 7, width: w });
                    }
                }
            }
        }
        v
    }
    fn has(&self, i: u32) -> bool {
        self.bits & (1 << i) != 0
    }
    fn federation(&self) -> bool {
        self.has(3)
    }
    fn single_line(&self) -> bool {
        self.has(4)
    }
    fn specified_by(&self) -> bool {
        self.has(5)
    }
    fn build(&self) -> SDLExportOptions {
        let mut o = SDLExportOptions::new();
        if self.has(0) {
            o = o.sorted_fields();
        }
        if self.has(1) {
            o = o.sorted_arguments();
        }
        if self.has(2) {
            o = o.sorted_enum_items();
        }
        if self.has(3) {
            o = o.federation();
        }
        if self.has(4) {
            o = o.prefer_single_line_descriptions();
        }
        if self.has(5) {
            o = o.include_specified_by();
        }
        if self.has(6) {
            o = o.compose_directive();
        }
        if self.has(7) {
            o = o.use_space_ident();
        }
        o.indent_width(self.width)
    }
    fn json(&self) -> J {
        json!({"switches": SWITCHES.iter().enumerate().filter(|(i, _)| self.has(*i as u32)).map(|(_, s)| *s).collect::<Vec<_>>(), "indent_width": self.width, "bits": self.bits})
    }
    fn from_json(j: &J) -> Opts {
        Opts { bits: j["bits"].as_u64().unwrap_or(0) as u32, width: j["indent_width"].as_u64().unwrap_or(2) as u8 }
    }
}

/// directive vocabulary the federation export may add to definitions
const FEDERATION_DIRECTIVES: &[&str] = &["key", "shareable", "inaccessible", "interfaceObject", "tag", "requiresScopes", "external", "requires", "provides", "override", "link", "composeDirective"];

// ------------------------------------------------------------------------- judging

struct Target<'a> {
    /// label of the schema (and slot filling) for the case record
    case: J,
    exp: &'a Model,
    /// the definition carries no descriptions (S1's hand-written SDL): do not compare them
    descriptions: bool,
    flavour: &'static str,
}

#[derive(Default)]
struct Counters {
    agree: AtomicU64,
    parse_ok: AtomicU64,
    equal_defs: AtomicU64,
    /// class + keys → number of cases (evidence: what was seen, known or not)
    census: std::sync::Mutex<std::collections::BTreeMap<String, u64>>,
}

fn features_of_def(exp: &Model, name: &str, keyword: &str, chunk: &str, o: &Opts) -> Vec<String> {
    // candidate causes inside one definition: every text slot that is not plain, and the
    // structural shapes the exporter treats specially
    let mut out: Vec<String> = Vec::new();
    let style = |t: &str| if o.single_line() && !t.contains('\n') { "single-line" } else { "block" };
    let mut text = |site: &str, t: &Option<String>, is_desc: bool| {
        if let Some(t) = t {
            let c = symbol_classes(t);
            if c != "plain" && c != "empty" {
                out.push(if is_desc { format!("{site}-description/{c}/{}", style(t)) } else { format!("{site}/{c}") });
            }
        }
    };
    fn applied_s(a: &[model::Applied]) -> Option<String> {
        let s: String = a.iter().flat_map(|d| d.args.iter().map(|(_, v)| model::value_strings(v))).collect();
        if s.is_empty() {
            None
        } else {
            Some(s)
        }
    }
    fn inputs(args: &[model::MInput], site: &str, text: &mut dyn FnMut(&str, &Option<String>, bool)) {
        for a in args {
            text(site, &a.desc, true);
            text(&format!("{site}-deprecation-reason"), &a.deprecated.clone().flatten(), false);
            text(&format!("{site}-default"), &a.default.as_ref().map(model::value_strings).filter(|s| !s.is_empty()), false);
            text(&format!("{site}-directive-argument"), &applied_s(&a.applied), false);
        }
    }
    if keyword == "directive" {
        if let Some(d) = exp.directives.get(name) {
            text("directive", &d.desc, true);
            inputs(&d.args, "directive-argument", &mut text);
        }
    } else if let Some(t) = exp.types.get(name) {
        text("type", &t.desc, true);
        text("specified-by-url", &t.specified_by.clone().filter(|_| o.specified_by()), false);
        text("type-directive-argument", &applied_s(&t.applied), false);
        for f in &t.fields {
            text("field", &f.desc, true);
            text("field-deprecation-reason", &f.deprecated.clone().flatten(), false);
            text("field-directive-argument", &applied_s(&f.applied), false);
            inputs(&f.args, "argument", &mut text);
        }
        inputs(&t.input_fields, "input-field", &mut text);
        for v in &t.values {
            text("enum-value", &v.desc, true);
            text("enum-value-deprecation-reason", &v.deprecated.clone().flatten(), false);
            text("enum-value-directive-argument", &applied_s(&v.applied), false);
        }
    }
    // structural shape the grammar forbids, read off the exported text itself
    if let Some(l) = chunk.lines().find(|l| l.starts_with("interface ") || l.starts_with("extend interface ")) {
        if let (Some(at), Some(im)) = (l.find('@'), l.find(" implements ")) {
            if at < im {
                out.push("interface-directive-before-implements".into());
            }
        }
    }
    out.sort();
    out.dedup();
    out
}

fn diff_class(d: &Diff) -> String {
    format!("{}-differs", d.aspect).replace("type-missing-differs", "type-missing").replace("type-unexpected-differs", "type-unexpected").replace("directive-missing-differs", "directive-definition-missing").replace("directive-unexpected-differs", "directive-definition-unexpected")
}

struct Verdict {
    /// (class, keys, detail)
    violations: Vec<(String, Vec<(&'static str, String)>, String)>,
    parsed_whole: bool,
    /// definitions of the expected model that were exported exactly
    equal_defs: u64,
}

fn judge_sdl(sdl: &str, exp: &Model, o: &Opts, descriptions: bool, flavour: &str) -> Verdict {
    let mut out = Vec::new();
    let (defs, bad, whole) = parse_recovering(sdl);
    let crate_verdict = agv_engine::catch_quiet(|| async_graphql_parser::parse_schema(sdl).map(|_| ()).map_err(|e| e.to_string()));
    let mut bad_names: BTreeSet<String> = BTreeSet::new();
    if let Some(w) = &whole {
        for Unparsed { name, keyword, error, text } in &bad {
            bad_names.insert(name.clone());
            let feats = features_of_def(exp, name, keyword, text, o);
            let cause = if feats.is_empty() { "none-identified".to_string() } else { feats.join(",") };
            let shown: String = text.chars().take(400).collect();
            out.push((
                "definition-not-parsable".to_string(),
                vec![("cause", cause), ("definition", keyword.clone())],
                format!("the export is not a valid type-system document ({w}); definition `{keyword} {name}` does not parse on its own either: {error}\n{shown}\ncrate parser on the whole document: {}", match &crate_verdict { Ok(Ok(())) => "accepts".to_string(), Ok(Err(e)) => format!("rejects ({})", e.split_whitespace().take(12).collect::<Vec<_>>().join(" ")), Err(p) => format!("panics ({p})") }),
            ));
        }
        if bad.is_empty() {
            out.push(("document-not-parsable".to_string(), vec![("cause", "unlocated".into())], format!("the export does not parse ({w}) although every chunk does")));
        }
    } else {
        match &crate_verdict {
            Ok(Ok(())) => {}
            Ok(Err(e)) => out.push(("rejected-by-parse_schema".to_string(), vec![("cause", "reference-accepts".into())], format!("the reference parser accepts the export, async_graphql_parser::parse_schema rejects it: {e}"))),
            Err(p) => out.push(("panic".to_string(), vec![("where", "parse_schema".into())], format!("parse_schema panicked: {p}"))),
        }
    }
    let got = match Model::from_defs(&defs) {
        Ok(m) => m,
        Err(e) => {
            out.push(("duplicate-definition".to_string(), vec![("what", e.clone())], format!("the export defines something twice: {e}")));
            return Verdict { violations: out, parsed_whole: whole.is_none(), equal_defs: 0 };
        }
    };
    // what the chosen mode documents it keeps / omits
    let mut skip: BTreeSet<String> = bad_names.clone();
    let _ = &mut skip;
    let mut cfg = CmpCfg::default();
    cfg.specified_by = o.specified_by();
    cfg.descriptions = descriptions;
    let roots = exp.root_names();
    if o.federation() {
        // federation SDL: no schema definition; the Subscription root is omitted (unless
        // enable_subscription_in_federation); federation directives may be added
        cfg.roots = false;
        cfg.ignore_applied = FEDERATION_DIRECTIVES;
        if let Some(s) = &roots.subscription {
            skip.insert(s.clone());
        }
    }
    let mut differing: BTreeSet<String> = bad_names.clone();
    for d in compare(exp, &got, &cfg, &skip) {
        if (d.aspect == "directive-missing") && bad_names.contains(d.path.trim_start_matches('@')) {
            continue;
        }
        differing.insert(d.path.split('.').next().unwrap_or("").trim_start_matches('@').to_string());
        let mut keys: Vec<(&'static str, String)> = vec![("site", d.site.to_string())];
        if d.text.is_none() {
            // structural difference: pin the flavour and the kind of the definition
            keys.push(("flavour", flavour.to_string()));
            let base = d.path.split('.').next().unwrap_or("");
            keys.push(("kind", exp.types.get(base).map(|t| t.kind.word()).unwrap_or(if base.starts_with('@') { "DIRECTIVE" } else { "-" }).to_string()));
        }
        if let Some(t) = &d.text {
            keys.push(("chars", symbol_classes(t)));
            if d.aspect == "description" {
                keys.push(("style", if o.single_line() && !t.contains('\n') { "single-line" } else { "block" }.to_string()));
            }
        }
        if d.aspect == "roots" || d.aspect == "type-missing" || d.aspect == "type-unexpected" {
            keys.push(("mode", if o.federation() { "federation" } else { "plain" }.to_string()));
        }
        out.push((diff_class(&d), keys, format!("{} of {} `{}`: defined {} — exported {}", d.aspect, d.site, d.path, d.expected, d.got)));
    }
    let total = exp.types.keys().filter(|n| !model::BUILTIN_SCALARS.contains(&n.as_str())).count() + exp.directives.len();
    let equal_defs = total.saturating_sub(differing.len()) as u64;
    Verdict { violations: out, parsed_whole: whole.is_none(), equal_defs }
}

/// Judge one export and feed the verdict to `cx`; returns the violation signatures.
fn report(cx: &Cx, t: &Target, o: &Opts, sdl: Result<String, String>, cnt: &Counters) -> Vec<String> {
    cx.eval();
    let mut case = t.case.clone();
    case["options"] = o.json();
    let sdl = match sdl {
        Ok(s) => s,
        Err(p) => {
            cx.violation(Violation::new("panic", format!("sdl_with_options panicked: {p}"), case).key("where", "export"));
            return vec!["panic".into()];
        }
    };
    let v = judge_sdl(&sdl, t.exp, o, t.descriptions, t.flavour);
    cnt.equal_defs.fetch_add(v.equal_defs, Ordering::Relaxed);
    if v.parsed_whole {
        cnt.parse_ok.fetch_add(1, Ordering::Relaxed);
    }
    if v.violations.is_empty() {
        cnt.agree.fetch_add(1, Ordering::Relaxed);
    }
    {
        let mut g = cnt.census.lock().unwrap();
        for (class, keys, _) in &v.violations {
            *g.entry(format!("{class} {}", keys.iter().map(|(k, v)| format!("{k}={v}")).collect::<Vec<_>>().join(" "))).or_insert(0) += 1;
        }
    }
    let sigs: Vec<String> = v.violations.iter().map(|(c, k, d)| format!("{c}|{k:?}|{d}")).collect();
    for (class, keys, detail) in v.violations {
        let mut viol = Violation::new(class, detail, case.clone());
        for (k, val) in keys {
            viol = viol.key(k, val);
        }
        cx.violation(viol);
    }
    sigs
}

// ------------------------------------------------------------------ dynamic family

/// The generating document of the dynamic exemplar: every definition kind, every
/// slot kind. All quoted strings are text slots.
const DYN_SDL: &str = r#"
"dq" type Query {
  "df" node("da" id: ID! = "sv" @note(v: "ra")): Node @deprecated(reason: "rf")
  items(first: Int = 3, kinds: [String!] = ["sl"], filter: Filter = {text: "so", n: 1}, old: Int @deprecated(reason: "rg")): [Item!]! @note(v: "rf")
  pick(p: Pick, c: Color = RED): Thing
  stamp: Stamp
}
"di" interface Node @note(v: "ri") { "dif" id: ID! @deprecated(reason: "rif") }
"dj" interface Named implements Node @note(v: "rj") { id: ID!  name("dja" upper: Boolean = false): String }
"do" type Item implements Named & Node @note(v: "ro") { id: ID!  name(upper: Boolean = false): String  color: Color }
type Other implements Node { id: ID! }
"du" union Thing @note(v: "ru") = Item | Other
"de" enum Color @note(v: "re") { "dv" RED @deprecated(reason: "rv") @note(v: "rw")  GREEN @deprecated  BLUE }
"dn" input Filter @note(v: "rn") { "dnf" text: String = "sf" @deprecated(reason: "rnf") @note(v: "rnt")  n: Int = 1  tags: [String] = ["st", null] }
"dp" input Pick @oneOf { a: Int  b: String }
"ds" scalar Stamp @specifiedBy(url: "su") @note(v: "rs")
"#;

const CHAIN_SDL: &str = r#"
type Query { i: I  j: J  k: K!  u: U  li: [I!]  e: E  ev: Even  a: Int! }
interface I { a: Int! }
interface J implements I { a: Int!  b: Int }
type K implements J & I { a: Int!  b: Int  c: Int  e: E  next: I }
type L implements I { a: Int!  d: Int }
type M { m: Int  k: K }
union U = K | L | M
enum E { X Y }
scalar Even
"#;

/// Visit every text slot of a document in a fixed order.
fn visit_slots(doc: &mut TsDoc, f: &mut dyn FnMut(&'static str, String, &mut String)) {
    fn in_value(v: &mut Value, kind: &'static str, path: &str, f: &mut dyn FnMut(&'static str, String, &mut String)) {
        match v {
            Value::Str(s) => f(kind, path.to_string(), s),
            Value::List(l) => l.iter_mut().enumerate().for_each(|(i, x)| in_value(&mut x.v, kind, &format!("{path}[{i}]"), f)),
            Value::Object(o) => o.iter_mut().for_each(|(k, x)| in_value(&mut x.v, kind, &format!("{path}.{}", k.s), f)),
            _ => {}
        }
    }
    fn dirs(ds: &mut [Directive], site: &'static str, path: &str, f: &mut dyn FnMut(&'static str, String, &mut String)) {
        for d in ds {
            let kind: &'static str = match (d.name.s.as_str(), site) {
                ("deprecated", "field") => "field-deprecation-reason",
                ("deprecated", "argument") => "argument-deprecation-reason",
                ("deprecated", "enum-value") => "enum-value-deprecation-reason",
                ("deprecated", "input-field") => "input-field-deprecation-reason",
                ("specifiedBy", _) => "specified-by-url",
                (_, "type") => "type-directive-argument",
                (_, "field") => "field-directive-argument",
                (_, "argument") => "argument-directive-argument",
                (_, "enum-value") => "enum-value-directive-argument",
                (_, "input-field") => "input-field-directive-argument",
                _ => "directive-argument",
            };
            let dn = d.name.s.clone();
            for (k, v) in d.args.iter_mut() {
                in_value(&mut v.v, kind, &format!("{path}@{dn}.{}", k.s), f);
            }
        }
    }
    fn input(a: &mut InputValueDef, site: &'static str, path: &str, f: &mut dyn FnMut(&'static str, String, &mut String)) {
        let p = format!("{path}.{}", a.name.s);
        if let Some(d) = a.desc.as_mut() {
            f(if site == "argument" { "argument-description" } else { "input-field-description" }, p.clone(), d);
        }
        if let Some(v) = a.default.as_mut() {
            in_value(&mut v.v, if site == "argument" { "argument-default" } else { "input-field-default" }, &format!("{p}="), f);
        }
        dirs(&mut a.directives, site, &p, f);
    }
    for d in doc.defs.iter_mut() {
        let TsDef::Type(td) = d else { continue };
        let n = td.name.s.clone();
        if let Some(d) = td.desc.as_mut() {
            f("type-description", n.clone(), d);
        }
        dirs(&mut td.directives, "type", &n, f);
        match &mut td.kind {
            TypeDefKind::Object { fields, .. } | TypeDefKind::Interface { fields, .. } => {
                for fd in fields.iter_mut() {
                    let p = format!("{n}.{}", fd.name.s);
                    if let Some(d) = fd.desc.as_mut() {
                        f("field-description", p.clone(), d);
                    }
                    for a in fd.args.iter_mut() {
                        input(a, "argument", &p, f);
                    }
                    dirs(&mut fd.directives, "field", &p, f);
                }
            }
            TypeDefKind::Enum { values } => {
                for v in values.iter_mut() {
                    let p = format!("{n}.{}", v.name.s);
                    if let Some(d) = v.desc.as_mut() {
                        f("enum-value-description", p.clone(), d);
                    }
                    dirs(&mut v.directives, "enum-value", &p, f);
                }
            }
            TypeDefKind::Input { fields } => {
                for a in fields.iter_mut() {
                    input(a, "input-field", &n, f);
                }
            }
            _ => {}
        }
    }
}

#[derive(Clone, Debug)]
struct Slot {
    kind: &'static str,
    path: String,
}

fn slots_of(doc: &TsDoc) -> Vec<Slot> {
    let mut d = doc.clone();
    let mut v = Vec::new();
    visit_slots(&mut d, &mut |kind, path, _| v.push(Slot { kind, path }));
    v
}

fn fill(doc: &TsDoc, fills: &[(usize, &str)]) -> TsDoc {
    let mut d = doc.clone();
    let mut i = 0;
    visit_slots(&mut d, &mut |_, _, s| {
        if let Some((_, t)) = fills.iter().find(|(k, _)| *k == i) {
            *s = t.to_string();
        }
        i += 1;
    });
    d
}

/// descriptive metadata of a document for the dynamic twin builder
fn meta_of(doc: &TsDoc) -> Meta {
    let mut m = Meta { describe: true, ..Default::default() };
    let mut add = |path: String, ds: &[Directive]| {
        let v: Vec<(String, Vec<(String, async_graphql::Value)>)> =
            ds.iter().filter(|d| !["deprecated", "specifiedBy", "oneOf"].contains(&d.name.s.as_str())).map(|d| (d.name.s.clone(), d.args.iter().map(|(k, v)| (k.s.clone(), const_value(&v.v))).collect())).collect();
        if !v.is_empty() {
            m.applied.insert(path, v);
        }
    };
    let mut spec = Vec::new();
    for d in &doc.defs {
        let TsDef::Type(td) = d else { continue };
        let n = td.name.s.clone();
        add(n.clone(), &td.directives);
        if let Some(u) = td.directives.iter().find(|d| d.name.s == "specifiedBy").and_then(|d| d.args.iter().find(|(k, _)| k.s == "url")).and_then(|(_, v)| if let Value::Str(s) = &v.v { Some(s.clone()) } else { None }) {
            spec.push((n.clone(), u));
        }
        match &td.kind {
            TypeDefKind::Object { fields, .. } | TypeDefKind::Interface { fields, .. } => {
                for f in fields {
                    add(format!("{n}.{}", f.name.s), &f.directives);
                    for a in &f.args {
                        add(format!("{n}.{}.{}", f.name.s, a.name.s), &a.directives);
                    }
                }
            }
            TypeDefKind::Enum { values } => {
                for v in values {
                    add(format!("{n}.{}", v.name.s), &v.directives);
                }
            }
            TypeDefKind::Input { fields } => {
                for a in fields {
                    add(format!("{n}.{}", a.name.s), &a.directives);
                }
            }
            _ => {}
        }
    }
    m.specified_by = spec.into_iter().collect();
    m
}

fn build_dynamic(doc: &TsDoc) -> Result<(async_graphql::dynamic::Schema, Model), String> {
    let ir = agv_refgql::schema::Schema::from_doc(doc)?;
    let exp = Model::from_defs(&doc.defs)?;
    let schema = build_meta(&ir, Encoding::default(), &meta_of(doc), |b| b)?;
    Ok((schema, exp))
}

const ALPHABET: [&str; 8] = ["a", "\"", "\\", "\n", "\u{1b}", "\"\"\"", "\\\"\"\"", "é"];

fn strings(max_len: usize) -> Vec<String> {
    let mut v = vec![String::new()];
    let mut last = vec![String::new()];
    for _ in 0..max_len {
        let mut next = Vec::new();
        for p in &last {
            for s in ALPHABET {
                next.push(format!("{p}{s}"));
            }
        }
        v.extend(next.iter().cloned());
        last = next;
    }
    v.sort();
    v.dedup(); // `"` `"` `"` = `"""` etc.: the same string reached twice counts once
    v
}

// ---------------------------------------------------------------------------- run

fn run(cx: &Cx) {
    if let Err(e) = agv_c17::model::self_test() {
        return cx.machinery_error(e);
    }
    let quick = cx.quick();
    let all = Opts::all();
    let relevant = Opts::text_relevant();
    let cnt = Counters::default();
    let evals_static = AtomicU64::new(0);

    // (a) derive family and S1 under every option combination
    let fam_exp = match Model::from_sdl(&fam::fam_sdl()) {
        Ok(m) => m,
        Err(e) => return cx.machinery_error(format!("hand-written SDL of the derive family: {e}")),
    };
    let s1_exp = match Model::from_sdl(agv_common::s1::SDL) {
        Ok(m) => m,
        Err(e) => return cx.machinery_error(format!("S1 SDL: {e}")),
    };
    let fam_schema = fam::fam();
    let s1_schema = agv_common::s1::schema();
    all.par_iter().for_each(|o| {
        let t = Target { case: json!({"schema": "fam (derive family)"}), exp: &fam_exp, descriptions: true, flavour: "static" };
        report(cx, &t, o, agv_engine::catch_quiet(|| fam_schema.sdl_with_options(o.build())), &cnt);
        let t = Target { case: json!({"schema": "S1"}), exp: &s1_exp, descriptions: false, flavour: "static" };
        report(cx, &t, o, agv_engine::catch_quiet(|| s1_schema.sdl_with_options(o.build())), &cnt);
        evals_static.fetch_add(2, Ordering::Relaxed);
        cx.nontrivial_count(2);
    });

    // (c) the interface chain of C02, dynamic, no text
    let chain_doc = parse_ts(CHAIN_SDL).expect("chain SDL");
    match build_dynamic(&chain_doc) {
        Ok((schema, exp)) => {
            all.par_iter().for_each(|o| {
                let t = Target { case: json!({"schema": "dynamic chain (C02 exemplar)"}), exp: &exp, descriptions: true, flavour: "dynamic" };
                report(cx, &t, o, agv_engine::catch_quiet(|| schema.sdl_with_options(o.build())), &cnt);
                cx.nontrivial_count(1);
            });
        }
        Err(e) => return cx.machinery_error(format!("chain exemplar does not build: {e}")),
    }

    // (b) dynamic exemplar × slot × string × options
    let base = match parse_ts(DYN_SDL) {
        Ok(d) => d,
        Err(e) => return cx.machinery_error(format!("DYN_SDL: {}:{} {}", e.pos.line, e.pos.col, e.msg)),
    };
    if let Err(e) = build_dynamic(&base) {
        return cx.machinery_error(format!("dynamic exemplar does not build: {e}"));
    }
    let slots = slots_of(&base);
    let s1 = strings(1);
    let s2: Vec<String> = strings(2).into_iter().filter(|s| !s1.contains(s)).collect();
    // phase 0: the unfilled exemplar under every option — its discrepancies are the baseline
    let (base_schema, base_exp) = build_dynamic(&base).expect("checked above");
    let base_sigs: std::collections::HashMap<Opts, BTreeSet<String>> = all
        .par_iter()
        .map(|o| {
            let t = Target { case: json!({"schema": "dynamic exemplar", "fills": []}), exp: &base_exp, descriptions: true, flavour: "dynamic" };
            let sigs = report(cx, &t, o, agv_engine::catch_quiet(|| base_schema.sdl_with_options(o.build())), &cnt);
            cx.nontrivial_count(1);
            (*o, sigs.into_iter().collect())
        })
        .collect();
    // phase 1: one slot at a time
    let mut jobs: Vec<(usize, String, bool)> = Vec::new(); // (slot, text, all options?)
    for i in 0..slots.len() {
        for s in s1.iter().chain(s2.iter()) {
            jobs.push((i, s.clone(), !quick));
        }
    }
    let build_failures = AtomicU64::new(0);
    // (slot, text, options) whose export shows a discrepancy the unfilled exemplar does not
    let dirty: Mutex<std::collections::HashSet<(usize, String, Opts)>> = Mutex::new(Default::default());
    let run_job = |fills: &[(usize, String)], os: &[Opts], record_dirty: bool| {
        let fr: Vec<(usize, &str)> = fills.iter().map(|(i, s)| (*i, s.as_str())).collect();
        let doc = fill(&base, &fr);
        let case = json!({"schema": "dynamic exemplar", "fills": fills.iter().map(|(i, s)| json!({"slot": i, "kind": slots[*i].kind, "path": slots[*i].path, "text": s})).collect::<Vec<_>>()});
        let (schema, exp) = match build_dynamic(&doc) {
            Ok(x) => x,
            Err(e) => {
                build_failures.fetch_add(1, Ordering::Relaxed);
                cx.machinery_error(format!("dynamic exemplar with {case} does not build: {e}"));
                return;
            }
        };
        let t = Target { case, exp: &exp, descriptions: true, flavour: "dynamic" };
        for o in os {
            let sigs = report(cx, &t, o, agv_engine::catch_quiet(|| schema.sdl_with_options(o.build())), &cnt);
            if record_dirty && sigs.iter().any(|x| !base_sigs[o].contains(x)) {
                dirty.lock().unwrap().insert((fills[0].0, fills[0].1.clone(), *o));
            }
        }
        cx.nontrivial_count(os.len() as u64);
        if !os.is_empty() {
            let h = agv_engine::h64(&format!("{fills:?}"));
            cx.sample_with(h, || json!({"fills": t.case["fills"], "options": os[os.len() / 2].json(), "sdl_head": schema.sdl_with_options(os[os.len() / 2].build()).chars().take(300).collect::<String>()}));
        }
    };
    jobs.par_iter().for_each(|(i, s, full)| run_job(&[(*i, s.clone())], if *full { &all } else { &relevant }, true));
    // phase 2 (thorough): two slots at a time. A pair is judged only under the options for
    // which both of its single-slot cases are clean: where one slot already breaks the export
    // on its own, that single case is the (smaller) counterexample and anything else seen in
    // the pair may be a knock-on effect of it (two stray `"""` can even re-balance each other).
    let mut pairs: Vec<(usize, String, usize, String)> = Vec::new();
    if !quick {
        for i in 0..slots.len() {
            for j in (i + 1)..slots.len() {
                for a in s1.iter().filter(|a| !a.is_empty()) {
                    for b in s1.iter().filter(|b| !b.is_empty()) {
                        pairs.push((i, a.clone(), j, b.clone()));
                    }
                }
            }
        }
    }
    let dirty_set = dirty.lock().unwrap().clone();
    let dominated = AtomicU64::new(0);
    pairs.par_iter().for_each(|(i, a, j, b)| {
        let os: Vec<Opts> = relevant.iter().filter(|o| !dirty_set.contains(&(*i, a.clone(), **o)) && !dirty_set.contains(&(*j, b.clone(), **o))).cloned().collect();
        dominated.fetch_add((relevant.len() - os.len()) as u64, Ordering::Relaxed);
        if !os.is_empty() {
            run_job(&[(*i, a.clone()), (*j, b.clone())], &os, false);
        }
    });
    let n_jobs = jobs.len() + pairs.len() + 1;

    // vacuity guard on the finest grain (a defect that spoils every export as a whole must
    // still come out as a violation, not as a machinery problem)
    if cnt.equal_defs.load(Ordering::Relaxed) == 0 {
        cx.machinery_error("not a single definition was exported as defined: the oracle is vacuous or systematically wrong");
    }
    cx.rule(&format!(
        "case = (schema, text-slot filling, SDLExportOptions). Schemas: the derive family (every definition kind; 8 symbol classes × 13 slot kinds of fixed annotated items), S1, the dynamic interface chain, and the dynamic exemplar with {} text slots (type/field/argument/enum-value/input-field descriptions, deprecation reasons, string defaults incl. inside lists and objects, directive-application strings at 10 locations, specifiedBy URL). Strings: all {} strings of length ≤ 1 and all {} further strings of length 2 over the 8-symbol alphabet, one slot at a time{}. Options: all {} combinations (8 switches × indent width {{0,2,4}}) for the static schemas, the chain and the unfilled exemplar{}; the {} combinations of federation × prefer_single_line × include_specified_by × (tab | space width 0/2/4) — the switches that decide how text is written; the others only reorder members or append federation links — otherwise. Non-trivial = every case (each is a distinct export judged by both parsers and the model comparison).",
        slots.len(),
        s1.len(),
        s2.len(),
        if quick { "" } else { "; all pairs of slots with non-empty strings of length 1 (judged under the options for which both single-slot cases are clean)" },
        all.len(),
        if quick { "" } else { " and every single-slot filling" },
        relevant.len()
    ));
    cx.exhaustive(true);
    cx.extra("option_combinations", json!(all.len()));
    cx.extra("text_slots", json!(slots.iter().map(|s| format!("{}:{}", s.kind, s.path)).collect::<Vec<_>>()));
    cx.extra("slot_fillings", json!(n_jobs));
    cx.extra("single_slot_cases_with_a_discrepancy_of_their_own", json!(dirty_set.len()));
    cx.extra("pair_cases_skipped_because_one_slot_alone_already_fails", json!(dominated.load(Ordering::Relaxed)));
    cx.extra("exports_parsing_as_a_whole", json!(cnt.parse_ok.load(Ordering::Relaxed)));
    cx.extra("exports_equal_to_definition", json!(cnt.agree.load(Ordering::Relaxed)));
    cx.extra("definitions_exported_exactly", json!(cnt.equal_defs.load(Ordering::Relaxed)));
    cx.extra("discrepancy_census", json!(*cnt.census.lock().unwrap()));
    cx.assume("a raw U+001B inside a string or block string is accepted when both parsers accept it (SourceCharacter of the October 2021 edition excludes it, the current draft admits every Unicode scalar value)");
    cx.assume("order of fields, arguments, enum values, interfaces, union members and directive locations is not compared (the sorted_* options change it by design)");
    cx.assume("federation mode is judged on what it keeps: the schema definition and the Subscription root are omitted by design, federation directives may be added; definitions of built-in directives are optional but must be correct when present");
}

fn replay(case: &J) -> String {
    let o = Opts::from_json(&case["options"]);
    let name = case["schema"].as_str().unwrap_or("");
    let (sdl, exp): (String, Model) = if name.starts_with("fam") {
        (fam::fam().sdl_with_options(o.build()), Model::from_sdl(&fam::fam_sdl()).unwrap())
    } else if name == "S1" {
        (agv_common::s1::schema().sdl_with_options(o.build()), Model::from_sdl(agv_common::s1::SDL).unwrap())
    } else {
        let base = if name.contains("chain") { parse_ts(CHAIN_SDL).unwrap() } else { parse_ts(DYN_SDL).unwrap() };
        let fills: Vec<(usize, String)> = case["fills"].as_array().map(|a| a.iter().map(|f| (f["slot"].as_u64().unwrap_or(0) as usize, f["text"].as_str().unwrap_or("").to_string())).collect()).unwrap_or_default();
        let fr: Vec<(usize, &str)> = fills.iter().map(|(i, s)| (*i, s.as_str())).collect();
        let doc = fill(&base, &fr);
        match build_dynamic(&doc) {
            Ok((s, e)) => (s.sdl_with_options(o.build()), e),
            Err(e) => return format!("does not build: {e}"),
        }
    };
    let v = judge_sdl(&sdl, &exp, &o, name != "S1", if name.starts_with("fam") || name == "S1" { "static" } else { "dynamic" });
    let mut out = format!("options {}\n", o.json());
    for (class, keys, detail) in &v.violations {
        out.push_str(&format!("  {class} {keys:?}: {detail}\n"));
    }
    if v.violations.is_empty() {
        out.push_str("  export equals the definition\n");
    }
    out.push_str("---- exported SDL ----\n");
    out.push_str(&sdl);
    out
}

fn main() {
    agv_engine::driver::main("C17", "exploration", run, Some(replay))
}
