//! A descriptive model of a GraphQL type system — exactly the elements the C17 /
//! C18 statements list: named types and kinds, fields, arguments, types, default
//! values, enum values, union members, implemented interfaces, deprecations and
//! reasons, descriptions, `specifiedBy` URLs, oneOf, directive definitions and
//! (for syntax / value checks) applied directives.
//!
//! Sources: a type-system document parsed by the *reference* parser
//! (`from_defs`), or introspection JSON (C18, `agv-c18::introspect`).

use agv_refgql::ast::*;
use agv_refgql::parse::parse_ts;
use std::collections::{BTreeMap, BTreeSet};

#[derive(Clone, Debug, PartialEq)]
pub struct Applied {
    pub name: String,
    pub args: Vec<(String, Value)>,
}

#[derive(Clone, Debug, PartialEq)]
pub struct MInput {
    pub name: String,
    pub desc: Option<String>,
    pub ty: Type,
    pub default: Option<Value>,
    pub deprecated: Option<Option<String>>,
    pub applied: Vec<Applied>,
}

#[derive(Clone, Debug, PartialEq)]
pub struct MField {
    pub name: String,
    pub desc: Option<String>,
    pub args: Vec<MInput>,
    pub ty: Type,
    pub deprecated: Option<Option<String>>,
    pub applied: Vec<Applied>,
}

#[derive(Clone, Debug, PartialEq)]
pub struct MEnumValue {
    pub name: String,
    pub desc: Option<String>,
    pub deprecated: Option<Option<String>>,
    pub applied: Vec<Applied>,
}

#[derive(Clone, Copy, Debug, PartialEq, Eq, PartialOrd, Ord)]
pub enum MKind {
    Scalar,
    Object,
    Interface,
    Union,
    Enum,
    Input,
}
impl MKind {
    pub fn word(self) -> &'static str {
        match self {
            MKind::Scalar => "SCALAR",
            MKind::Object => "OBJECT",
            MKind::Interface => "INTERFACE",
            MKind::Union => "UNION",
            MKind::Enum => "ENUM",
            MKind::Input => "INPUT_OBJECT",
        }
    }
}

#[derive(Clone, Debug, PartialEq)]
pub struct MType {
    pub name: String,
    pub kind: MKind,
    pub desc: Option<String>,
    pub specified_by: Option<String>,
    pub one_of: bool,
    pub interfaces: Vec<String>,
    pub fields: Vec<MField>,
    pub input_fields: Vec<MInput>,
    pub values: Vec<MEnumValue>,
    pub members: Vec<String>,
    pub applied: Vec<Applied>,
    /// written as `extend …` (federation export)
    pub extend: bool,
}

#[derive(Clone, Debug, PartialEq)]
pub struct MDirective {
    pub name: String,
    pub desc: Option<String>,
    pub args: Vec<MInput>,
    pub repeatable: bool,
    pub locations: Vec<String>,
}

#[derive(Clone, Debug, PartialEq, Default)]
pub struct Roots {
    pub query: String,
    pub mutation: Option<String>,
    pub subscription: Option<String>,
}

#[derive(Clone, Debug, PartialEq, Default)]
pub struct Model {
    pub types: BTreeMap<String, MType>,
    pub directives: BTreeMap<String, MDirective>,
    /// None when the document has no (non-extension) schema definition
    pub roots: Option<Roots>,
}

pub const BUILTIN_SCALARS: [&str; 5] = ["Int", "Float", "String", "Boolean", "ID"];
pub const BUILTIN_DIRECTIVES: [&str; 5] = ["skip", "include", "deprecated", "specifiedBy", "oneOf"];
/// directive applications that are modelled as attributes, not as `applied`
const ATTRIBUTE_DIRECTIVES: [&str; 3] = ["deprecated", "specifiedBy", "oneOf"];

fn str_arg(d: &Directive, name: &str) -> Option<String> {
    d.args.iter().find(|(k, _)| k.s == name).and_then(|(_, v)| if let Value::Str(s) = &v.v { Some(s.clone()) } else { None })
}
fn deprecated_of(ds: &[Directive]) -> Option<Option<String>> {
    ds.iter().find(|d| d.name.s == "deprecated").map(|d| str_arg(d, "reason"))
}
fn applied_of(ds: &[Directive]) -> Vec<Applied> {
    ds.iter().filter(|d| !ATTRIBUTE_DIRECTIVES.contains(&d.name.s.as_str())).map(|d| Applied { name: d.name.s.clone(), args: d.args.iter().map(|(k, v)| (k.s.clone(), v.v.clone())).collect() }).collect()
}
fn input_of(a: &InputValueDef) -> MInput {
    MInput { name: a.name.s.clone(), desc: a.desc.clone(), ty: a.ty.clone(), default: a.default.as_ref().map(|d| d.v.clone()), deprecated: deprecated_of(&a.directives), applied: applied_of(&a.directives) }
}
fn field_of(f: &FieldDef) -> MField {
    MField { name: f.name.s.clone(), desc: f.desc.clone(), args: f.args.iter().map(input_of).collect(), ty: f.ty.clone(), deprecated: deprecated_of(&f.directives), applied: applied_of(&f.directives) }
}

impl Model {
    /// Build from parsed definitions. Duplicate names are reported as errors
    /// (`extend` definitions count as the definition of their type: the federation
    /// export writes `extend type`).
    pub fn from_defs(defs: &[TsDef]) -> Result<Model, String> {
        let mut m = Model::default();
        for d in defs {
            match d {
                TsDef::Schema(sd) => {
                    if sd.extend {
                        continue;
                    }
                    let mut r = Roots::default();
                    for (k, n) in &sd.roots {
                        match k {
                            OpKind::Query => r.query = n.s.clone(),
                            OpKind::Mutation => r.mutation = Some(n.s.clone()),
                            OpKind::Subscription => r.subscription = Some(n.s.clone()),
                        }
                    }
                    if m.roots.replace(r).is_some() {
                        return Err("two schema definitions".into());
                    }
                }
                TsDef::Directive(dd) => {
                    let md = MDirective { name: dd.name.s.clone(), desc: dd.desc.clone(), args: dd.args.iter().map(input_of).collect(), repeatable: dd.repeatable, locations: dd.locations.iter().map(|l| l.s.clone()).collect() };
                    if m.directives.insert(md.name.clone(), md).is_some() {
                        return Err(format!("directive @{} defined twice", dd.name.s));
                    }
                }
                TsDef::Type(td) => {
                    let mut t = MType {
                        name: td.name.s.clone(),
                        kind: MKind::Scalar,
                        desc: td.desc.clone(),
                        specified_by: td.directives.iter().find(|d| d.name.s == "specifiedBy").and_then(|d| str_arg(d, "url")),
                        one_of: td.directives.iter().any(|d| d.name.s == "oneOf"),
                        interfaces: vec![],
                        fields: vec![],
                        input_fields: vec![],
                        values: vec![],
                        members: vec![],
                        applied: applied_of(&td.directives),
                        extend: td.extend,
                    };
                    match &td.kind {
                        TypeDefKind::Scalar => {}
                        TypeDefKind::Object { interfaces, fields } => {
                            t.kind = MKind::Object;
                            t.interfaces = interfaces.iter().map(|i| i.s.clone()).collect();
                            t.fields = fields.iter().map(field_of).collect();
                        }
                        TypeDefKind::Interface { interfaces, fields } => {
                            t.kind = MKind::Interface;
                            t.interfaces = interfaces.iter().map(|i| i.s.clone()).collect();
                            t.fields = fields.iter().map(field_of).collect();
                        }
                        TypeDefKind::Union { members } => {
                            t.kind = MKind::Union;
                            t.members = members.iter().map(|i| i.s.clone()).collect();
                        }
                        TypeDefKind::Enum { values } => {
                            t.kind = MKind::Enum;
                            t.values = values.iter().map(|v| MEnumValue { name: v.name.s.clone(), desc: v.desc.clone(), deprecated: deprecated_of(&v.directives), applied: applied_of(&v.directives) }).collect();
                        }
                        TypeDefKind::Input { fields } => {
                            t.kind = MKind::Input;
                            t.input_fields = fields.iter().map(input_of).collect();
                        }
                    }
                    if m.types.insert(t.name.clone(), t).is_some() {
                        return Err(format!("type {} defined twice", td.name.s));
                    }
                }
            }
        }
        Ok(m)
    }

    pub fn from_sdl(sdl: &str) -> Result<Model, String> {
        let doc = parse_ts(sdl).map_err(|e| format!("SDL parse error at {}:{}: {}", e.pos.line, e.pos.col, e.msg))?;
        Model::from_defs(&doc.defs)
    }

    /// Root operation type names (explicit schema definition, else the default names).
    pub fn root_names(&self) -> Roots {
        match &self.roots {
            Some(r) => r.clone(),
            None => Roots {
                query: "Query".into(),
                mutation: self.types.get("Mutation").filter(|t| t.kind == MKind::Object).map(|t| t.name.clone()),
                subscription: self.types.get("Subscription").filter(|t| t.kind == MKind::Object).map(|t| t.name.clone()),
            },
        }
    }

    /// transitive closure of declared interfaces
    pub fn all_interfaces(&self, n: &str) -> BTreeSet<String> {
        let mut out = BTreeSet::new();
        let mut stack = vec![n.to_string()];
        while let Some(t) = stack.pop() {
            if let Some(ty) = self.types.get(&t) {
                for i in &ty.interfaces {
                    if out.insert(i.clone()) {
                        stack.push(i.clone());
                    }
                }
            }
        }
        out
    }

    /// the object types an abstract type can be at run time (§4.2.4 possibleTypes)
    pub fn possible_types(&self, n: &str) -> BTreeSet<String> {
        match self.types.get(n) {
            Some(t) if t.kind == MKind::Union => t.members.iter().cloned().collect(),
            Some(t) if t.kind == MKind::Interface => self.types.values().filter(|o| o.kind == MKind::Object && self.all_interfaces(&o.name).contains(n)).map(|o| o.name.clone()).collect(),
            _ => BTreeSet::new(),
        }
    }
}

// ----------------------------------------------------------------- recovering parse

/// A group of source lines that could not be parsed as definitions.
#[derive(Clone, Debug, PartialEq)]
pub struct Unparsed {
    /// name after the first definition keyword found in the group ("" if none)
    pub name: String,
    pub keyword: String,
    pub error: String,
    pub text: String,
}

const DEF_KEYWORDS: [&str; 9] = ["type", "interface", "union", "enum", "input", "scalar", "directive", "schema", "extend"];

fn keyword_line(l: &str) -> Option<(String, String)> {
    let mut it = l.split(|c: char| c.is_whitespace() || c == '{' || c == '(' || c == '@').filter(|w| !w.is_empty());
    let mut kw = it.next()?;
    if !DEF_KEYWORDS.contains(&kw) {
        return None;
    }
    if kw == "extend" {
        kw = it.next()?;
    }
    let name = if kw == "directive" { l.split('@').nth(1).map(|r| r.chars().take_while(|c| c.is_ascii_alphanumeric() || *c == '_').collect::<String>()).unwrap_or_default() } else { it.next().unwrap_or("").to_string() };
    Some((kw.to_string(), name))
}

/// Parse a type-system document; when it does not parse as a whole, recover
/// definition by definition: candidate boundaries are the lines that start in
/// column 0 with a definition keyword or a quote; a candidate start whose text up
/// to one of the next boundaries parses is a definition, the others are collected
/// into `Unparsed` groups. Recovery can only *add* failures (a chunk that does not
/// parse on its own), never hide one.
pub fn parse_recovering(src: &str) -> (Vec<TsDef>, Vec<Unparsed>, Option<String>) {
    match parse_ts(src) {
        Ok(d) => return (d.defs, vec![], None),
        Err(e) => {
            let whole = format!("{}:{}: {}", e.pos.line, e.pos.col, e.msg);
            let lines: Vec<&str> = src.split_inclusive('\n').collect();
            let mut starts: Vec<usize> = Vec::new(); // line indexes
            for (i, l) in lines.iter().enumerate() {
                if l.starts_with('"') || keyword_line(l).is_some() && !l.starts_with(char::is_whitespace) {
                    starts.push(i);
                }
            }
            starts.push(lines.len());
            let text = |a: usize, b: usize| -> String { lines[a..b].concat() };
            let mut defs = Vec::new();
            let mut bad: Vec<Unparsed> = Vec::new();
            let mut cur_bad: Option<(usize, String)> = None;
            let mut k = 0;
            // anything before the first boundary
            if starts[0] > 0 && !text(0, starts[0]).trim().is_empty() {
                cur_bad = Some((0, "text before the first definition".into()));
            }
            let flush = |cur_bad: &mut Option<(usize, String)>, upto: usize, bad: &mut Vec<Unparsed>| {
                if let Some((from, error)) = cur_bad.take() {
                    let t = text(from, upto);
                    let (keyword, name) = t.lines().find_map(keyword_line).unwrap_or_default();
                    bad.push(Unparsed { name, keyword, error, text: t });
                }
            };
            while k + 1 < starts.len() {
                let a = starts[k];
                let mut ok = None;
                let mut first_err = None;
                for j in (k + 1)..starts.len().min(k + 10) {
                    match parse_ts(&text(a, starts[j])) {
                        Ok(d) => {
                            ok = Some((j, d));
                            break;
                        }
                        Err(e) => {
                            if first_err.is_none() {
                                first_err = Some(e.msg);
                            }
                        }
                    }
                }
                match ok {
                    Some((j, mut d)) => {
                        // a failed group without a definition keyword is a broken description:
                        // it belongs to the definition that follows it
                        let orphan = cur_bad.as_ref().map(|(from, _)| !lines[*from..a].iter().any(|l| keyword_line(l).is_some() && !l.starts_with(char::is_whitespace))).unwrap_or(false);
                        if orphan && !d.defs.is_empty() {
                            let (from, error) = cur_bad.take().unwrap();
                            let t = text(from, starts[j]);
                            let (keyword, name) = t.lines().filter(|l| !l.starts_with(char::is_whitespace)).find_map(keyword_line).unwrap_or_default();
                            bad.push(Unparsed { name, keyword, error, text: t });
                            d.defs.remove(0);
                        } else {
                            flush(&mut cur_bad, a, &mut bad);
                        }
                        defs.extend(d.defs);
                        k = j;
                    }
                    None => {
                        // a new group starts at a keyword line if the running group already saw one
                        let starts_def = keyword_line(lines[a]).is_some();
                        let seen_kw = cur_bad.as_ref().map(|(from, _)| lines[*from..a].iter().any(|l| keyword_line(l).is_some() && !l.starts_with(char::is_whitespace))).unwrap_or(false);
                        if cur_bad.is_some() && starts_def && seen_kw {
                            flush(&mut cur_bad, a, &mut bad);
                        }
                        if cur_bad.is_none() {
                            cur_bad = Some((a, first_err.unwrap_or_default()));
                        }
                        k += 1;
                    }
                }
            }
            flush(&mut cur_bad, lines.len(), &mut bad);
            (defs, bad, Some(whole))
        }
    }
}

// ---------------------------------------------------------------------- comparison

/// One difference between the expected and the observed model.
#[derive(Clone, Debug, PartialEq)]
pub struct Diff {
    /// what differs: `type-missing`, `type-unexpected`, `kind`, `description`, `deprecation`,
    /// `default-value`, `type-reference`, `field-set`, `argument-set`, `enum-value-set`,
    /// `input-field-set`, `union-members`, `implements`, `specified-by`, `one-of`,
    /// `directive-missing`, `directive-unexpected`, `directive-repeatable`,
    /// `directive-locations`, `applied-directives`, `roots`
    pub aspect: &'static str,
    /// kind of the element: type, field, argument, enum-value, input-field, directive, directive-argument, schema
    pub site: &'static str,
    /// dotted path of the element
    pub path: String,
    pub expected: String,
    pub got: String,
    /// the expected text when the aspect is textual (for symbol classification)
    pub text: Option<String>,
}

pub fn value_text(v: &Value) -> String {
    agv_refgql::print::value(v)
}

/// Values compared as values: numbers numerically, object fields as a set.
pub fn value_eq(a: &Value, b: &Value) -> bool {
    match (a, b) {
        (Value::Int(x), Value::Int(y)) => x.parse::<i128>().ok().zip(y.parse::<i128>().ok()).map(|(x, y)| x == y).unwrap_or(x == y),
        (Value::Int(x) | Value::Float(x), Value::Int(y) | Value::Float(y)) => x.parse::<f64>().ok().zip(y.parse::<f64>().ok()).map(|(x, y)| x == y).unwrap_or(false),
        (Value::Str(x), Value::Str(y)) => x == y,
        (Value::Bool(x), Value::Bool(y)) => x == y,
        (Value::Null, Value::Null) => true,
        (Value::Enum(x), Value::Enum(y)) => x == y,
        (Value::Var(x), Value::Var(y)) => x == y,
        (Value::List(x), Value::List(y)) => x.len() == y.len() && x.iter().zip(y).all(|(p, q)| value_eq(&p.v, &q.v)),
        (Value::Object(x), Value::Object(y)) => x.len() == y.len() && x.iter().all(|(k, v)| y.iter().filter(|(k2, _)| k2.s == k.s).count() == 1 && y.iter().any(|(k2, v2)| k2.s == k.s && value_eq(&v.v, &v2.v))),
        _ => false,
    }
}

fn opt_text(o: &Option<String>) -> String {
    match o {
        None => "(none)".into(),
        Some(s) => format!("{s:?}"),
    }
}
fn dep_text(d: &Option<Option<String>>) -> String {
    match d {
        None => "not deprecated".into(),
        Some(None) => "deprecated, no reason".into(),
        Some(Some(r)) => format!("deprecated, reason {r:?}"),
    }
}
fn applied_text(a: &[Applied]) -> String {
    a.iter().map(|d| format!("@{}({})", d.name, d.args.iter().map(|(k, v)| format!("{k}: {}", value_text(v))).collect::<Vec<_>>().join(", "))).collect::<Vec<_>>().join(" ")
}
fn applied_eq(a: &[Applied], b: &[Applied]) -> bool {
    a.len() == b.len()
        && a.iter().zip(b).all(|(x, y)| x.name == y.name && x.args.len() == y.args.len() && x.args.iter().all(|(k, v)| y.args.iter().any(|(k2, v2)| k == k2 && value_eq(v, v2))))
}
/// all string values inside applied directive arguments (for symbol classification)
fn applied_strings(a: &[Applied]) -> String {
    fn walk(v: &Value, out: &mut String) {
        match v {
            Value::Str(s) => out.push_str(s),
            Value::List(l) => l.iter().for_each(|x| walk(&x.v, out)),
            Value::Object(o) => o.iter().for_each(|(_, x)| walk(&x.v, out)),
            _ => {}
        }
    }
    let mut s = String::new();
    for d in a {
        for (_, v) in &d.args {
            walk(v, &mut s);
        }
    }
    s
}
pub fn value_strings(v: &Value) -> String {
    let mut s = String::new();
    fn walk(v: &Value, out: &mut String) {
        match v {
            Value::Str(s) => out.push_str(s),
            Value::List(l) => l.iter().for_each(|x| walk(&x.v, out)),
            Value::Object(o) => o.iter().for_each(|(_, x)| walk(&x.v, out)),
            _ => {}
        }
    }
    walk(v, &mut s);
    s
}

/// What a comparison covers.
#[derive(Clone, Copy, Debug)]
pub struct CmpCfg {
    /// compare applied (custom) directives
    pub applied: bool,
    /// compare `specifiedBy` URLs
    pub specified_by: bool,
    /// compare the root operation types
    pub roots: bool,
    /// compare directive definitions (custom ones must match exactly; built-in ones are optional in `got`)
    pub directives: bool,
    /// compare descriptions / deprecations of directive arguments
    pub directive_arg_meta: bool,
    /// compare default values (introspection renders them as strings: parsed by the caller)
    pub defaults: bool,
    /// directive applications to ignore in `got` (federation vocabulary)
    pub ignore_applied: &'static [&'static str],
    /// compare descriptions
    pub descriptions: bool,
}

impl Default for CmpCfg {
    fn default() -> Self {
        CmpCfg { applied: true, specified_by: true, roots: true, directives: true, directive_arg_meta: true, defaults: true, ignore_applied: &[], descriptions: true }
    }
}

struct Cmp<'a> {
    cfg: &'a CmpCfg,
    out: Vec<Diff>,
}

impl<'a> Cmp<'a> {
    fn push(&mut self, aspect: &'static str, site: &'static str, path: &str, expected: String, got: String, text: Option<String>) {
        self.out.push(Diff { aspect, site, path: path.to_string(), expected, got, text });
    }
    fn desc(&mut self, site: &'static str, path: &str, e: &Option<String>, g: &Option<String>) {
        if self.cfg.descriptions && e != g {
            self.push("description", site, path, opt_text(e), opt_text(g), Some(e.clone().or(g.clone()).unwrap_or_default()));
        }
    }
    fn dep(&mut self, site: &'static str, path: &str, e: &Option<Option<String>>, g: &Option<Option<String>>) {
        if e != g {
            let t = e.clone().flatten().or(g.clone().flatten()).unwrap_or_default();
            self.push("deprecation", site, path, dep_text(e), dep_text(g), Some(t));
        }
    }
    fn applied(&mut self, site: &'static str, path: &str, e: &[Applied], g: &[Applied]) {
        if !self.cfg.applied {
            return;
        }
        let g: Vec<Applied> = g.iter().filter(|d| !self.cfg.ignore_applied.contains(&d.name.as_str())).cloned().collect();
        if !applied_eq(e, &g) {
            self.push("applied-directives", site, path, applied_text(e), applied_text(&g), Some(applied_strings(e)));
        }
    }
    fn inputs(&mut self, set_aspect: &'static str, site: &'static str, path: &str, e: &[MInput], g: &[MInput], meta: bool) {
        let en: BTreeSet<&str> = e.iter().map(|a| a.name.as_str()).collect();
        let gn: BTreeSet<&str> = g.iter().map(|a| a.name.as_str()).collect();
        if en != gn || e.len() != g.len() {
            self.push(set_aspect, site, path, format!("{en:?}"), format!("{:?}", g.iter().map(|a| a.name.as_str()).collect::<Vec<_>>()), None);
        }
        for a in e {
            let Some(b) = g.iter().find(|b| b.name == a.name) else { continue };
            let p = format!("{path}.{}", a.name);
            if a.ty != b.ty {
                self.push("type-reference", site, &p, a.ty.to_string(), b.ty.to_string(), None);
            }
            if self.cfg.defaults {
                let same = match (&a.default, &b.default) {
                    (None, None) => true,
                    (Some(x), Some(y)) => value_eq(x, y),
                    _ => false,
                };
                if !same {
                    let t = a.default.as_ref().map(value_strings).unwrap_or_default();
                    self.push("default-value", site, &p, a.default.as_ref().map(value_text).unwrap_or("(none)".into()), b.default.as_ref().map(value_text).unwrap_or("(none)".into()), Some(t));
                }
            }
            if meta {
                self.desc(site, &p, &a.desc, &b.desc);
                self.dep(site, &p, &a.deprecated, &b.deprecated);
                self.applied(site, &p, &a.applied, &b.applied);
            }
        }
    }
    fn fields(&mut self, path: &str, e: &[MField], g: &[MField]) {
        let en: BTreeSet<&str> = e.iter().map(|a| a.name.as_str()).collect();
        let gn: BTreeSet<&str> = g.iter().map(|a| a.name.as_str()).collect();
        if en != gn || e.len() != g.len() {
            self.push("field-set", "type", path, format!("{en:?}"), format!("{:?}", g.iter().map(|a| a.name.as_str()).collect::<Vec<_>>()), None);
        }
        for a in e {
            let Some(b) = g.iter().find(|b| b.name == a.name) else { continue };
            let p = format!("{path}.{}", a.name);
            if a.ty != b.ty {
                self.push("type-reference", "field", &p, a.ty.to_string(), b.ty.to_string(), None);
            }
            self.desc("field", &p, &a.desc, &b.desc);
            self.dep("field", &p, &a.deprecated, &b.deprecated);
            self.applied("field", &p, &a.applied, &b.applied);
            self.inputs("argument-set", "argument", &p, &a.args, &b.args, true);
        }
    }
}

fn set_of(v: &[String]) -> BTreeSet<&str> {
    v.iter().map(|s| s.as_str()).collect()
}

/// Compare `got` with `exp`; `skip_types` are not compared (and may be absent or present).
pub fn compare(exp: &Model, got: &Model, cfg: &CmpCfg, skip_types: &BTreeSet<String>) -> Vec<Diff> {
    let mut c = Cmp { cfg, out: Vec::new() };
    let builtin = |n: &str| BUILTIN_SCALARS.contains(&n);
    for (n, e) in &exp.types {
        if builtin(n) || skip_types.contains(n) {
            continue;
        }
        let Some(g) = got.types.get(n) else {
            c.push("type-missing", "type", n, e.kind.word().into(), "(absent)".into(), None);
            continue;
        };
        if e.kind != g.kind {
            c.push("kind", "type", n, e.kind.word().into(), g.kind.word().into(), None);
            continue;
        }
        c.desc("type", n, &e.desc, &g.desc);
        if cfg.specified_by && e.specified_by != g.specified_by {
            c.push("specified-by", "type", n, opt_text(&e.specified_by), opt_text(&g.specified_by), Some(e.specified_by.clone().unwrap_or_default()));
        }
        if e.one_of != g.one_of {
            c.push("one-of", "type", n, e.one_of.to_string(), g.one_of.to_string(), None);
        }
        if set_of(&e.interfaces) != set_of(&g.interfaces) || e.interfaces.len() != g.interfaces.len() {
            c.push("implements", "type", n, format!("{:?}", set_of(&e.interfaces)), format!("{:?}", g.interfaces), None);
        }
        if set_of(&e.members) != set_of(&g.members) || e.members.len() != g.members.len() {
            c.push("union-members", "type", n, format!("{:?}", set_of(&e.members)), format!("{:?}", g.members), None);
        }
        c.applied("type", n, &e.applied, &g.applied);
        c.fields(n, &e.fields, &g.fields);
        c.inputs("input-field-set", "input-field", n, &e.input_fields, &g.input_fields, true);
        let en: BTreeSet<&str> = e.values.iter().map(|a| a.name.as_str()).collect();
        let gn: BTreeSet<&str> = g.values.iter().map(|a| a.name.as_str()).collect();
        if en != gn || e.values.len() != g.values.len() {
            c.push("enum-value-set", "type", n, format!("{en:?}"), format!("{:?}", g.values.iter().map(|a| a.name.as_str()).collect::<Vec<_>>()), None);
        }
        for a in &e.values {
            let Some(b) = g.values.iter().find(|b| b.name == a.name) else { continue };
            let p = format!("{n}.{}", a.name);
            c.desc("enum-value", &p, &a.desc, &b.desc);
            c.dep("enum-value", &p, &a.deprecated, &b.deprecated);
            c.applied("enum-value", &p, &a.applied, &b.applied);
        }
    }
    for (n, g) in &got.types {
        if !builtin(n) && !skip_types.contains(n) && !exp.types.contains_key(n) && !n.starts_with("__") {
            c.push("type-unexpected", "type", n, "(absent)".into(), g.kind.word().into(), None);
        }
    }
    if cfg.directives {
        let std = builtin_directives();
        let mut todo: Vec<(&MDirective, bool)> = exp.directives.values().map(|d| (d, false)).collect();
        for (n, d) in &std.directives {
            if !exp.directives.contains_key(n) {
                todo.push((d, true));
            }
        }
        for (e, optional) in todo {
            let n = &e.name;
            let Some(g) = got.directives.get(n) else {
                if !optional {
                    c.push("directive-missing", "directive", &format!("@{n}"), "defined".into(), "(absent)".into(), None);
                }
                continue;
            };
            let p = format!("@{n}");
            if !optional {
                c.desc("directive", &p, &e.desc, &g.desc);
            }
            if e.repeatable != g.repeatable {
                c.push("directive-repeatable", "directive", &p, e.repeatable.to_string(), g.repeatable.to_string(), None);
            }
            if set_of(&e.locations) != set_of(&g.locations) {
                c.push("directive-locations", "directive", &p, format!("{:?}", set_of(&e.locations)), format!("{:?}", g.locations), None);
            }
            c.inputs("argument-set", "directive-argument", &p, &e.args, &g.args, cfg.directive_arg_meta && !optional);
        }
        for n in got.directives.keys() {
            if !exp.directives.contains_key(n) && !BUILTIN_DIRECTIVES.contains(&n.as_str()) {
                c.push("directive-unexpected", "directive", &format!("@{n}"), "(absent)".into(), "defined".into(), None);
            }
        }
    }
    if cfg.roots {
        let (e, g) = (exp.root_names(), got.root_names());
        if e != g {
            c.push("roots", "schema", "schema", format!("{e:?}"), format!("{g:?}"), None);
        }
    }
    c.out
}

/// The built-in directives as the specification defines them (descriptions not compared).
pub fn builtin_directives() -> Model {
    Model::from_sdl(
        r#"
directive @skip(if: Boolean!) on FIELD | FRAGMENT_SPREAD | INLINE_FRAGMENT
directive @include(if: Boolean!) on FIELD | FRAGMENT_SPREAD | INLINE_FRAGMENT
directive @deprecated(reason: String = "No longer supported") on FIELD_DEFINITION | ARGUMENT_DEFINITION | INPUT_FIELD_DEFINITION | ENUM_VALUE
directive @specifiedBy(url: String!) on SCALAR
directive @oneOf on INPUT_OBJECT
"#,
    )
    .expect("built-in directive SDL parses")
}

// ------------------------------------------------------------- symbol classification

/// The symbol classes of the C17 alphabet occurring in `s` (greedy tokenisation,
/// longest symbol first), sorted and joined with `+`; `plain` for other characters.
/// A line feed at the very start or end of the text is `edge-lf` (block strings
/// treat blank first / last lines specially).
pub fn symbol_classes(s: &str) -> String {
    let mut set: BTreeSet<&'static str> = BTreeSet::new();
    let cs: Vec<char> = s.chars().collect();
    let mut i = 0;
    let at = |i: usize, p: &str| -> bool { p.chars().enumerate().all(|(k, c)| cs.get(i + k) == Some(&c)) };
    while i < cs.len() {
        if at(i, "\\\"\"\"") {
            set.insert("escaped-triple-quote");
            i += 4;
        } else if at(i, "\"\"\"") {
            set.insert("triple-quote");
            i += 3;
        } else {
            let c = cs[i];
            set.insert(match c {
                '"' => "quote",
                '\\' => "backslash",
                '\n' => {
                    if i == 0 || i + 1 == cs.len() {
                        "edge-lf"
                    } else {
                        "lf"
                    }
                }
                c if (c as u32) < 0x20 || c as u32 == 0x7f => "control",
                c if !c.is_ascii() => "non-ascii",
                _ => "plain",
            });
            i += 1;
        }
    }
    if set.is_empty() {
        return "empty".into();
    }
    if set.len() > 1 {
        set.remove("plain"); // `a` is the neutral symbol
    }
    set.into_iter().collect::<Vec<_>>().join("+")
}

/// Self-test of the oracle's own machinery (run by both checks at start-up and by `cargo test`):
/// symbol classification, recovering parse, value comparison, block-string decoding of descriptions.
pub fn self_test() -> Result<(), String> {
    let ck = |ok: bool, what: &str| if ok { Ok(()) } else { Err(format!("model self-test failed: {what}")) };
    ck(symbol_classes("a\"b") == "quote", "classes: quote")?;
    ck(symbol_classes("\\\"\"\"") == "escaped-triple-quote", "classes: escaped triple quote")?;
    ck(symbol_classes("\"\"\"\"") == "quote+triple-quote", "classes: four quotes")?;
    ck(symbol_classes("\na") == "edge-lf" && symbol_classes("a\nb") == "lf" && symbol_classes("") == "empty", "classes: line feeds")?;
    // a broken definition is isolated, its neighbours are kept
    let src = "type A {\n\tx: Int\n}\n\ntype B {\n\tx: Int @deprecated(reason: \"a\"b\")\n}\n\n\"\"\"\ndoc\n\"\"\"\nenum E {\n\tV\n}\n";
    let (defs, bad, whole) = parse_recovering(src);
    ck(whole.is_some() && defs.len() == 2 && bad.len() == 1 && bad[0].name == "B", "recovering parse isolates `type B`")?;
    let m = Model::from_defs(&defs)?;
    ck(m.types["E"].desc.as_deref() == Some("doc"), "description of the definition after the broken one")?;
    // a broken description takes its definition with it
    let src = "\"\"\"\na\"\"\"b\n\"\"\"\ntype T {\n\tv: Int\n}\n\ntype U {\n\tv: Int\n}\n";
    let (defs, bad, _) = parse_recovering(src);
    ck(defs.len() == 1 && bad.len() == 1 && bad[0].name == "T", "a broken description is attributed to its definition")?;
    // §2.9.4: block string semantics decide what a description says
    let m = Model::from_sdl("\"\"\"\n  a\\\"\"\"b\n\n  c\n\"\"\"\ntype T { \"x\\ny\" f(a: [Int!] = [1, 2]): Int @deprecated }")?;
    ck(m.types["T"].desc.as_deref() == Some("a\"\"\"b\n\nc"), "block string value")?;
    ck(m.types["T"].fields[0].desc.as_deref() == Some("x\ny") && m.types["T"].fields[0].deprecated == Some(None), "field description and bare @deprecated")?;
    let p = |s: &str| agv_refgql::parse::parse_value(s, true).map(|v| v.v).map_err(|e| e.msg);
    ck(value_eq(&p("{a: 1, b: [1.0, \"x\"]}")?, &p("{b: [1, \"x\"], a: 1}")?), "object fields as a set, numbers numerically")?;
    ck(!value_eq(&p("\"X\"")?, &p("X")?) && !value_eq(&p("{a: 1}")?, &p("{a: 1, b: null}")?), "string ≠ enum, missing ≠ null")?;
    // comparison notices each listed aspect
    let a = Model::from_sdl("interface I { x: Int } type T implements I { \"d\" x(a: Int = 1 @deprecated(reason: \"r\")): Int } enum E { A B } union U = T")?;
    let b = Model::from_sdl("interface I { x: Int } type T { \"e\" x(a: Int = 2 @deprecated(reason: \"s\")): Int! } enum E { A } union U = T | T2 type T2 { y: Int }")?;
    let aspects: BTreeSet<&str> = compare(&a, &b, &CmpCfg::default(), &BTreeSet::new()).iter().map(|d| d.aspect).collect();
    for want in ["implements", "description", "default-value", "deprecation", "type-reference", "enum-value-set", "union-members", "type-unexpected"] {
        ck(aspects.contains(want), &format!("comparison reports `{want}`"))?;
    }
    ck(compare(&a, &a, &CmpCfg::default(), &BTreeSet::new()).is_empty(), "a model equals itself")?;
    Ok(())
}

#[cfg(test)]
mod tests {
    use super::*;

    #[test]
    fn self_test_passes() {
        self_test().unwrap();
    }
}
