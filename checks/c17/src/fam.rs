//! The derive-built schema family shared by C17 (SDL export) and C18 (introspection).
//!
//! `Fam` covers every definition kind the derive API offers: objects (Object /
//! SimpleObject / ComplexObject), interfaces incl. interface-implements-interface
//! with a type directive, a union, an enum, an input object, a oneOf input, a
//! custom scalar with `specified_by_url`, an executable custom directive, type
//! directives (plain, repeatable, with described / defaulted arguments) applied at
//! every location the derive API supports, deprecations with and without reason
//! on fields / arguments / enum values / input fields, default values of every
//! value kind (int, float, string, boolean, enum, list, object, null, ID),
//! descriptions on everything — plus the *text items*: for each symbol class of
//! the C17 alphabet one module whose types carry that text in exactly one slot
//! each (so that a definition which does not parse identifies its slot).
//!
//! `FAM_SDL` is the hand-written description of that schema: the oracle's
//! "schema as defined". It is written with ordinary escapes, never produced by
//! the code under test.

#![allow(clippy::all)]

use async_graphql::*;
use futures_util::stream::{self, Stream};

// ------------------------------------------------------------------ directives

/// Marks an element with a label.
#[TypeDirective(
    name = "label",
    location = "Object",
    location = "FieldDefinition",
    location = "ArgumentDefinition",
    location = "Interface",
    location = "Enum",
    location = "EnumValue",
    location = "InputObject",
    location = "InputFieldDefinition"
)]
pub fn label(
    #[graphql(desc = "the label text")] text: String,
    #[graphql(default = 1)] weight: i32,
    #[graphql(default_with = "Some(\"d\".to_string())", deprecation = "unused")] extra: Option<String>,
) {
}

#[TypeDirective(name = "mark", location = "FieldDefinition", location = "Object", repeatable)]
pub fn mark() {}

pub struct UpperDirective;

#[async_trait::async_trait]
impl CustomDirective for UpperDirective {
    async fn resolve_field(&self, _ctx: &Context<'_>, resolve: ResolveFut<'_>) -> ServerResult<Option<Value>> {
        resolve.await
    }
}

/// Upper-cases a string field.
#[Directive(name = "upper", location = "Field")]
pub fn upper_dir(#[graphql(default = 2)] times: i32) -> impl CustomDirective {
    let _ = times;
    UpperDirective
}

// ---------------------------------------------------------------------- leaves

/// A point in time.
pub struct Stamp(pub String);

/// A point in time.
#[Scalar(name = "Stamp", specified_by_url = "https://example.com/stamp")]
impl ScalarType for Stamp {
    fn parse(value: Value) -> InputValueResult<Self> {
        match value {
            Value::String(s) => Ok(Stamp(s)),
            v => Err(InputValueError::expected_type(v)),
        }
    }
    fn to_value(&self) -> Value {
        Value::String(self.0.clone())
    }
}

/// A scalar without a specification URL.
pub struct Blob(pub String);

#[Scalar(name = "Blob")]
impl ScalarType for Blob {
    fn parse(value: Value) -> InputValueResult<Self> {
        match value {
            Value::String(s) => Ok(Blob(s)),
            v => Err(InputValueError::expected_type(v)),
        }
    }
    fn to_value(&self) -> Value {
        Value::String(self.0.clone())
    }
}

/// Primary colours.
#[derive(Enum, Copy, Clone, Eq, PartialEq, Default)]
#[graphql(directive = label::apply("enum".to_string(), 1, None))]
pub enum Color {
    /// Like blood.
    #[default]
    Red,
    #[graphql(deprecation)]
    Green,
    /// Like the sky.
    #[graphql(deprecation = "too cold", directive = label::apply("value".to_string(), 2, None))]
    Blue,
}

// ---------------------------------------------------------------------- inputs

/// Inner input.
#[derive(InputObject, Default, Clone)]
pub struct Inner {
    #[graphql(default = 1)]
    pub a: i32,
    pub b: Option<String>,
}

/// Search filter.
#[derive(InputObject, Clone)]
#[graphql(directive = label::apply("input".to_string(), 1, None))]
pub struct Filter {
    /// Free text.
    #[graphql(default = "x y")]
    pub text: String,
    #[graphql(default = 10)]
    pub limit: i32,
    #[graphql(default = 0.5)]
    pub ratio: f64,
    #[graphql(default = true)]
    pub strict: bool,
    #[graphql(default_with = "vec![Color::Red, Color::Blue]")]
    pub colors: Vec<Color>,
    #[graphql(default_with = "Inner { a: 2, b: Some(\"in\".to_string()) }")]
    pub nested: Inner,
    #[graphql(default_with = "None")]
    pub nothing: Option<i32>,
    #[graphql(deprecation = "use text")]
    pub old: Option<String>,
    #[graphql(deprecation, directive = label::apply("infield".to_string(), 1, None))]
    pub older: Option<i32>,
    pub required: ID,
}

impl Filter {
    pub fn dflt() -> Filter {
        Filter { text: "t".into(), limit: 3, ratio: 0.25, strict: false, colors: vec![Color::Green], nested: Inner { a: 7, b: None }, nothing: None, old: None, older: None, required: ID::from("r1") }
    }
}

/// Exactly one way to pick.
#[derive(OneofObject, Clone)]
pub enum Pick {
    /// By identifier.
    ById(ID),
    ByName(String),
    #[graphql(deprecation = "never")]
    ByAge(i32),
}

// --------------------------------------------------------- interfaces and objects

/// Anything with an identifier.
#[derive(Interface)]
#[graphql(field(name = "id", ty = "ID", desc = "The identifier."))]
pub enum Node {
    Named(Named),
    Dog(Dog),
    Cat(Cat),
    Rock(Rock),
}

/// Anything with a name.
#[derive(Interface)]
#[graphql(
    field(name = "id", ty = "ID"),
    field(
        name = "name",
        ty = "String",
        desc = "The name.",
        arg(name = "upper", ty = "bool", default = false, desc = "Upper-case it."),
        arg(name = "lang", ty = "Option<String>", deprecation = "ignored"),
        deprecation = "use id",
        directive = mark::apply()
    ),
    directive = label::apply("iface".to_string(), 1, None)
)]
pub enum Named {
    Dog(Dog),
    Cat(Cat),
}

/// A dog.
#[derive(SimpleObject, Default, Clone)]
#[graphql(complex, directive = label::apply("object".to_string(), 3, Some("e".to_string())), directive = mark::apply(), directive = mark::apply())]
pub struct Dog {
    /// Barks per minute.
    pub barks: i32,
    #[graphql(deprecation = "dogs do not purr")]
    pub purrs: Option<i32>,
    #[graphql(deprecation)]
    pub legs: Option<i32>,
}

#[ComplexObject]
impl Dog {
    async fn id(&self) -> ID {
        ID::from("dog")
    }
    /// The dog's name.
    #[graphql(directive = mark::apply(), directive = label::apply("field".to_string(), 1, None))]
    async fn name(&self, #[graphql(default = false)] upper: bool, lang: Option<String>) -> String {
        let _ = (upper, lang);
        "rex".into()
    }
    async fn friends(&self, #[graphql(desc = "How many.", default = 2, directive = label::apply("arg".to_string(), 1, None))] first: i32) -> Vec<Named> {
        let _ = first;
        vec![]
    }
}

pub struct Cat;

/// A cat.
#[Object]
impl Cat {
    async fn id(&self) -> ID {
        ID::from("cat")
    }
    async fn name(&self, #[graphql(default = false)] upper: bool, lang: Option<String>) -> String {
        let _ = (upper, lang);
        "tom".into()
    }
    async fn lives(&self) -> Option<i32> {
        Some(9)
    }
    async fn matrix(&self) -> Option<Vec<Option<Vec<i32>>>> {
        None
    }
}

#[derive(Default, Clone)]
pub struct Rock;

#[Object]
impl Rock {
    async fn id(&self) -> ID {
        ID::from("rock")
    }
    async fn weight(&self) -> f64 {
        1.0
    }
    async fn seen(&self) -> Option<Stamp> {
        None
    }
    async fn blob(&self) -> Option<Blob> {
        None
    }
}

impl Default for Stamp {
    fn default() -> Self {
        Stamp("0".into())
    }
}
impl Clone for Stamp {
    fn clone(&self) -> Self {
        Stamp(self.0.clone())
    }
}
impl Clone for Blob {
    fn clone(&self) -> Self {
        Blob(self.0.clone())
    }
}

/// A pet is a dog or a cat.
#[derive(Union)]
pub enum Pet {
    Dog(Dog),
    Cat(Cat),
}

// ------------------------------------------------------------------ text items
//
// One module per symbol class; every type carries the text in exactly one slot.

macro_rules! text_items {
    ($m:ident, $s:literal, $root:ident, $td:ident, $fd:ident, $ad:ident, $ed:ident, $idesc:ident, $df:ident, $da:ident, $de:ident, $di:ident, $sa:ident, $si:ident, $ra:ident, $ifd:ident, $obj_for_i:ident) => {
        pub mod $m {
            use super::label;
            use async_graphql::*;

            #[doc = $s]
            #[derive(SimpleObject, Default)]
            pub struct $td {
                pub v: i32,
            }

            #[derive(SimpleObject, Default)]
            pub struct $fd {
                #[doc = $s]
                pub v: i32,
            }

            #[derive(Default)]
            pub struct $ad;
            #[Object]
            impl $ad {
                async fn v(&self, #[graphql(desc = $s)] a: Option<i32>) -> i32 {
                    a.unwrap_or(0)
                }
            }

            #[derive(Enum, Copy, Clone, Eq, PartialEq, Default)]
            pub enum $ed {
                #[doc = $s]
                #[default]
                V,
            }

            #[derive(InputObject, Default)]
            pub struct $idesc {
                #[doc = $s]
                pub v: Option<i32>,
            }

            #[derive(SimpleObject, Default)]
            pub struct $df {
                #[graphql(deprecation = $s)]
                pub v: Option<i32>,
                pub w: i32,
            }

            #[derive(Default)]
            pub struct $da;
            #[Object]
            impl $da {
                async fn v(&self, #[graphql(deprecation = $s)] a: Option<i32>) -> i32 {
                    a.unwrap_or(0)
                }
            }

            #[derive(Enum, Copy, Clone, Eq, PartialEq, Default)]
            pub enum $de {
                #[default]
                W,
                #[graphql(deprecation = $s)]
                V,
            }

            #[derive(InputObject, Default)]
            pub struct $di {
                #[graphql(deprecation = $s)]
                pub v: Option<i32>,
                pub w: Option<i32>,
            }

            #[derive(Default)]
            pub struct $sa;
            #[Object]
            impl $sa {
                async fn v(&self, #[graphql(default = $s)] a: String) -> String {
                    a
                }
            }

            #[derive(InputObject, Default)]
            pub struct $si {
                #[graphql(default = $s)]
                pub v: String,
            }

            #[derive(SimpleObject, Default)]
            #[graphql(directive = label::apply($s.to_string(), 1, None))]
            pub struct $ra {
                pub v: i32,
            }

            #[derive(SimpleObject, Default)]
            pub struct $obj_for_i {
                pub v: i32,
            }

            #[derive(Interface)]
            #[graphql(field(name = "v", ty = "&i32", desc = $s))]
            pub enum $ifd {
                O($obj_for_i),
            }

            #[derive(Default)]
            pub struct $root;
            #[Object]
            impl $root {
                async fn td(&self) -> $td {
                    Default::default()
                }
                async fn fd(&self) -> $fd {
                    Default::default()
                }
                async fn ad(&self) -> $ad {
                    Default::default()
                }
                async fn ed(&self) -> $ed {
                    Default::default()
                }
                async fn idesc(&self, i: Option<$idesc>) -> i32 {
                    i.map(|_| 1).unwrap_or(0)
                }
                async fn df(&self) -> $df {
                    Default::default()
                }
                async fn da(&self) -> $da {
                    Default::default()
                }
                async fn de(&self) -> $de {
                    Default::default()
                }
                async fn di(&self, i: Option<$di>) -> i32 {
                    i.map(|_| 1).unwrap_or(0)
                }
                async fn sa(&self) -> $sa {
                    Default::default()
                }
                async fn si(&self, i: Option<$si>) -> i32 {
                    i.map(|_| 1).unwrap_or(0)
                }
                async fn ra(&self) -> $ra {
                    Default::default()
                }
                async fn ifd(&self) -> $ifd {
                    $ifd::O(Default::default())
                }
            }
        }
    };
}

text_items!(t_a, "a", RootA, TdA, FdA, AdA, EdA, IdA, DfA, DaA, DeA, DiA, SaA, SiA, RaA, IfA, OiA);
text_items!(t_q, "a\"b", RootQ, TdQ, FdQ, AdQ, EdQ, IdQ, DfQ, DaQ, DeQ, DiQ, SaQ, SiQ, RaQ, IfQ, OiQ);
text_items!(t_b, "a\\b", RootB, TdB, FdB, AdB, EdB, IdB, DfB, DaB, DeB, DiB, SaB, SiB, RaB, IfB, OiB);
text_items!(t_l, "a\nb", RootL, TdL, FdL, AdL, EdL, IdL, DfL, DaL, DeL, DiL, SaL, SiL, RaL, IfL, OiL);
text_items!(t_e, "a\u{1b}b", RootE, TdE, FdE, AdE, EdE, IdE, DfE, DaE, DeE, DiE, SaE, SiE, RaE, IfE, OiE);
text_items!(t_t, "a\"\"\"b", RootT, TdT, FdT, AdT, EdT, IdT, DfT, DaT, DeT, DiT, SaT, SiT, RaT, IfT, OiT);
text_items!(t_s, "a\\\"\"\"b", RootS, TdS, FdS, AdS, EdS, IdS, DfS, DaS, DeS, DiS, SaS, SiS, RaS, IfS, OiS);
text_items!(t_u, "é", RootU, TdU, FdU, AdU, EdU, IdU, DfU, DaU, DeU, DiU, SaU, SiU, RaU, IfU, OiU);

/// (module suffix, the text) in declaration order
pub const TEXT_SYMBOLS: [(&str, &str); 8] = [("A", "a"), ("Q", "a\"b"), ("B", "a\\b"), ("L", "a\nb"), ("E", "a\u{1b}b"), ("T", "a\"\"\"b"), ("S", "a\\\"\"\"b"), ("U", "é")];

/// (type-name prefix, slot kind) of the text item types
pub const TEXT_SLOTS: [(&str, &str); 14] = [
    ("Td", "type-description"),
    ("Fd", "field-description"),
    ("Ad", "argument-description"),
    ("Ed", "enum-value-description"),
    ("Id", "input-field-description"),
    ("Df", "field-deprecation-reason"),
    ("Da", "argument-deprecation-reason"),
    ("De", "enum-value-deprecation-reason"),
    ("Di", "input-field-deprecation-reason"),
    ("Sa", "argument-default-string"),
    ("Si", "input-field-default-string"),
    ("Ra", "directive-argument-string"),
    ("If", "interface-field-description"),
    ("Oi", "none"),
];

// ----------------------------------------------------------------------- roots

pub struct Query;

/// The query root.
#[Object]
impl Query {
    /// Look a node up.
    async fn node(&self, #[graphql(desc = "Its identifier.")] id: ID) -> Option<Node> {
        let _ = id;
        Some(Node::Rock(Rock::default()))
    }
    async fn named(&self) -> Option<Named> {
        Some(Named::Dog(Dog::default()))
    }
    async fn nodes(&self) -> Vec<Node> {
        vec![]
    }
    async fn pet(&self) -> Option<Pet> {
        Some(Pet::Cat(Cat))
    }
    async fn pets(&self) -> Option<Vec<Option<Pet>>> {
        None
    }
    async fn color(&self, #[graphql(default_with = "Color::Blue")] c: Color) -> Color {
        c
    }
    async fn search(&self, filter: Option<Filter>, pick: Option<Pick>) -> Vec<Node> {
        let _ = (filter, pick);
        vec![]
    }
    #[graphql(deprecation = "use node")]
    async fn old(&self) -> i32 {
        1
    }
    #[graphql(deprecation)]
    async fn older(&self, #[graphql(deprecation = "no")] x: Option<i32>, #[graphql(deprecation)] y: Option<i32>) -> i32 {
        let _ = (x, y);
        2
    }
    #[allow(clippy::too_many_arguments)]
    async fn defaults(
        &self,
        #[graphql(default = 5)] i: i32,
        #[graphql(default = -1.5)] f: f64,
        #[graphql(default = "str")] s: String,
        #[graphql(default = true)] b: bool,
        #[graphql(default_with = "Color::Green")] e: Color,
        #[graphql(default_with = "vec![1, 2]")] l: Vec<i32>,
        #[graphql(default_with = "vec![vec![Color::Red], vec![]]")] ll: Vec<Vec<Color>>,
        #[graphql(default_with = "Filter::dflt()")] o: Filter,
        #[graphql(default_with = "None")] n: Option<i32>,
        #[graphql(default_with = "ID::from(\"i d\")")] id: ID,
        #[graphql(default_with = "Stamp(\"now\".to_string())")] st: Stamp,
        #[graphql(default)] z: i32,
    ) -> i32 {
        let _ = (i, f, s, b, e, l, ll, o, n, id, st, z);
        0
    }
    async fn ta(&self) -> t_a::RootA {
        Default::default()
    }
    async fn tq(&self) -> t_q::RootQ {
        Default::default()
    }
    async fn tb(&self) -> t_b::RootB {
        Default::default()
    }
    async fn tl(&self) -> t_l::RootL {
        Default::default()
    }
    async fn te(&self) -> t_e::RootE {
        Default::default()
    }
    async fn tt(&self) -> t_t::RootT {
        Default::default()
    }
    async fn ts(&self) -> t_s::RootS {
        Default::default()
    }
    async fn tu(&self) -> t_u::RootU {
        Default::default()
    }
}

pub struct Mutation;

#[Object]
impl Mutation {
    /// Rename something.
    async fn rename(&self, id: ID, #[graphql(default = "anon")] to: String) -> Option<Named> {
        let _ = (id, to);
        None
    }
}

pub struct Subscription;

#[Subscription]
impl Subscription {
    /// Ticks.
    async fn ticks(&self, #[graphql(default = 1)] every: i32) -> impl Stream<Item = i32> {
        let _ = every;
        stream::iter(vec![1])
    }
}

pub type Fam = Schema<Query, Mutation, Subscription>;

pub fn fam() -> Fam {
    Schema::build(Query, Mutation, Subscription).directive(upper_dir).finish()
}

/// Hand-written description of `fam()` without the text items (appended by `fam_sdl`).
pub const FAM_CORE_SDL: &str = r#"
"Marks an element with a label."
directive @label("the label text" text: String!, weight: Int! = 1, extra: String = "d" @deprecated(reason: "unused")) on OBJECT | FIELD_DEFINITION | ARGUMENT_DEFINITION | INTERFACE | ENUM | ENUM_VALUE | INPUT_OBJECT | INPUT_FIELD_DEFINITION
directive @mark repeatable on FIELD_DEFINITION | OBJECT
"Upper-cases a string field."
directive @upper(times: Int! = 2) on FIELD

"A point in time."
scalar Stamp @specifiedBy(url: "https://example.com/stamp")
scalar Blob

"Primary colours."
enum Color @label(text: "enum", weight: 1) {
  "Like blood."
  RED
  GREEN @deprecated
  "Like the sky."
  BLUE @deprecated(reason: "too cold") @label(text: "value", weight: 2)
}

"Inner input."
input Inner { a: Int! = 1  b: String }

"Search filter."
input Filter @label(text: "input", weight: 1) {
  "Free text."
  text: String! = "x y"
  limit: Int! = 10
  ratio: Float! = 0.5
  strict: Boolean! = true
  colors: [Color!]! = [RED, BLUE]
  nested: Inner! = {a: 2, b: "in"}
  nothing: Int = null
  old: String @deprecated(reason: "use text")
  older: Int @deprecated @label(text: "infield", weight: 1)
  required: ID!
}

"Exactly one way to pick."
input Pick @oneOf {
  "By identifier."
  byId: ID
  byName: String
  byAge: Int @deprecated(reason: "never")
}

"Anything with an identifier."
interface Node {
  "The identifier."
  id: ID!
}

"Anything with a name."
interface Named implements Node @label(text: "iface", weight: 1) {
  id: ID!
  "The name."
  name("Upper-case it." upper: Boolean! = false, lang: String @deprecated(reason: "ignored")): String! @deprecated(reason: "use id") @mark
}

"A dog."
type Dog implements Node & Named @label(text: "object", weight: 3, extra: "e") @mark @mark {
  "Barks per minute."
  barks: Int!
  purrs: Int @deprecated(reason: "dogs do not purr")
  legs: Int @deprecated
  id: ID!
  "The dog's name."
  name(upper: Boolean! = false, lang: String): String! @mark @label(text: "field", weight: 1)
  friends("How many." first: Int! = 2 @label(text: "arg", weight: 1)): [Named!]!
}

"A cat."
type Cat implements Node & Named {
  id: ID!
  name(upper: Boolean! = false, lang: String): String!
  lives: Int
  matrix: [[Int!]]
}

type Rock implements Node { id: ID!  weight: Float!  seen: Stamp  blob: Blob }

"A pet is a dog or a cat."
union Pet = Dog | Cat

"The query root."
type Query {
  "Look a node up."
  node("Its identifier." id: ID!): Node
  named: Named
  nodes: [Node!]!
  pet: Pet
  pets: [Pet]
  color(c: Color! = BLUE): Color!
  search(filter: Filter, pick: Pick): [Node!]!
  old: Int! @deprecated(reason: "use node")
  older(x: Int @deprecated(reason: "no"), y: Int @deprecated): Int! @deprecated
  defaults(i: Int! = 5, f: Float! = -1.5, s: String! = "str", b: Boolean! = true, e: Color! = GREEN, l: [Int!]! = [1, 2], ll: [[Color!]!]! = [[RED], []],
    o: Filter! = {text: "t", limit: 3, ratio: 0.25, strict: false, colors: [GREEN], nested: {a: 7, b: null}, nothing: null, old: null, older: null, required: "r1"},
    n: Int = null, id: ID! = "i d", st: Stamp! = "now", z: Int! = 0): Int!
  ta: RootA!  tq: RootQ!  tb: RootB!  tl: RootL!  te: RootE!  tt: RootT!  ts: RootS!  tu: RootU!
}

type Mutation {
  "Rename something."
  rename(id: ID!, to: String! = "anon"): Named
}

type Subscription {
  "Ticks."
  ticks(every: Int! = 1): Int!
}
"#;

/// GraphQL string literal with ordinary escapes (hand-rolled here on purpose: the
/// oracle must not depend on the printer under test).
pub fn lit(s: &str) -> String {
    let mut o = String::from("\"");
    for c in s.chars() {
        match c {
            '"' => o.push_str("\\\""),
            '\\' => o.push_str("\\\\"),
            '\n' => o.push_str("\\n"),
            '\r' => o.push_str("\\r"),
            '\t' => o.push_str("\\t"),
            c if (c as u32) < 0x20 || c as u32 == 0x7f => o.push_str(&format!("\\u{:04x}", c as u32)),
            c => o.push(c),
        }
    }
    o.push('"');
    o
}

/// The reference SDL of `fam()`.
pub fn fam_sdl() -> String {
    let mut s = String::from(FAM_CORE_SDL);
    for (x, text) in TEXT_SYMBOLS {
        let t = lit(text);
        s.push_str(&format!(
            r#"
{t} type Td{x} {{ v: Int! }}
type Fd{x} {{ {t} v: Int! }}
type Ad{x} {{ v({t} a: Int): Int! }}
enum Ed{x} {{ {t} V }}
input Id{x} {{ {t} v: Int }}
type Df{x} {{ v: Int @deprecated(reason: {t})  w: Int! }}
type Da{x} {{ v(a: Int @deprecated(reason: {t})): Int! }}
enum De{x} {{ W  V @deprecated(reason: {t}) }}
input Di{x} {{ v: Int @deprecated(reason: {t})  w: Int }}
type Sa{x} {{ v(a: String! = {t}): String! }}
input Si{x} {{ v: String! = {t} }}
type Ra{x} @label(text: {t}, weight: 1) {{ v: Int! }}
type Oi{x} implements If{x} {{ v: Int! }}
interface If{x} {{ {t} v: Int! }}
type Root{x} {{ td: Td{x}!  fd: Fd{x}!  ad: Ad{x}!  ed: Ed{x}!  idesc(i: Id{x}): Int!  df: Df{x}!  da: Da{x}!  de: De{x}!  di(i: Di{x}): Int!  sa: Sa{x}!  si(i: Si{x}): Int!  ra: Ra{x}!  ifd: If{x}! }}
"#
        ));
    }
    s
}
