//! C31 — persisted queries execute only the document registered under the hash.
//!
//! Seam: `Schema::build(..).extension(ApolloPersistedQueries::new(storage)).finish()`,
//! requests deserialized from their JSON wire form and run through `Schema::execute`.
//! Engine: `bfs` over request histories. A state is a history replayed on a fresh
//! schema + storage; its canonical key is (reference map hash→document in eviction
//! order, storage kind, last outcome, what a hash-only lookup of every probe hash
//! answers — each probe on its own fresh replay —, and for the harness storage its
//! literal contents).
//!
//! Storage kinds: `LruCacheStorage` with capacity 1, 2, 64 and a harness `CacheStorage`
//! with FIFO eviction, capacity 1, 2, 64 (exact reference model). A linear "flood"
//! script per LRU capacity reaches real evictions (scc::HashCache never holds fewer than
//! 64 entries, so the BFS alone would not).

use agv_engine::bfs::{bfs, BfsCfg, Step};
use agv_engine::record::{Cx, Violation};
use agv_engine::sched::drive;
use async_graphql::extensions::apollo_persisted_queries::{ApolloPersistedQueries, CacheStorage, LruCacheStorage};
use async_graphql::parser::types::ExecutableDocument;
use async_graphql::{Context, EmptyMutation, EmptySubscription, Object, Request, Schema};
use serde_json::{json, Value};
use sha2::{Digest, Sha256};
use std::collections::{HashMap, VecDeque};
use std::sync::atomic::{AtomicU64, Ordering};
use std::sync::{Arc, Mutex};

// ---------------------------------------------------------------------------------------------
// harness schema: which resolvers ran identifies the document
// ---------------------------------------------------------------------------------------------

#[derive(Clone, Default)]
struct Log(Arc<Mutex<Vec<&'static str>>>);

struct Query;

#[Object]
impl Query {
    async fn a(&self, ctx: &Context<'_>) -> i32 {
        ctx.data_unchecked::<Log>().0.lock().unwrap().push("a");
        1
    }
    async fn b(&self, ctx: &Context<'_>) -> i32 {
        ctx.data_unchecked::<Log>().0.lock().unwrap().push("b");
        2
    }
    async fn c(&self, ctx: &Context<'_>) -> i32 {
        ctx.data_unchecked::<Log>().0.lock().unwrap().push("c");
        3
    }
}

struct Doc {
    text: &'static str,
    log: &'static [&'static str],
    data: Value,
    hash: String,
}

fn sha_hex(s: &str) -> String {
    Sha256::digest(s.as_bytes()).iter().map(|b| format!("{b:02x}")).collect()
}

fn docs(n: usize) -> Vec<Doc> {
    let all: Vec<(&'static str, &'static [&'static str], Value)> = vec![
        ("{ a }", &["a"], json!({"a": 1})),
        ("{ b }", &["b"], json!({"b": 2})),
        ("{ x: a c }", &["a", "c"], json!({"x": 1, "c": 3})),
        ("query Q { b c }", &["b", "c"], json!({"b": 2, "c": 3})),
    ];
    all.into_iter().take(n).map(|(text, log, data)| Doc { text, log, data, hash: sha_hex(text) }).collect()
}

/// A text whose hash can be supplied correctly but which is not a GraphQL document.
const UNPARSABLE: &str = "{ a";

// ---------------------------------------------------------------------------------------------
// harness storage: FIFO eviction, contents readable
// ---------------------------------------------------------------------------------------------

#[derive(Default)]
struct FifoInner {
    cap: usize,
    entries: VecDeque<(String, ExecutableDocument)>,
}

#[derive(Clone)]
struct FifoStorage(Arc<Mutex<FifoInner>>);

#[async_trait::async_trait]
impl CacheStorage for FifoStorage {
    async fn get(&self, key: String) -> Option<ExecutableDocument> {
        self.0.lock().unwrap().entries.iter().find(|(k, _)| *k == key).map(|(_, d)| d.clone())
    }
    async fn set(&self, key: String, query: ExecutableDocument) {
        let mut g = self.0.lock().unwrap();
        if let Some(e) = g.entries.iter_mut().find(|(k, _)| *k == key) {
            e.1 = query;
            return;
        }
        g.entries.push_back((key, query));
        while g.entries.len() > g.cap {
            g.entries.pop_front();
        }
    }
}

#[derive(Clone, Copy, PartialEq, Eq, Hash, Debug)]
enum Kind {
    Lru(usize),
    Fifo(usize),
}

impl Kind {
    fn name(self) -> String {
        match self {
            Kind::Lru(c) => format!("lru:{c}"),
            Kind::Fifo(c) => format!("fifo:{c}"),
        }
    }
    fn parse(s: &str) -> Option<Kind> {
        let (k, c) = s.split_once(':')?;
        let c = c.parse().ok()?;
        match k {
            "lru" => Some(Kind::Lru(c)),
            "fifo" => Some(Kind::Fifo(c)),
            _ => None,
        }
    }
}

struct World {
    schema: Schema<Query, EmptyMutation, EmptySubscription>,
    log: Log,
    fifo: Option<FifoStorage>,
}

fn world(kind: Kind) -> World {
    let log = Log::default();
    match kind {
        Kind::Lru(c) => World { schema: Schema::build(Query, EmptyMutation, EmptySubscription).data(log.clone()).extension(ApolloPersistedQueries::new(LruCacheStorage::new(c))).finish(), log, fifo: None },
        Kind::Fifo(c) => {
            let st = FifoStorage(Arc::new(Mutex::new(FifoInner { cap: c, entries: VecDeque::new() })));
            World { schema: Schema::build(Query, EmptyMutation, EmptySubscription).data(log.clone()).extension(ApolloPersistedQueries::new(st.clone())).finish(), log, fifo: Some(st) }
        }
    }
}

// ---------------------------------------------------------------------------------------------
// events
// ---------------------------------------------------------------------------------------------

/// What the statement lets a request do, derived from its wire form by the reference
/// (never from what the code did).
#[derive(Clone, Debug, PartialEq)]
enum Sem {
    /// no extension: the text runs as an ordinary request, nothing is registered
    Plain { doc: usize },
    /// well-formed v1, text whose SHA-256 is the supplied hash
    Register { doc: usize },
    /// well-formed v1, matching hash, text does not parse: nothing to run or register
    RegisterUnparsable,
    /// well-formed v1, empty text
    HashOnly { hash: String },
    /// well-formed v1, text whose SHA-256 differs from the supplied hash
    Mismatch,
    /// well-formed, version other than 1
    BadVersion,
    /// no usable hash (missing / not a string / payload not an object): nothing may run
    NoHash,
    /// hash recoverable but not in canonical form (upper-case hex, positional payload, version
    /// as string/float): rejecting is fine; honouring it as the canonical request is fine too
    Lenient { as_register: Option<usize>, as_hash_only: Option<String> },
    /// payload is JSON null with a text: rejecting is fine, treating it as absent is fine too
    NullPayload { doc: usize },
}

#[derive(Clone, Debug)]
struct Event {
    name: String,
    query: String,
    payload: Option<Value>,
    sem: Sem,
}

fn pq(version: Value, hash: Value) -> Value {
    json!({"version": version, "sha256Hash": hash})
}

fn alphabet(ds: &[Doc]) -> Vec<Event> {
    let mut v = Vec::new();
    let ev = |name: String, query: &str, payload: Option<Value>, sem: Sem| Event { name, query: query.to_string(), payload, sem };
    let unknown = "0".repeat(64);
    let h_unp = sha_hex(UNPARSABLE);
    for (i, d) in ds.iter().enumerate() {
        let n = i + 1;
        v.push(ev(format!("register(D{n})"), d.text, Some(pq(json!(1), json!(d.hash))), Sem::Register { doc: i }));
        v.push(ev(format!("hash-only(H{n})"), "", Some(pq(json!(1), json!(d.hash))), Sem::HashOnly { hash: d.hash.clone() }));
        v.push(ev(format!("plain(D{n})"), d.text, None, Sem::Plain { doc: i }));
        for (j, e) in ds.iter().enumerate() {
            if i != j {
                v.push(ev(format!("register(D{n},H{})", j + 1), d.text, Some(pq(json!(1), json!(e.hash))), Sem::Mismatch));
            }
        }
        v.push(ev(format!("register(D{n},v2)"), d.text, Some(pq(json!(2), json!(d.hash))), Sem::BadVersion));
        v.push(ev(format!("hash-only(H{n},v2)"), "", Some(pq(json!(2), json!(d.hash))), Sem::BadVersion));
        v.push(ev(format!("register(D{n},UPPER(H{n}))"), d.text, Some(pq(json!(1), json!(d.hash.to_uppercase()))), Sem::Lenient { as_register: Some(i), as_hash_only: None }));
        v.push(ev(format!("hash-only(UPPER(H{n}))"), "", Some(pq(json!(1), json!(d.hash.to_uppercase()))), Sem::Lenient { as_register: None, as_hash_only: Some(d.hash.clone()) }));
    }
    // near misses of H1: a prefix of the right hash, the right hash with one digit changed, with a trailing space
    let h1 = ds[0].hash.clone();
    let mut flipped = h1.clone().into_bytes();
    let last = flipped.len() - 1;
    flipped[last] = if flipped[last] == b'0' { b'1' } else { b'0' };
    let flipped = String::from_utf8(flipped).unwrap();
    for (tag, h) in [("H1[..8]", h1[..8].to_string()), ("H1~lastdigit", flipped), ("H1+space", format!("{h1} ")), ("empty", String::new())] {
        v.push(ev(format!("register(D1,{tag})"), ds[0].text, Some(pq(json!(1), json!(h))), Sem::Mismatch));
        v.push(ev(format!("hash-only({tag})"), "", Some(pq(json!(1), json!(h))), Sem::HashOnly { hash: h.clone() }));
    }
    // a second text with the same leading hash digits is out of reach (2^32 work); prefix confusion is
    // covered from the lookup side: register D1, then look up a hash that shares only a prefix with H1
    let mut same_prefix = h1.clone().into_bytes();
    for b in same_prefix[8..].iter_mut() {
        *b = if *b == b'f' { b'0' } else { b'f' };
    }
    let same_prefix = String::from_utf8(same_prefix).unwrap();
    v.push(ev("hash-only(H1[..8]+other)".into(), "", Some(pq(json!(1), json!(same_prefix.clone()))), Sem::HashOnly { hash: same_prefix.clone() }));
    v.push(ev("register(D1,H1[..8]+other)".into(), ds[0].text, Some(pq(json!(1), json!(same_prefix.clone()))), Sem::Mismatch));
    v.push(ev("register(D2,H1[..8]+other)".into(), ds[1].text, Some(pq(json!(1), json!(same_prefix))), Sem::Mismatch));
    v.push(ev("hash-only(unknown)".into(), "", Some(pq(json!(1), json!(unknown))), Sem::HashOnly { hash: unknown.clone() }));
    v.push(ev("hash-only(\"def\")".into(), "", Some(pq(json!(1), json!("def"))), Sem::HashOnly { hash: "def".into() }));
    v.push(ev("register(D1,v0)".into(), ds[0].text, Some(pq(json!(0), json!(h1))), Sem::BadVersion));
    v.push(ev("register(D1,v-1)".into(), ds[0].text, Some(pq(json!(-1), json!(h1))), Sem::BadVersion));
    v.push(ev("register(D1,v4294967297)".into(), ds[0].text, Some(pq(json!(4294967297u64), json!(h1))), Sem::BadVersion));
    v.push(ev("register(unparsable)".into(), UNPARSABLE, Some(pq(json!(1), json!(h_unp))), Sem::RegisterUnparsable));
    v.push(ev("hash-only(H(unparsable))".into(), "", Some(pq(json!(1), json!(h_unp))), Sem::HashOnly { hash: h_unp.clone() }));
    // malformed payloads, each as a would-be registration of D1 and as a would-be lookup of H1
    let no_hash: Vec<(&str, Value)> = vec![
        ("hash-missing", json!({"version": 1})),
        ("hash-number", pq(json!(1), json!(123))),
        ("hash-null", pq(json!(1), Value::Null)),
        ("hash-list", pq(json!(1), json!([h1]))),
        ("hash-bool", pq(json!(1), json!(true))),
        ("hash-misspelt-key", json!({"version": 1, "sha256hash": h1})),
        ("payload-string", json!(h1)),
        ("payload-number", json!(1)),
        ("payload-empty-object", json!({})),
        ("payload-empty-list", json!([])),
    ];
    for (tag, p) in no_hash {
        v.push(ev(format!("register(D1,{tag})"), ds[0].text, Some(p.clone()), Sem::NoHash));
        v.push(ev(format!("hash-only({tag})"), "", Some(p), Sem::NoHash));
    }
    let lenient: Vec<(&str, Value)> = vec![
        ("version-string", pq(json!("1"), json!(h1))),
        ("version-float", pq(json!(1.0), json!(h1))),
        ("version-missing", json!({"sha256Hash": h1})),
        ("version-null", pq(Value::Null, json!(h1))),
        ("version-bool", pq(json!(true), json!(h1))),
        ("positional", json!([1, h1])),
        ("extra-key", json!({"version": 1, "sha256Hash": h1, "extra": {"x": [1]}})),
    ];
    for (tag, p) in lenient {
        v.push(ev(format!("register(D1,{tag})"), ds[0].text, Some(p.clone()), Sem::Lenient { as_register: Some(0), as_hash_only: None }));
        v.push(ev(format!("hash-only(H1,{tag})"), "", Some(p), Sem::Lenient { as_register: None, as_hash_only: Some(h1.clone()) }));
    }
    v.push(ev("register(D1,payload-null)".into(), ds[0].text, Some(Value::Null), Sem::NullPayload { doc: 0 }));
    v.push(ev("hash-only(payload-null)".into(), "", Some(Value::Null), Sem::NoHash));
    v
}

fn probe_hashes(ds: &[Doc]) -> Vec<String> {
    let mut p: Vec<String> = ds.iter().map(|d| d.hash.clone()).collect();
    p.push(ds[0].hash.to_uppercase());
    p.push(ds[0].hash[..8].to_string());
    p.push(sha_hex(UNPARSABLE));
    p.push("0".repeat(64));
    p
}

// ---------------------------------------------------------------------------------------------
// observation
// ---------------------------------------------------------------------------------------------

#[derive(Clone, Debug, PartialEq, Eq, Hash)]
enum Out {
    /// exactly document i ran: its resolvers once each, its data, no errors
    Executed(usize),
    /// nothing ran, the only error is PersistedQueryNotFound
    NotFound,
    /// nothing ran, some other error
    Rejected,
    /// anything else (resolvers of no single document, data with errors, no error at all …)
    Other(String),
    Panic(String),
}

impl Out {
    fn code(&self) -> String {
        match self {
            Out::Executed(i) => format!("executed(D{})", i + 1),
            Out::NotFound => "PersistedQueryNotFound".into(),
            Out::Rejected => "rejected".into(),
            Out::Other(s) => format!("other: {s}"),
            Out::Panic(s) => format!("panic: {s}"),
        }
    }
}

fn request_json(query: &str, payload: &Option<Value>) -> Value {
    match payload {
        Some(p) => json!({"query": query, "extensions": {"persistedQuery": p}}),
        None => json!({"query": query}),
    }
}

fn exec(w: &World, ds: &[Doc], query: &str, payload: &Option<Value>) -> Out {
    let req: Request = match serde_json::from_value(request_json(query, payload)) {
        Ok(r) => r,
        Err(e) => return Out::Other(format!("request JSON does not deserialize: {e}")),
    };
    w.log.0.lock().unwrap().clear();
    let resp = match agv_engine::catch_quiet(|| drive(w.schema.execute(req))) {
        Err(p) => return Out::Panic(p),
        Ok(None) => return Out::Other("Schema::execute parked without a pending wake-up".into()),
        Ok(Some(r)) => r,
    };
    let mut log: Vec<&'static str> = w.log.0.lock().unwrap().clone();
    log.sort();
    let data = serde_json::to_value(&resp.data).unwrap_or(Value::Null);
    let msgs: Vec<String> = resp.errors.iter().map(|e| e.message.clone()).collect();
    if log.is_empty() && data.is_null() && !msgs.is_empty() {
        return if msgs.len() == 1 && msgs[0] == "PersistedQueryNotFound" { Out::NotFound } else { Out::Rejected };
    }
    if msgs.is_empty() {
        for (i, d) in ds.iter().enumerate() {
            let mut want: Vec<&str> = d.log.to_vec();
            want.sort();
            if log == want && data == d.data {
                return Out::Executed(i);
            }
        }
    }
    Out::Other(format!("resolvers {log:?}, data {data}, errors {msgs:?}"))
}

// ---------------------------------------------------------------------------------------------
// reference model
// ---------------------------------------------------------------------------------------------

#[derive(Clone, Debug, PartialEq, Eq, Hash)]
struct Model {
    kind: Kind,
    /// registered hash → document, oldest first (FIFO kinds: bounded by the capacity)
    entries: Vec<(String, usize)>,
}

impl Model {
    fn new(kind: Kind) -> Model {
        Model { kind, entries: Vec::new() }
    }
    fn exact(&self) -> bool {
        matches!(self.kind, Kind::Fifo(_))
    }
    fn lookup(&self, h: &str) -> Option<usize> {
        self.entries.iter().find(|(k, _)| k == h).map(|(_, d)| *d)
    }
    fn register(&mut self, h: &str, doc: usize) {
        if let Some(e) = self.entries.iter_mut().find(|(k, _)| k == h) {
            e.1 = doc;
            return;
        }
        self.entries.push((h.to_string(), doc));
        if let Kind::Fifo(cap) = self.kind {
            while self.entries.len() > cap {
                self.entries.remove(0);
            }
        }
    }
    /// Outcomes the statement admits for a hash-only lookup of `h`.
    fn lookup_allowed(&self, h: &str) -> Vec<Out> {
        match (self.lookup(h), self.exact()) {
            (Some(d), true) => vec![Out::Executed(d)],
            // an evicting store of unspecified policy may have dropped it
            (Some(d), false) => vec![Out::Executed(d), Out::NotFound],
            (None, _) => vec![Out::NotFound],
        }
    }
}

#[derive(Clone, Debug, PartialEq)]
enum Effect {
    None,
    Register(String, usize),
}

/// (admitted outcome, its effect on the reference map, true = "any error will do")
fn allowed(m: &Model, ds: &[Doc], e: &Event) -> Vec<(Out, Effect, bool)> {
    let lookups = |h: &str| -> Vec<(Out, Effect, bool)> { m.lookup_allowed(h).into_iter().map(|o| (o, Effect::None, false)).collect() };
    let reject = (Out::Rejected, Effect::None, true);
    match &e.sem {
        Sem::Plain { doc } => vec![(Out::Executed(*doc), Effect::None, false)],
        Sem::Register { doc } => vec![(Out::Executed(*doc), Effect::Register(ds[*doc].hash.clone(), *doc), false)],
        Sem::RegisterUnparsable | Sem::Mismatch | Sem::BadVersion | Sem::NoHash => vec![reject],
        Sem::HashOnly { hash } => lookups(hash),
        Sem::Lenient { as_register, as_hash_only } => {
            let mut v = vec![reject];
            if let Some(d) = as_register {
                v.push((Out::Executed(*d), Effect::Register(ds[*d].hash.clone(), *d), false));
            }
            if let Some(h) = as_hash_only {
                v.extend(lookups(h));
            }
            v
        }
        Sem::NullPayload { doc } => vec![reject, (Out::Executed(*doc), Effect::None, false)],
    }
}

fn matches(allowed: &(Out, Effect, bool), got: &Out) -> bool {
    if allowed.2 {
        // "nothing ran and the request failed": the message is not the statement's business
        matches!(got, Out::Rejected | Out::NotFound)
    } else {
        allowed.0 == *got
    }
}

fn sem_tag(s: &Sem) -> &'static str {
    match s {
        Sem::Plain { .. } => "plain",
        Sem::Register { .. } => "register",
        Sem::RegisterUnparsable => "register-unparsable",
        Sem::HashOnly { .. } => "hash-only",
        Sem::Mismatch => "mismatch",
        Sem::BadVersion => "bad-version",
        Sem::NoHash => "no-hash",
        Sem::Lenient { .. } => "non-canonical",
        Sem::NullPayload { .. } => "null-payload",
    }
}

/// Defect class from the discrepancy.
fn classify(e: &Event, got: &Out, m: &Model) -> &'static str {
    match got {
        Out::Panic(_) => "panic",
        Out::Executed(d) => match &e.sem {
            Sem::HashOnly { hash } | Sem::Lenient { as_hash_only: Some(hash), .. } => match m.lookup(hash) {
                Some(r) if r != *d => "hash-only-runs-other-document",
                Some(_) => "unreachable",
                None => "hash-only-runs-unregistered-document",
            },
            Sem::Mismatch => "executes-on-hash-mismatch",
            Sem::BadVersion => "executes-on-unsupported-version",
            Sem::NoHash => "executes-without-hash",
            Sem::RegisterUnparsable => "executes-unparsable",
            _ => "executes-other-document",
        },
        Out::NotFound | Out::Rejected => match &e.sem {
            Sem::HashOnly { hash } if m.lookup(hash).is_some() && *got == Out::NotFound => "registered-document-not-found",
            Sem::HashOnly { .. } => "hash-only-fails-without-PersistedQueryNotFound",
            Sem::Register { .. } => "valid-registration-rejected",
            Sem::Plain { .. } => "plain-request-rejected",
            _ => "unexpected-rejection",
        },
        Out::Other(_) => "partial-or-foreign-execution",
    }
}

// ---------------------------------------------------------------------------------------------
// one BFS step
// ---------------------------------------------------------------------------------------------

struct Setup {
    ds: Vec<Doc>,
    alpha: Vec<Event>,
    probes: Vec<String>,
    /// Debug rendering of parse(text_i): how a stored document is recognised in the harness storage
    doc_debug: Vec<String>,
}

fn setup(ndocs: usize) -> Setup {
    let ds = docs(ndocs);
    let alpha = alphabet(&ds);
    let probes = probe_hashes(&ds);
    let doc_debug = ds.iter().map(|d| format!("{:?}", async_graphql::parser::parse_query(d.text).expect("harness document parses"))).collect();
    Setup { ds, alpha, probes, doc_debug }
}

/// Replays `hist`, judging every event; returns the model, the outcomes, and the first discrepancy.
struct Replay {
    model: Model,
    /// the reference map before the last event
    model_before: Model,
    outs: Vec<Out>,
    bad: Option<(usize, Vec<String>)>,
    world: World,
}

fn replay_hist(s: &Setup, kind: Kind, hist: &[u16], traces: &AtomicU64) -> Replay {
    let w = world(kind);
    let mut model = Model::new(kind);
    let mut model_before = model.clone();
    let mut outs = Vec::new();
    let mut bad = None;
    traces.fetch_add(1, Ordering::Relaxed);
    for (k, ei) in hist.iter().enumerate() {
        let e = &s.alpha[*ei as usize];
        model_before = model.clone();
        let got = exec(&w, &s.ds, &e.query, &e.payload);
        let al = allowed(&model, &s.ds, e);
        match al.iter().find(|a| matches(a, &got)) {
            Some(a) => {
                if let Effect::Register(h, d) = &a.1 {
                    model.register(h, *d);
                }
            }
            None => {
                if bad.is_none() {
                    bad = Some((k, al.iter().map(|a| if a.2 { "rejected (any error), nothing runs".to_string() } else { a.0.code() }).collect()));
                }
            }
        }
        outs.push(got);
    }
    Replay { model, model_before, outs, bad, world: w }
}

/// What a hash-only lookup of each probe hash answers in the state reached by `hist`
/// (each probe on its own fresh replay, so that probing never disturbs what it measures).
fn probe_vector(s: &Setup, kind: Kind, hist: &[u16], traces: &AtomicU64) -> Vec<Out> {
    s.probes
        .iter()
        .map(|p| {
            let r = replay_hist(s, kind, hist, traces);
            exec(&r.world, &s.ds, "", &Some(pq(json!(1), json!(p))))
        })
        .collect()
}

fn fifo_contents(s: &Setup, w: &World) -> Option<Vec<(String, String)>> {
    w.fifo.as_ref().map(|f| {
        f.0.lock()
            .unwrap()
            .entries
            .iter()
            .map(|(k, d)| {
                let dbg = format!("{d:?}");
                let id = s.doc_debug.iter().position(|x| *x == dbg).map(|i| format!("D{}", i + 1)).unwrap_or_else(|| format!("foreign document {dbg}"));
                (k.clone(), id)
            })
            .collect()
    })
}

type Memo = Mutex<HashMap<(Kind, Vec<u16>), (Vec<Out>, Option<Vec<(String, String)>>)>>;

struct Counters {
    traces: AtomicU64,
    lru_registered_not_found: AtomicU64,
    executed: AtomicU64,
    rejected: AtomicU64,
    not_found: AtomicU64,
    unchanged_checks: AtomicU64,
}

fn names(s: &Setup, hist: &[u16]) -> Vec<String> {
    hist.iter().map(|i| s.alpha[*i as usize].name.clone()).collect()
}

fn report(cx: &Cx, s: &Setup, kind: Kind, hist: &[u16], class: &str, detail: String) {
    let e = &s.alpha[*hist.last().unwrap() as usize];
    cx.violation(
        Violation::new(class, format!("{detail}\n  storage {}\n  history {:?}", kind.name(), names(s, hist)), json!({"storage": kind.name(), "docs": s.ds.len(), "events": names(s, hist)}))
            .key("event", sem_tag(&e.sem))
            .key("storage", match kind {
                Kind::Lru(_) => "lru",
                Kind::Fifo(_) => "fifo",
            }),
    );
}

fn step(cx: &Cx, s: &Setup, kind: Kind, memo: &Memo, c: &Counters, hist: &[u16]) -> Option<Step> {
    let r = replay_hist(s, kind, hist, &c.traces);
    let mut ok = true;
    if let Some((k, al)) = &r.bad {
        if *k + 1 < hist.len() {
            // an earlier transition already failed (and was reported when it was the last one)
            return None;
        }
        let e = &s.alpha[hist[*k] as usize];
        report(cx, s, kind, hist, classify(e, &r.outs[*k], &r.model_before), format!("{} answered {}; the statement admits {:?}\n  request {}", e.name, r.outs[*k].code(), al, request_json(&e.query, &e.payload)));
        // the reference map cannot follow an outcome the statement does not admit: the consequences
        // for later lookups are the same defect, not further ones — report once, do not extend
        cx.eval();
        return Some(Step { key: agv_engine::h64(&(kind, hist, "violating")), expand: false });
    }
    let pv = probe_vector(s, kind, hist, &c.traces);
    let contents = fifo_contents(s, &r.world);
    if !hist.is_empty() {
        cx.eval();
        let e = &s.alpha[*hist.last().unwrap() as usize];
        match r.outs.last().unwrap() {
            Out::Executed(_) => c.executed.fetch_add(1, Ordering::Relaxed),
            Out::NotFound => c.not_found.fetch_add(1, Ordering::Relaxed),
            _ => c.rejected.fetch_add(1, Ordering::Relaxed),
        };
        // every later lookup must answer what the reference map says
        for (p, got) in s.probes.iter().zip(&pv) {
            let al = r.model.lookup_allowed(p);
            if !al.contains(got) {
                ok = false;
                let class = match got {
                    Out::Executed(_) if r.model.lookup(p).is_none() => "lookup-finds-unregistered-hash",
                    Out::Executed(_) => "lookup-runs-other-document",
                    Out::NotFound => "registered-document-not-found",
                    Out::Panic(_) => "panic",
                    _ => "hash-only-fails-without-PersistedQueryNotFound",
                };
                report(cx, s, kind, hist, class, format!("after the history, hash-only({p}) answers {}; the reference map {:?} admits {:?}", got.code(), r.model.entries, al.iter().map(|o| o.code()).collect::<Vec<_>>()));
                break;
            }
            if !r.model.exact() && r.model.lookup(p).is_some() && *got == Out::NotFound {
                c.lru_registered_not_found.fetch_add(1, Ordering::Relaxed);
            }
        }
        if let Some(cs) = &contents {
            let want: Vec<(String, String)> = r.model.entries.iter().map(|(h, d)| (h.clone(), format!("D{}", d + 1))).collect();
            if *cs != want {
                ok = false;
                report(cx, s, kind, hist, "storage-contents-differ", format!("after {}, the storage holds {:?}; the reference map holds {:?}", e.name, cs, want));
            }
        }
        // a request that registers nothing must leave every later lookup (and the storage) as it was
        let prev_model = r.model_before.clone();
        if prev_model == r.model {
            c.unchanged_checks.fetch_add(1, Ordering::Relaxed);
            let prev = memo.lock().unwrap().get(&(kind, hist[..hist.len() - 1].to_vec())).cloned();
            let (ppv, pcontents) = match prev {
                Some(x) => x,
                None => {
                    let pr = replay_hist(s, kind, &hist[..hist.len() - 1], &c.traces);
                    (probe_vector(s, kind, &hist[..hist.len() - 1], &c.traces), fifo_contents(s, &pr.world))
                }
            };
            if ppv != pv || pcontents != contents {
                ok = false;
                let class = match &e.sem {
                    Sem::Mismatch => "mismatched-request-changes-lookups",
                    Sem::BadVersion => "unsupported-version-changes-lookups",
                    _ => "non-registering-request-changes-lookups",
                };
                report(
                    cx,
                    s,
                    kind,
                    hist,
                    class,
                    format!("{} registers nothing, yet lookups of {:?} answered {:?} before it and {:?} after it (storage {:?} -> {:?})", e.name, s.probes.iter().map(|p| &p[..p.len().min(8)]).collect::<Vec<_>>(), ppv.iter().map(|o| o.code()).collect::<Vec<_>>(), pv.iter().map(|o| o.code()).collect::<Vec<_>>(), pcontents, contents),
                );
            }
        }
        // non-trivial: a lookup or a must-reject request taken where something is registered, or a registration
        let nt = match &e.sem {
            Sem::Register { .. } => true,
            Sem::Plain { .. } => false,
            _ => !prev_model.entries.is_empty(),
        };
        if nt {
            cx.nontrivial(agv_engine::h64(&(kind, &prev_model.entries, hist.last().unwrap())));
        }
        let id = agv_engine::h64(&(kind, hist));
        cx.sample_with(id, || json!({"storage": kind.name(), "history": names(s, hist), "outcomes": r.outs.iter().map(|o| o.code()).collect::<Vec<_>>(), "reference_map": r.model.entries.iter().map(|(h, d)| format!("{}…→D{}", &h[..8], d + 1)).collect::<Vec<_>>()}));
    }
    memo.lock().unwrap().insert((kind, hist.to_vec()), (pv.clone(), contents.clone()));
    let last = r.outs.last().map(|o| o.code()).unwrap_or_default();
    let last_sem = hist.last().map(|i| sem_tag(&s.alpha[*i as usize].sem)).unwrap_or("");
    let key = agv_engine::h64(&(kind, &r.model.entries, last, last_sem, pv.iter().map(|o| o.code()).collect::<Vec<_>>(), &contents));
    Some(Step { key, expand: ok })
}

// ---------------------------------------------------------------------------------------------
// flood: reach real evictions of LruCacheStorage
// ---------------------------------------------------------------------------------------------

fn flood(cx: &Cx, s: &Setup, cap: usize, fillers: usize) -> Value {
    let kind = Kind::Lru(cap);
    let w = world(kind);
    let d = &s.ds;
    let mut evicted = 0u64;
    let mut survived = 0u64;
    let judge = |what: String, got: Out, allowed: Vec<Out>, hist: Vec<String>| {
        cx.eval();
        if !allowed.contains(&got) {
            let class = match &got {
                Out::Executed(_) => "hash-only-runs-other-document",
                Out::Panic(_) => "panic",
                _ => "hash-only-fails-without-PersistedQueryNotFound",
            };
            cx.violation(
                Violation::new(class, format!("{what} answered {}; admitted {:?}\n  storage {} after {fillers} filler registrations", got.code(), allowed.iter().map(|o| o.code()).collect::<Vec<_>>(), kind.name()), json!({"storage": kind.name(), "flood": fillers, "events": hist}))
                    .key("event", "flood")
                    .key("storage", "lru"),
            );
        }
        got
    };
    let reg = |i: usize| exec(&w, d, d[i].text, &Some(pq(json!(1), json!(d[i].hash))));
    let look = |h: &str| exec(&w, d, "", &Some(pq(json!(1), json!(h))));
    judge("register(D1)".into(), reg(0), vec![Out::Executed(0)], vec![]);
    judge("register(D2)".into(), reg(1), vec![Out::Executed(1)], vec![]);
    // fillers: the text of D3 followed by a distinguishing comment — same document, different hash
    let filler = |k: usize| format!("{} # filler {k}", d[2].text);
    for k in 0..fillers {
        let t = filler(k);
        let got = exec(&w, d, &t, &Some(pq(json!(1), json!(sha_hex(&t)))));
        judge(format!("register(filler {k})"), got, vec![Out::Executed(2)], vec![]);
    }
    for (i, h) in [(0usize, d[0].hash.clone()), (1, d[1].hash.clone())] {
        match judge(format!("hash-only(H{})", i + 1), look(&h), vec![Out::Executed(i), Out::NotFound], vec![]) {
            Out::NotFound => evicted += 1,
            _ => survived += 1,
        }
    }
    for k in [0, fillers / 3, fillers / 2, fillers - 2, fillers - 1] {
        match judge(format!("hash-only(H(filler {k}))"), look(&sha_hex(&filler(k))), vec![Out::Executed(2), Out::NotFound], vec![]) {
            Out::NotFound => evicted += 1,
            _ => survived += 1,
        }
    }
    // an evicted hash must be registrable again and then found
    judge("register(D1) again".into(), reg(0), vec![Out::Executed(0)], vec![]);
    judge("hash-only(H1) right after".into(), look(&d[0].hash), vec![Out::Executed(0), Out::NotFound], vec![]);
    judge("hash-only(unknown)".into(), look(&"0".repeat(64)), vec![Out::NotFound], vec![]);
    json!({"capacity": cap, "filler_registrations": fillers, "eviction_observed": evicted > 0, "survivor_observed": survived > 0})
}

// ---------------------------------------------------------------------------------------------

pub fn run(cx: &Cx) {
    let quick = cx.quick();
    let (ndocs, depth) = if quick { (3, 4) } else { (4, 6) };
    let s = setup(ndocs);
    cx.rule(
        "case = (storage kind, request history ≤ depth, next request). Requests: valid registration, hash-only lookup, hash mismatch, unknown / truncated / one-digit-off hashes, \
         version ≠ 1, malformed persistedQuery payloads, plain requests, upper-case hashes, a matching hash over an unparsable text. Non-trivial = a registration, or a lookup / \
         must-reject request issued where at least one document is registered; identified by (storage kind, reference map before, request).",
    );
    cx.assume("a rejected request is recognised by 'no resolver ran, data null, at least one error'; its message is judged only where the statement names it (PersistedQueryNotFound for hash-only lookups)");
    cx.assume("non-canonical ways of supplying the right hash (upper-case hex, version given as \"1\"/1.0/absent, positional payload) may be rejected or honoured; a null payload may be rejected or ignored; all of them are still held to 'executes nothing else, registers nothing else'");
    cx.assume("LruCacheStorage: scc::HashCache keeps at least 64 entries whatever capacity is asked, so inside the BFS no eviction happens and a registered hash that answers PersistedQueryNotFound is admitted but counted (lru_registered_not_found); evictions are reached by the separate flood scripts, whose outcome set {registered document, PersistedQueryNotFound} is all the statement fixes");
    cx.assume("documents are identified by the resolvers that ran plus the response data (three/four documents with pairwise different resolver sets and response shapes); inside the harness storage by the Debug rendering of the stored ExecutableDocument");
    cx.assume("finding a second text whose SHA-256 shares a prefix with a registered one is out of reach; hash-prefix confusion is exercised from the lookup side only (truncated hash, same first 8 digits with a different tail)");

    let kinds = [Kind::Fifo(1), Kind::Fifo(2), Kind::Fifo(64), Kind::Lru(1), Kind::Lru(2), Kind::Lru(64)];
    let memo: Memo = Mutex::new(HashMap::new());
    let c = Counters { traces: AtomicU64::new(0), lru_registered_not_found: AtomicU64::new(0), executed: AtomicU64::new(0), rejected: AtomicU64::new(0), not_found: AtomicU64::new(0), unchanged_checks: AtomicU64::new(0) };
    let idx: Vec<u16> = (0..s.alpha.len() as u16).collect();
    let mut per_kind = serde_json::Map::new();
    let mut all_complete = true;
    for kind in kinds {
        let st = bfs(&idx, &BfsCfg { max_depth: depth, max_states: 2_000_000 }, &|h: &[u16]| step(cx, &s, kind, &memo, &c, h));
        cx.add_states(st.states);
        cx.add_transitions(st.transitions);
        if st.capped {
            all_complete = false;
        }
        per_kind.insert(kind.name(), json!({"states": st.states, "transitions": st.transitions, "depth_completed": st.depth_completed, "capped": st.capped, "fixpoint_reached": st.per_level.last().map(|l| l.0 == 0).unwrap_or(false), "new_states_and_transitions_per_level": st.per_level}));
        memo.lock().unwrap().clear();
    }
    let floods: Vec<Value> = [1usize, 2, 64].iter().map(|cap| flood(cx, &s, *cap, if quick { 400 } else { 2000 })).collect();
    cx.add_traces(c.traces.load(Ordering::Relaxed) + 3);
    cx.exhaustive(all_complete);
    cx.extra("depth", json!(depth));
    cx.extra("documents", json!(s.ds.iter().map(|d| json!({"text": d.text, "sha256": d.hash})).collect::<Vec<_>>()));
    cx.extra("alphabet_size", json!(s.alpha.len()));
    cx.extra("alphabet_by_kind", {
        let mut m: std::collections::BTreeMap<&str, u64> = Default::default();
        for e in &s.alpha {
            *m.entry(sem_tag(&e.sem)).or_default() += 1;
        }
        json!(m)
    });
    cx.extra("probe_hashes", json!(s.probes.len()));
    cx.extra("bfs_per_storage", Value::Object(per_kind));
    cx.extra("last_outcomes", json!({"executed": c.executed.load(Ordering::Relaxed), "PersistedQueryNotFound": c.not_found.load(Ordering::Relaxed), "rejected_or_other": c.rejected.load(Ordering::Relaxed)}));
    cx.extra("transitions_checked_for_unchanged_lookups", json!(c.unchanged_checks.load(Ordering::Relaxed)));
    cx.extra("lru_registered_not_found", json!(c.lru_registered_not_found.load(Ordering::Relaxed)));
    cx.extra("lru_flood", json!(floods));
}

pub fn replay(case: &Value) -> String {
    let Some(kind) = case["storage"].as_str().and_then(Kind::parse) else { return "case has no storage kind".into() };
    let s = setup(case["docs"].as_u64().unwrap_or(3) as usize);
    let evs: Vec<String> = case["events"].as_array().map(|a| a.iter().filter_map(|v| v.as_str().map(|x| x.to_string())).collect()).unwrap_or_default();
    if let Some(n) = case["flood"].as_u64() {
        return format!("flood script: register D1, D2, {n} fillers on {}, then look everything up — re-run the check to repeat it (bucket assignment inside scc::HashCache is randomly keyed)", kind.name());
    }
    let mut hist = Vec::new();
    for n in &evs {
        match s.alpha.iter().position(|e| e.name == *n) {
            Some(i) => hist.push(i as u16),
            None => return format!("unknown event {n}"),
        }
    }
    let t = AtomicU64::new(0);
    let r = replay_hist(&s, kind, &hist, &t);
    let mut out = format!("storage {}\n", kind.name());
    for (i, o) in hist.iter().zip(&r.outs) {
        let e = &s.alpha[*i as usize];
        out += &format!("  {:<34} {} -> {}\n", e.name, request_json(&e.query, &e.payload), o.code());
    }
    out += &format!("reference map (oldest first): {:?}\n", r.model.entries);
    if let Some((k, al)) = &r.bad {
        out += &format!("event #{k} is outside what the statement admits: {al:?}\n");
    }
    if let Some(cs) = fifo_contents(&s, &r.world) {
        out += &format!("storage contents: {cs:?}\n");
    }
    let pv = probe_vector(&s, kind, &hist, &t);
    for (p, o) in s.probes.iter().zip(&pv) {
        out += &format!("  lookup {:<66} -> {}\n", p, o.code());
    }
    out
}

fn main() {
    agv_engine::driver::main("C31", "model_checking", run, Some(replay))
}
