//! Standard introspection query, and introspection JSON → model + self-consistency issues.

use agv_c17::model::*;
use agv_refgql::ast::{Type, Value};
use serde_json::Value as J;
use std::collections::{BTreeMap, BTreeSet};

/// The canonical introspection query (graphql-js `getIntrospectionQuery` with descriptions,
/// specifiedByUrl, directiveIsRepeatable, inputValueDeprecation and oneOf switched on;
/// `ofType` nested 7 deep below the outermost reference).
pub const INTROSPECTION_QUERY: &str = r#"
query IntrospectionQuery {
  __schema {
    description
    queryType { name kind }
    mutationType { name kind }
    subscriptionType { name kind }
    types { ...FullType }
    directives {
      name
      description
      isRepeatable
      locations
      args(includeDeprecated: true) { ...InputValue }
    }
  }
}
fragment FullType on __Type {
  kind
  name
  description
  specifiedByURL
  isOneOf
  fields(includeDeprecated: true) {
    name
    description
    args(includeDeprecated: true) { ...InputValue }
    type { ...TypeRef }
    isDeprecated
    deprecationReason
  }
  inputFields(includeDeprecated: true) { ...InputValue }
  interfaces { ...TypeRef }
  enumValues(includeDeprecated: true) {
    name
    description
    isDeprecated
    deprecationReason
  }
  possibleTypes { ...TypeRef }
}
fragment InputValue on __InputValue {
  name
  description
  type { ...TypeRef }
  defaultValue
  isDeprecated
  deprecationReason
}
fragment TypeRef on __Type {
  kind
  name
  ofType {
    kind
    name
    ofType {
      kind
      name
      ofType {
        kind
        name
        ofType {
          kind
          name
          ofType {
            kind
            name
            ofType {
              kind
              name
              ofType {
                kind
                name
              }
            }
          }
        }
      }
    }
  }
}
"#;

/// `__type(name:)` for a list of names, aliased t0, t1, … with the same selection as `types`.
pub fn type_lookup_query(names: &[String]) -> String {
    let frags = &INTROSPECTION_QUERY[INTROSPECTION_QUERY.find("fragment FullType").unwrap()..];
    let mut q = String::from("query Lookup {\n");
    for (i, n) in names.iter().enumerate() {
        q.push_str(&format!("  t{i}: __type(name: {}) {{ ...FullType }}\n", agv_c17::fam::lit(n)));
    }
    q.push_str("}\n");
    q.push_str(frags);
    q
}

/// A self-consistency problem of an introspection response.
#[derive(Clone, Debug, PartialEq)]
pub struct Issue {
    pub class: &'static str,
    pub keys: Vec<(&'static str, String)>,
    pub detail: String,
}

pub struct Introspected {
    pub model: Model,
    pub issues: Vec<Issue>,
    /// `possibleTypes` per abstract type as returned
    pub possible: BTreeMap<String, Vec<String>>,
    /// kinds of types whose `interfaces` is null
    pub interfaces_null: BTreeSet<String>,
    /// raw `types` entries by name
    pub raw_types: BTreeMap<String, J>,
}

fn kind_of(s: &str) -> Option<MKind> {
    Some(match s {
        "SCALAR" => MKind::Scalar,
        "OBJECT" => MKind::Object,
        "INTERFACE" => MKind::Interface,
        "UNION" => MKind::Union,
        "ENUM" => MKind::Enum,
        "INPUT_OBJECT" => MKind::Input,
        _ => return None,
    })
}

struct Rd<'a> {
    issues: Vec<Issue>,
    /// (referencing element, type name, kind claimed at the reference)
    refs: Vec<(String, String, String)>,
    _p: std::marker::PhantomData<&'a ()>,
}

impl<'a> Rd<'a> {
    fn issue(&mut self, class: &'static str, keys: Vec<(&'static str, String)>, detail: String) {
        self.issues.push(Issue { class, keys, detail });
    }

    /// §4.2.2 type references: wrapper kinds carry `ofType` and no name, named kinds a name and no `ofType`.
    fn type_ref(&mut self, j: &J, at: &str, depth: usize) -> Option<Type> {
        let kind = j.get("kind").and_then(|k| k.as_str()).unwrap_or("");
        let name = j.get("name").and_then(|k| k.as_str());
        let of = j.get("ofType").filter(|o| !o.is_null());
        match kind {
            "NON_NULL" | "LIST" => {
                if name.is_some() {
                    self.issue("wrapper-type-has-name", vec![("kind", kind.into())], format!("{at}: {kind} reference carries name {name:?}"));
                }
                let Some(of) = of else {
                    self.issue(if depth >= 7 { "wrapper-chain-deeper-than-query" } else { "wrapper-without-of-type" }, vec![("kind", kind.into())], format!("{at}: {kind} without ofType at depth {depth}"));
                    return None;
                };
                let inner = self.type_ref(of, at, depth + 1)?;
                if kind == "NON_NULL" {
                    if inner.is_non_null() {
                        self.issue("non-null-wraps-non-null", vec![], format!("{at}: NON_NULL of NON_NULL"));
                    }
                    Some(inner.nn())
                } else {
                    Some(inner.list())
                }
            }
            k if kind_of(k).is_some() => {
                if of.is_some() {
                    self.issue("named-type-has-of-type", vec![("kind", kind.into())], format!("{at}: named reference with ofType"));
                }
                let Some(n) = name else {
                    self.issue("named-type-without-name", vec![("kind", kind.into())], format!("{at}: {kind} reference without a name"));
                    return None;
                };
                self.refs.push((at.to_string(), n.to_string(), kind.to_string()));
                Some(Type::named(n))
            }
            other => {
                self.issue("unknown-type-kind", vec![("kind", other.into())], format!("{at}: kind {other:?}"));
                None
            }
        }
    }

    fn deprecation(&mut self, j: &J, at: &str) -> Option<Option<String>> {
        let dep = j.get("isDeprecated").and_then(|b| b.as_bool());
        let reason = j.get("deprecationReason").and_then(|r| r.as_str()).map(|s| s.to_string());
        match dep {
            Some(true) => Some(reason),
            Some(false) => {
                if reason.is_some() {
                    self.issue("deprecation-reason-without-deprecation", vec![], format!("{at}: isDeprecated false with reason {reason:?}"));
                }
                None
            }
            None => {
                self.issue("is-deprecated-missing", vec![], format!("{at}: isDeprecated is null"));
                None
            }
        }
    }

    fn input(&mut self, j: &J, at: &str) -> Option<MInput> {
        let name = j.get("name")?.as_str()?.to_string();
        let p = format!("{at}.{name}");
        let ty = self.type_ref(j.get("type")?, &p, 0)?;
        let default = match j.get("defaultValue") {
            Some(J::String(s)) => match agv_refgql::parse::parse_value(s, true) {
                Ok(v) => Some(v.v),
                Err(e) => {
                    self.issue("default-value-not-a-literal", vec![("chars", symbol_classes(s))], format!("{p}: defaultValue {s:?} is not a GraphQL constant literal: {}", e.msg));
                    Some(Value::Var(format!("unparsable default {s}")))
                }
            },
            _ => None,
        };
        Some(MInput { name, desc: j.get("description").and_then(|d| d.as_str()).map(|s| s.to_string()), ty, default, deprecated: self.deprecation(j, &p), applied: vec![] })
    }
}

fn names_of(j: Option<&J>) -> Option<Vec<String>> {
    j?.as_array().map(|a| a.iter().filter_map(|t| t.get("name").and_then(|n| n.as_str()).map(|s| s.to_string())).collect())
}

/// Read `data.__schema` of an introspection response.
pub fn read(data: &J) -> Result<Introspected, String> {
    let schema = data.get("__schema").ok_or("no __schema in data")?;
    let mut rd = Rd { issues: vec![], refs: vec![], _p: std::marker::PhantomData };
    let mut m = Model::default();
    let mut possible = BTreeMap::new();
    let mut interfaces_null = BTreeSet::new();
    let mut raw_types = BTreeMap::new();
    let types = schema.get("types").and_then(|t| t.as_array()).ok_or("__schema.types is not a list")?;
    for t in types {
        let Some(name) = t.get("name").and_then(|n| n.as_str()) else {
            rd.issue("listed-type-without-name", vec![], format!("types entry without name: {t}"));
            continue;
        };
        let kind_s = t.get("kind").and_then(|k| k.as_str()).unwrap_or("");
        let Some(kind) = kind_of(kind_s) else {
            rd.issue("listed-type-is-wrapper", vec![("kind", kind_s.into())], format!("types lists {name} with kind {kind_s}"));
            continue;
        };
        if raw_types.insert(name.to_string(), t.clone()).is_some() {
            rd.issue("type-listed-twice", vec![], format!("{name} is listed twice"));
            continue;
        }
        let mut mt = MType {
            name: name.to_string(),
            kind,
            desc: t.get("description").and_then(|d| d.as_str()).map(|s| s.to_string()),
            specified_by: t.get("specifiedByURL").and_then(|d| d.as_str()).map(|s| s.to_string()),
            one_of: t.get("isOneOf").and_then(|b| b.as_bool()).unwrap_or(false),
            interfaces: vec![],
            fields: vec![],
            input_fields: vec![],
            values: vec![],
            members: vec![],
            applied: vec![],
            extend: false,
        };
        // §4.2.x: which members are non-null for which kind
        let has = |k: &str| t.get(k).map(|v| !v.is_null()).unwrap_or(false);
        let expect = |rd: &mut Rd, member: &'static str, should: bool| {
            if has(member) != should {
                rd.issue(if should { "member-null-for-kind" } else { "member-present-for-kind" }, vec![("member", member.into()), ("kind", kind_s.into())], format!("{name} ({kind_s}): `{member}` is {}", if should { "null, must be a list" } else { "a list, must be null" }));
            }
        };
        expect(&mut rd, "fields", matches!(kind, MKind::Object | MKind::Interface));
        expect(&mut rd, "interfaces", matches!(kind, MKind::Object | MKind::Interface));
        expect(&mut rd, "possibleTypes", matches!(kind, MKind::Interface | MKind::Union));
        expect(&mut rd, "enumValues", kind == MKind::Enum);
        expect(&mut rd, "inputFields", kind == MKind::Input);
        if matches!(kind, MKind::Object | MKind::Interface) && !has("interfaces") {
            interfaces_null.insert(name.to_string());
        }
        if let Some(fs) = t.get("fields").and_then(|f| f.as_array()) {
            for f in fs {
                let Some(fname) = f.get("name").and_then(|n| n.as_str()) else { continue };
                let p = format!("{name}.{fname}");
                let Some(ty) = f.get("type").and_then(|ty| rd.type_ref(ty, &p, 0)) else { continue };
                let args = f.get("args").and_then(|a| a.as_array()).map(|a| a.iter().filter_map(|x| rd.input(x, &p)).collect()).unwrap_or_default();
                mt.fields.push(MField { name: fname.to_string(), desc: f.get("description").and_then(|d| d.as_str()).map(|s| s.to_string()), args, ty, deprecated: rd.deprecation(f, &p), applied: vec![] });
            }
        }
        if let Some(fs) = t.get("inputFields").and_then(|f| f.as_array()) {
            mt.input_fields = fs.iter().filter_map(|x| rd.input(x, name)).collect();
        }
        if let Some(vs) = t.get("enumValues").and_then(|f| f.as_array()) {
            for v in vs {
                let Some(vn) = v.get("name").and_then(|n| n.as_str()) else { continue };
                mt.values.push(MEnumValue { name: vn.to_string(), desc: v.get("description").and_then(|d| d.as_str()).map(|s| s.to_string()), deprecated: rd.deprecation(v, &format!("{name}.{vn}")), applied: vec![] });
            }
        }
        if let Some(is) = t.get("interfaces").and_then(|f| f.as_array()) {
            for i in is {
                if let Some(Type::Named(n)) = rd.type_ref(i, &format!("{name} interfaces"), 0) {
                    mt.interfaces.push(n);
                } else {
                    rd.issue("interfaces-entry-is-wrapper", vec![], format!("{name}: interfaces entry {i}"));
                }
            }
        }
        if let Some(ps) = names_of(t.get("possibleTypes")) {
            for p in t.get("possibleTypes").and_then(|f| f.as_array()).into_iter().flatten() {
                rd.type_ref(p, &format!("{name} possibleTypes"), 0);
            }
            if kind == MKind::Union {
                mt.members = ps.clone();
            }
            possible.insert(name.to_string(), ps);
        }
        m.types.insert(name.to_string(), mt);
    }
    // roots
    let root = |k: &str| schema.get(k).and_then(|t| t.get("name")).and_then(|n| n.as_str()).map(|s| s.to_string());
    match root("queryType") {
        Some(q) => m.roots = Some(Roots { query: q, mutation: root("mutationType"), subscription: root("subscriptionType") }),
        None => rd.issue("query-type-missing", vec![], "__schema.queryType is null".into()),
    }
    if let Some(r) = &m.roots {
        for (what, n) in [("queryType", Some(&r.query)), ("mutationType", r.mutation.as_ref()), ("subscriptionType", r.subscription.as_ref())] {
            if let Some(n) = n {
                rd.refs.push((format!("__schema.{what}"), n.clone(), "OBJECT".into()));
            }
        }
    }
    // directives
    for d in schema.get("directives").and_then(|d| d.as_array()).into_iter().flatten() {
        let Some(name) = d.get("name").and_then(|n| n.as_str()) else { continue };
        let p = format!("@{name}");
        let args = d.get("args").and_then(|a| a.as_array()).map(|a| a.iter().filter_map(|x| rd.input(x, &p)).collect()).unwrap_or_default();
        let md = MDirective {
            name: name.to_string(),
            desc: d.get("description").and_then(|d| d.as_str()).map(|s| s.to_string()),
            args,
            repeatable: d.get("isRepeatable").and_then(|b| b.as_bool()).unwrap_or(false),
            locations: d.get("locations").and_then(|l| l.as_array()).map(|l| l.iter().filter_map(|x| x.as_str().map(|s| s.to_string())).collect()).unwrap_or_default(),
        };
        if m.directives.insert(name.to_string(), md).is_some() {
            rd.issue("directive-listed-twice", vec![], format!("@{name} is listed twice"));
        }
    }
    // every referenced type is listed, with the kind the reference claims
    let refs = std::mem::take(&mut rd.refs);
    let mut seen = BTreeSet::new();
    for (at, n, k) in refs {
        match m.types.get(&n) {
            None => {
                if seen.insert((n.clone(), at.clone())) {
                    rd.issue("referenced-type-not-listed", vec![("via", via_of(&at))], format!("{at} refers to type {n}, which `types` does not list"));
                }
            }
            Some(t) if t.kind.word() != k => rd.issue("reference-kind-mismatch", vec![], format!("{at} refers to {n} as {k}, `types` lists it as {}", t.kind.word())),
            _ => {}
        }
    }
    Ok(Introspected { model: m, issues: rd.issues, possible, interfaces_null, raw_types })
}

/// what kind of element holds a reference (for narrow finding keys)
pub fn via_of(at: &str) -> String {
    if at.ends_with(" interfaces") {
        "interfaces".into()
    } else if at.ends_with(" possibleTypes") {
        "possibleTypes".into()
    } else if at.starts_with("__schema.") {
        "root".into()
    } else if at.starts_with('@') {
        "directive-argument".into()
    } else {
        match at.matches('.').count() {
            1 => "field-or-input-field-type".into(),
            _ => "argument-type".into(),
        }
    }
}
