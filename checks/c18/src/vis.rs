//! The visibility schema: four toggles — a type, a field, an argument + an input
//! field, an enum value — each guarded by `#[graphql(visible = "fn")]` where the
//! function reads a bitset from request data. Hidden names are unique strings so
//! that their absence from a response can be checked on the serialized text.

#![allow(clippy::all)]

use async_graphql::*;

/// bit 0: the type `SecretType` · bit 1: the field `Open.hiddenField` ·
/// bit 2: the argument `Open.echo(hiddenArg:)` and the input field `Opts.hiddenInput` ·
/// bit 3: the enum value `Level.HIDDEN_VALUE`. A set bit = visible.
#[derive(Clone, Copy, Debug)]
pub struct Bits(pub u8);

pub fn vis_type(ctx: &Context<'_>) -> bool {
    ctx.data::<Bits>().map(|b| b.0 & 1 != 0).unwrap_or(true)
}
pub fn vis_field(ctx: &Context<'_>) -> bool {
    ctx.data::<Bits>().map(|b| b.0 & 2 != 0).unwrap_or(true)
}
pub fn vis_arg(ctx: &Context<'_>) -> bool {
    ctx.data::<Bits>().map(|b| b.0 & 4 != 0).unwrap_or(true)
}
pub fn vis_enum(ctx: &Context<'_>) -> bool {
    ctx.data::<Bits>().map(|b| b.0 & 8 != 0).unwrap_or(true)
}

/// Only the privileged may see this.
#[derive(SimpleObject, Default, Clone)]
#[graphql(visible = "vis_type")]
pub struct SecretType {
    pub a: i32,
    pub s: i32,
}

/// Reachable only through the toggled field.
#[derive(SimpleObject, Default, Clone)]
pub struct DeepType {
    pub d: i32,
}

/// Reachable only as a member of the union.
#[derive(SimpleObject, Default, Clone)]
pub struct OnlyViaUnion {
    pub u: i32,
}

/// Reachable only as an implementor of the interface.
#[derive(SimpleObject, Default, Clone)]
pub struct OnlyViaInterface {
    pub a: i32,
}

#[derive(Enum, Copy, Clone, Eq, PartialEq, Default)]
pub enum Level {
    #[default]
    Low,
    #[graphql(visible = "vis_enum")]
    HiddenValue,
    High,
}

#[derive(InputObject, Default, Clone)]
pub struct Opts {
    pub plain: Option<i32>,
    #[graphql(visible = "vis_arg")]
    pub hidden_input: Option<i32>,
}

#[derive(SimpleObject, Default, Clone)]
#[graphql(complex)]
pub struct Open {
    pub a: i32,
    #[graphql(visible = "vis_field")]
    pub hidden_field: DeepType,
}

#[ComplexObject]
impl Open {
    async fn echo(&self, x: Option<i32>, #[graphql(visible = "vis_arg")] hidden_arg: Option<i32>, level: Option<Level>, opts: Option<Opts>) -> i32 {
        let _ = (level, opts);
        x.unwrap_or(0) + hidden_arg.unwrap_or(0)
    }
}

#[derive(Interface)]
#[graphql(field(name = "a", ty = "&i32"))]
pub enum Thing {
    Open(Open),
    SecretType(SecretType),
    OnlyViaInterface(OnlyViaInterface),
}

#[derive(Union)]
pub enum AnyOf {
    Open(Open),
    SecretType(SecretType),
    OnlyViaUnion(OnlyViaUnion),
}

pub struct Query;

#[Object]
impl Query {
    async fn open(&self) -> Open {
        Open::default()
    }
    /// an always-visible field whose type is toggled
    async fn secret(&self) -> Option<SecretType> {
        Some(SecretType::default())
    }
    async fn thing(&self) -> Option<Thing> {
        Some(Thing::Open(Open::default()))
    }
    async fn any(&self) -> Option<AnyOf> {
        Some(AnyOf::SecretType(SecretType::default()))
    }
    async fn level(&self) -> Level {
        Level::Low
    }
}

pub type Vis = Schema<Query, EmptyMutation, EmptySubscription>;

pub fn schema() -> Vis {
    Schema::build(Query, EmptyMutation, EmptySubscription).finish()
}

/// Hand-written description of the schema with everything visible.
pub const SDL: &str = r#"
"Only the privileged may see this."
type SecretType implements Thing { a: Int!  s: Int! }
"Reachable only through the toggled field."
type DeepType { d: Int! }
enum Level { LOW  HIDDEN_VALUE  HIGH }
input Opts { plain: Int  hiddenInput: Int }
type Open implements Thing { a: Int!  hiddenField: DeepType!  echo(x: Int, hiddenArg: Int, level: Level, opts: Opts): Int! }
interface Thing { a: Int! }
union AnyOf = Open | SecretType | OnlyViaUnion
"Reachable only as a member of the union."
type OnlyViaUnion { u: Int! }
"Reachable only as an implementor of the interface."
type OnlyViaInterface implements Thing { a: Int! }
type Query {
  open: Open!
  "an always-visible field whose type is toggled"
  secret: SecretType
  thing: Thing
  any: AnyOf
  level: Level!
}
"#;

/// What a context hides (names as they appear in the schema).
#[derive(Clone, Debug, Default)]
pub struct Hidden {
    pub types: Vec<&'static str>,
    /// `Type.field`
    pub fields: Vec<&'static str>,
    /// `Type.field.arg`
    pub args: Vec<&'static str>,
    /// `Input.field`
    pub input_fields: Vec<&'static str>,
    /// `Enum.VALUE`
    pub enum_values: Vec<&'static str>,
}

pub fn hidden(bits: u8) -> Hidden {
    let mut h = Hidden::default();
    if bits & 1 == 0 {
        h.types.push("SecretType");
    }
    if bits & 2 == 0 {
        h.fields.push("Open.hiddenField");
    }
    if bits & 4 == 0 {
        h.args.push("Open.echo.hiddenArg");
        h.input_fields.push("Opts.hiddenInput");
    }
    if bits & 8 == 0 {
        h.enum_values.push("Level.HIDDEN_VALUE");
    }
    h
}

/// (toggle bit, element kind, hidden name, a query that uses the element)
pub const PROBES: [(u8, &str, &str, &str); 7] = [
    (2, "field", "hiddenField", "{ open { hiddenField { d } } }"),
    (4, "argument", "hiddenArg", "{ open { echo(hiddenArg: 1) } }"),
    (4, "input-field", "hiddenInput", "{ open { echo(opts: {hiddenInput: 1}) } }"),
    (8, "enum-value", "HIDDEN_VALUE", "{ open { echo(level: HIDDEN_VALUE) } }"),
    (1, "type-as-field-type", "SecretType", "{ secret { s } }"),
    (1, "type-as-type-condition", "SecretType", "{ any { ... on SecretType { s } } }"),
    (1, "type-as-typename", "SecretType", "{ any { __typename } }"),
];
