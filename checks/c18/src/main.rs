//! C18 — introspection is consistent and matches the schema actually served.
//!
//! Space: the derive family of C17 (every definition kind, all text symbol
//! classes), S1, generated dynamic schemas (the C02 exemplar family: D(S1), the
//! interface chain, the leaves schema, and every single (thorough: pair of) edit;
//! plus the described exemplar of C17), and the visibility schema under ALL 2^4
//! contexts (a type, a field, an argument + input field, an enum value).
//!
//! Oracle: the standard introspection query succeeds; the response is
//! self-consistent (§4.2: every referenced type is listed with the kind the
//! reference claims, wrapper chains are well formed, members are null / lists as
//! their kind demands, possibleTypes = implementors / members, interfaces =
//! declared); the model rebuilt from it equals the reference model restricted to
//! what the context shows; no hidden name occurs in the response; `__type(name:)`
//! agrees with `types`; the structure equals the SDL export; every field the
//! response lists passes validation. (Whether a *hidden* element can still be
//! used in a query is recorded as an observation: the crate documents `visible`
//! as an introspection filter and the statement observes the introspection
//! response.)

mod introspect;
mod vis;

use agv_c17::model::{self, compare, parse_recovering, CmpCfg, MKind, Model};
use agv_common::dynamic::{build, build_meta, Encoding, Meta};
use agv_common::s1;
use agv_engine::record::{Cx, Violation};
use agv_engine::sched::drive;
use agv_refgql::ast::Type;
use agv_refgql::schema::{Kind, Schema as Ir};
use async_graphql::{Request, Response};
use introspect::{read, Introspected, INTROSPECTION_QUERY};
use rayon::prelude::*;
use serde_json::{json, Value as J};
use std::collections::{BTreeMap, BTreeSet};
use std::sync::atomic::{AtomicU64, Ordering};
use std::sync::Mutex;

// ------------------------------------------------------------------ expected model

/// The reference model restricted to what a context shows, and the types that are
/// not reachable from anything visible (listing them or not is both consistent).
fn restrict(m: &Model, h: &vis::Hidden) -> (Model, BTreeSet<String>) {
    let mut r = m.clone();
    let hidden_ty = |t: &Type| h.types.contains(&t.base());
    for t in &h.types {
        r.types.remove(*t);
    }
    for t in r.types.values_mut() {
        let tn = t.name.clone();
        t.interfaces.retain(|i| !h.types.contains(&i.as_str()));
        t.members.retain(|i| !h.types.contains(&i.as_str()));
        t.fields.retain(|f| !h.fields.contains(&format!("{tn}.{}", f.name).as_str()) && !hidden_ty(&f.ty));
        for f in t.fields.iter_mut() {
            let fname = f.name.clone();
            f.args.retain(|a| !h.args.contains(&format!("{tn}.{fname}.{}", a.name).as_str()) && !hidden_ty(&a.ty));
        }
        t.input_fields.retain(|f| !h.input_fields.contains(&format!("{tn}.{}", f.name).as_str()) && !hidden_ty(&f.ty));
        t.values.retain(|v| !h.enum_values.contains(&format!("{tn}.{}", v.name).as_str()));
    }
    // reachability from the roots
    let roots = r.root_names();
    let mut seen: BTreeSet<String> = BTreeSet::new();
    let mut stack: Vec<String> = vec![roots.query.clone()];
    stack.extend(roots.mutation.clone());
    stack.extend(roots.subscription.clone());
    for d in r.directives.values() {
        for a in &d.args {
            stack.push(a.ty.base().to_string());
        }
    }
    while let Some(n) = stack.pop() {
        if !seen.insert(n.clone()) {
            continue;
        }
        let Some(t) = r.types.get(&n) else { continue };
        for f in &t.fields {
            stack.push(f.ty.base().to_string());
            for a in &f.args {
                stack.push(a.ty.base().to_string());
            }
        }
        for f in &t.input_fields {
            stack.push(f.ty.base().to_string());
        }
        stack.extend(t.members.iter().cloned());
        stack.extend(t.interfaces.iter().cloned());
        if t.kind == MKind::Interface {
            // implementors of a reachable interface are reachable (they can be returned)
            for o in r.types.values() {
                if o.interfaces.contains(&n) {
                    stack.push(o.name.clone());
                }
            }
        }
    }
    let optional: BTreeSet<String> = r.types.keys().filter(|n| !seen.contains(*n)).cloned().collect();
    (r, optional)
}

// ------------------------------------------------------------- executable queries

fn literal_for(m: &Model, ty: &Type, depth: usize) -> Option<String> {
    match ty {
        Type::NonNull(i) => literal_for(m, i, depth),
        Type::List(_) => Some("[]".into()),
        Type::Named(n) => match n.as_str() {
            "Int" => Some("0".into()),
            "Float" => Some("0.5".into()),
            "String" | "ID" => Some("\"x\"".into()),
            "Boolean" => Some("true".into()),
            "Even" => Some("2".into()),
            _ => {
                let t = m.types.get(n)?;
                match t.kind {
                    MKind::Enum => t.values.first().map(|v| v.name.clone()),
                    MKind::Scalar => Some("\"x\"".into()),
                    MKind::Input if depth < 4 => {
                        if t.one_of {
                            let f = t.input_fields.first()?;
                            return Some(format!("{{{}: {}}}", f.name, literal_for(m, &f.ty, depth + 1)?));
                        }
                        let mut parts = Vec::new();
                        for f in &t.input_fields {
                            if f.ty.is_non_null() && f.default.is_none() {
                                parts.push(format!("{}: {}", f.name, literal_for(m, &f.ty, depth + 1)?));
                            }
                        }
                        Some(format!("{{{}}}", parts.join(", ")))
                    }
                    _ => None,
                }
            }
        },
    }
}

fn call_of(m: &Model, f: &model::MField) -> Option<String> {
    let mut args = Vec::new();
    for a in &f.args {
        if a.ty.is_non_null() && a.default.is_none() {
            args.push(format!("{}: {}", a.name, literal_for(m, &a.ty, 0)?));
        }
    }
    Some(if args.is_empty() { f.name.clone() } else { format!("{}({})", f.name, args.join(", ")) })
}

fn composite(m: &Model, n: &str) -> bool {
    matches!(m.types.get(n).map(|t| t.kind), Some(MKind::Object | MKind::Interface | MKind::Union))
}

/// One query per (reachable composite type, listed field): `Type.field` → query text.
fn field_queries(intro: &Introspected) -> Vec<(String, String)> {
    let m = &intro.model;
    let roots = m.root_names();
    let mut paths: BTreeMap<String, (String, String)> = BTreeMap::new();
    let mut queue: Vec<String> = Vec::new();
    paths.insert(roots.query.clone(), ("{ ".into(), " }".into()));
    queue.push(roots.query.clone());
    if let Some(mu) = &roots.mutation {
        paths.insert(mu.clone(), ("mutation { ".into(), " }".into()));
        queue.push(mu.clone());
    }
    let mut out = Vec::new();
    let mut qi = 0;
    while qi < queue.len() {
        let tn = queue[qi].clone();
        qi += 1;
        let Some(t) = m.types.get(&tn) else { continue };
        let (pre, suf) = paths[&tn].clone();
        for f in &t.fields {
            let Some(call) = call_of(m, f) else { continue };
            let base = f.ty.base().to_string();
            if !m.types.contains_key(&base) {
                continue; // dangling reference: reported by the consistency check
            }
            let comp = composite(m, &base);
            out.push((format!("{tn}.{}", f.name), format!("{pre}{call}{}{suf}", if comp { " { __typename }" } else { "" })));
            if comp && !paths.contains_key(&base) {
                paths.insert(base.clone(), (format!("{pre}{call} {{ "), format!(" }}{suf}")));
                queue.push(base);
            }
        }
        if matches!(t.kind, MKind::Interface | MKind::Union) {
            for o in intro.possible.get(&tn).into_iter().flatten() {
                if m.types.get(o).map(|x| x.kind == MKind::Object).unwrap_or(false) && !paths.contains_key(o) {
                    paths.insert(o.clone(), (format!("{pre}... on {o} {{ "), format!(" }}{suf}")));
                    queue.push(o.clone());
                }
            }
        }
    }
    out
}

// --------------------------------------------------------------------- the oracle

struct Subject<'a> {
    label: String,
    flavour: &'static str,
    run: &'a (dyn Fn(&str) -> Result<Response, String> + Sync),
    expected: &'a Model,
    hidden: vis::Hidden,
    descriptions: bool,
    /// compare directive definitions / roots with the reference (false where the reference SDL is structure-only)
    sdl: Option<String>,
    context: J,
}

#[derive(Default)]
struct Counters {
    agree: AtomicU64,
    equal_types: AtomicU64,
    field_queries: AtomicU64,
    lookups: AtomicU64,
    census: Mutex<BTreeMap<String, u64>>,
    observations: Mutex<BTreeMap<String, String>>,
}

fn has_validation_error(r: &Response) -> bool {
    r.errors.iter().any(|e| e.path.is_empty())
}

/// where in a JSON tree a string value occurs (array indexes collapsed)
fn find_string(j: &J, needle: &str, path: &str, out: &mut BTreeSet<String>) {
    match j {
        J::String(s) if s == needle => {
            out.insert(path.to_string());
        }
        J::Array(a) => a.iter().for_each(|x| find_string(x, needle, &format!("{path}[]"), out)),
        J::Object(o) => o.iter().for_each(|(k, x)| find_string(x, needle, &format!("{path}.{k}"), out)),
        _ => {}
    }
}

fn check(cx: &Cx, s: &Subject, cnt: &Counters) {
    cx.eval();
    let case = json!({"schema": s.label, "context": s.context});
    cx.sample_with(agv_engine::hstr(&case.to_string()), || json!({"schema": s.label, "flavour": s.flavour, "context": s.context, "query": "standard introspection query (ofType ×7, includeDeprecated: true)"}));
    let mut n_viol = 0u64;
    let mut emit = |class: &str, keys: Vec<(&str, String)>, detail: String| {
        n_viol += 1;
        *cnt.census.lock().unwrap().entry(format!("{class} {}", keys.iter().map(|(k, v)| format!("{k}={v}")).collect::<Vec<_>>().join(" "))).or_insert(0) += 1;
        let mut v = Violation::new(class, detail, case.clone());
        for (k, val) in keys {
            v = v.key(k, val);
        }
        cx.violation(v);
    };
    let resp = match agv_engine::catch_quiet(|| (s.run)(INTROSPECTION_QUERY)) {
        Ok(Ok(r)) => r,
        Ok(Err(e)) => return cx.machinery_error(format!("{}: {e}", s.label)),
        Err(p) => return emit("panic", vec![("where", "introspection".into())], format!("the introspection query panicked: {p}")),
    };
    if !resp.errors.is_empty() {
        return emit("introspection-query-fails", vec![("flavour", s.flavour.into())], format!("the standard introspection query returns errors: {:?}", resp.errors.iter().map(|e| e.message.clone()).collect::<Vec<_>>()));
    }
    let data = serde_json::to_value(&resp.data).unwrap_or(J::Null);
    let intro = match read(&data) {
        Ok(i) => i,
        Err(e) => return emit("introspection-shape", vec![], format!("response does not have the __schema shape: {e}")),
    };
    // 1. self-consistency
    for i in &intro.issues {
        let mut keys: Vec<(&str, String)> = i.keys.iter().map(|(k, v)| (*k, v.clone())).collect();
        keys.push(("flavour", s.flavour.into()));
        if i.class == "referenced-type-not-listed" {
            let hidden_here = s.hidden.types.iter().any(|t| i.detail.contains(&format!("refers to type {t},")));
            keys.push(("target", if hidden_here { "type-hidden-in-this-context" } else { "unknown-type" }.into()));
        }
        emit(i.class, keys, i.detail.clone());
    }
    // 2. equals the reference restricted to the visible elements
    let (exp, optional) = restrict(s.expected, &s.hidden);
    let mut cfg = CmpCfg::default();
    cfg.applied = false;
    cfg.descriptions = s.descriptions;
    let mut differing: BTreeSet<String> = BTreeSet::new();
    let diffs = compare(&exp, &intro.model, &cfg, &optional);
    for d in &diffs {
        differing.insert(d.path.split('.').next().unwrap_or("").to_string());
    }
    cnt.equal_types.fetch_add(exp.types.keys().filter(|n| !differing.contains(*n) && !optional.contains(*n)).count() as u64, Ordering::Relaxed);
    for d in diffs {
        if d.aspect == "implements" && intro.interfaces_null.contains(&d.path) {
            continue; // reported as member-null-for-kind
        }
        let mut keys: Vec<(&str, String)> = vec![("site", d.site.to_string())];
        if d.aspect == "field-set" || d.aspect == "argument-set" || d.aspect == "input-field-set" {
            // why does the member set differ: only members whose type is hidden here are extra?
            let got_t = intro.model.types.get(d.path.split('.').next().unwrap_or(""));
            let exp_t = exp.types.get(d.path.split('.').next().unwrap_or(""));
            let cause = match (d.aspect, got_t, exp_t) {
                ("field-set", Some(g), Some(e)) => {
                    let extra: Vec<&model::MField> = g.fields.iter().filter(|f| !e.fields.iter().any(|x| x.name == f.name)).collect();
                    let missing = e.fields.iter().any(|f| !g.fields.iter().any(|x| x.name == f.name));
                    if !missing && !extra.is_empty() && extra.iter().all(|f| s.hidden.types.contains(&f.ty.base())) {
                        "lists-a-field-whose-type-is-hidden"
                    } else if missing {
                        "misses-a-member"
                    } else {
                        "lists-an-extra-member"
                    }
                }
                _ => "other",
            };
            keys.push(("cause", cause.into()));
        }
        match &d.text {
            Some(t) => keys.push(("chars", model::symbol_classes(t))),
            None => {
                keys.push(("flavour", s.flavour.into()));
                let base = d.path.split('.').next().unwrap_or("");
                keys.push(("kind", exp.types.get(base).map(|t| t.kind.word()).unwrap_or(if base.starts_with('@') { "DIRECTIVE" } else { "-" }).to_string()));
            }
        }
        let class = match d.aspect {
            "type-missing" => "type-not-listed".to_string(),
            "type-unexpected" => "unexpected-type-listed".to_string(),
            "directive-missing" => "directive-not-listed".to_string(),
            "directive-unexpected" => "unexpected-directive-listed".to_string(),
            a => format!("{a}-differs"),
        };
        emit(&class, keys, format!("{} of {} `{}`: schema has {} — introspection reports {}", d.aspect, d.site, d.path, d.expected, d.got));
    }
    // 3. possibleTypes = exactly the visible implementors / members
    for (n, t) in &exp.types {
        if !matches!(t.kind, MKind::Interface | MKind::Union) || optional.contains(n) {
            continue;
        }
        let want = exp.possible_types(n);
        let Some(got) = intro.possible.get(n) else { continue };
        let got_set: BTreeSet<String> = got.iter().cloned().collect();
        if got_set.len() != got.len() {
            emit("possible-types-duplicate", vec![("kind", t.kind.word().into())], format!("possibleTypes of {n}: {got:?}"));
        }
        for extra in got_set.difference(&want) {
            let what = match intro.model.types.get(extra).map(|x| x.kind) {
                Some(MKind::Interface) => "lists-an-interface",
                Some(MKind::Object) => "lists-a-non-implementor",
                Some(_) => "lists-a-non-object",
                None => "lists-an-unlisted-type",
            };
            emit("possible-types-differ", vec![("kind", t.kind.word().into()), ("what", what.into()), ("flavour", s.flavour.into())], format!("possibleTypes of {} {n}: expected {want:?}, got {got:?} ({extra} {what})", t.kind.word()));
        }
        for missing in want.difference(&got_set) {
            let transitive = !exp.types.get(missing).map(|o| o.interfaces.contains(n)).unwrap_or(false);
            let what = if t.kind == MKind::Union { "misses-a-member" } else if transitive { "misses-a-transitive-implementor" } else { "misses-an-implementor" };
            emit(
                "possible-types-differ",
                vec![("kind", t.kind.word().into()), ("what", what.into()), ("flavour", s.flavour.into())],
                format!("possibleTypes of {} {n}: expected {want:?}, got {got:?} ({missing} missing)", t.kind.word()),
            );
        }
    }
    // 4. hidden names never appear
    let hidden_names: Vec<(&str, String)> = s
        .hidden
        .types
        .iter()
        .map(|t| ("type", t.to_string()))
        .chain(s.hidden.fields.iter().map(|f| ("field", f.rsplit('.').next().unwrap().to_string())))
        .chain(s.hidden.args.iter().map(|f| ("argument", f.rsplit('.').next().unwrap().to_string())))
        .chain(s.hidden.input_fields.iter().map(|f| ("input-field", f.rsplit('.').next().unwrap().to_string())))
        .chain(s.hidden.enum_values.iter().map(|f| ("enum-value", f.rsplit('.').next().unwrap().to_string())))
        .collect();
    for (what, name) in &hidden_names {
        let mut places = BTreeSet::new();
        find_string(&data, name, "", &mut places);
        for p in places {
            emit("hidden-name-in-response", vec![("element", what.to_string()), ("at", p.clone())], format!("the {what} `{name}` is hidden in this context but occurs at {p}"));
        }
    }
    // 5. __type(name:) agrees with the `types` entry
    let mut names: Vec<String> = s.expected.types.keys().cloned().collect();
    names.push("NoSuchType".into());
    names.push("__Type".into());
    for chunk in names.chunks(40) {
        let q = introspect::type_lookup_query(chunk);
        match agv_engine::catch_quiet(|| (s.run)(&q)) {
            Ok(Ok(r)) if r.errors.is_empty() => {
                let d = serde_json::to_value(&r.data).unwrap_or(J::Null);
                for (i, n) in chunk.iter().enumerate() {
                    cnt.lookups.fetch_add(1, Ordering::Relaxed);
                    let got = d.get(format!("t{i}")).cloned().unwrap_or(J::Null);
                    let want = intro.raw_types.get(n).cloned().unwrap_or(J::Null);
                    if got != want {
                        let what = if want.is_null() { "finds-an-unlisted-type" } else if got.is_null() { "misses-a-listed-type" } else { "differs-from-listing" };
                        emit("type-lookup-disagrees", vec![("what", what.into()), ("flavour", s.flavour.into())], format!("__type(name: {n:?}) = {} but `types` has {}", short(&got), short(&want)));
                    }
                }
            }
            Ok(Ok(r)) => emit("introspection-query-fails", vec![("flavour", s.flavour.into()), ("query", "__type".into())], format!("__type lookups return errors: {:?}", r.errors.iter().map(|e| e.message.clone()).collect::<Vec<_>>())),
            Ok(Err(e)) => cx.machinery_error(format!("{}: {e}", s.label)),
            Err(p) => emit("panic", vec![("where", "__type".into())], format!("__type lookup panicked: {p}")),
        }
    }
    // 6. the same type system the server exports as SDL (structure; all-visible contexts only).
    // Definitions the export itself garbles are C17's business and skipped here.
    if let Some(sdl) = &s.sdl {
        let (defs, bad, _) = parse_recovering(sdl);
        if let Ok(sm) = Model::from_defs(&defs) {
            let mut skip: BTreeSet<String> = bad.iter().map(|b| b.name.clone()).collect();
            skip.extend(optional.iter().cloned()); // unreachable types: listing them or not is both consistent
            let mut cfg = CmpCfg::default();
            cfg.applied = false;
            cfg.descriptions = false;
            cfg.directives = false;
            cfg.specified_by = false;
            for d in compare(&sm, &intro.model, &cfg, &skip) {
                if d.text.is_some() || (d.aspect == "implements" && intro.interfaces_null.contains(&d.path)) {
                    continue; // text escaping of the export is C17's; null interfaces reported above
                }
                let base = d.path.split('.').next().unwrap_or("").to_string();
                emit(
                    &format!("sdl-vs-introspection-{}", d.aspect),
                    vec![("site", d.site.to_string()), ("flavour", s.flavour.into()), ("kind", sm.types.get(&base).map(|t| t.kind.word()).unwrap_or("-").to_string())],
                    format!("{} of {} `{}`: SDL export has {} — introspection reports {}", d.aspect, d.site, d.path, d.expected, d.got),
                );
            }
        }
    }
    // 7. what introspection lists can be executed
    for (field, q) in field_queries(&intro) {
        cnt.field_queries.fetch_add(1, Ordering::Relaxed);
        match agv_engine::catch_quiet(|| (s.run)(&q)) {
            Ok(Ok(r)) => {
                if has_validation_error(&r) {
                    emit("listed-field-rejected", vec![("flavour", s.flavour.into())], format!("introspection lists {field}, but `{q}` is rejected: {:?}", r.errors.iter().map(|e| e.message.clone()).collect::<Vec<_>>()));
                }
            }
            Ok(Err(e)) => cx.machinery_error(format!("{}: `{q}`: {e}", s.label)),
            Err(p) => emit("panic", vec![("where", "field-query".into())], format!("`{q}` panicked: {p}")),
        }
    }
    if n_viol == 0 {
        cnt.agree.fetch_add(1, Ordering::Relaxed);
    }
}

fn short(j: &J) -> String {
    let s = j.to_string();
    if s.len() > 160 {
        format!("{}…", s.chars().take(160).collect::<String>())
    } else {
        s
    }
}

// ---------------------------------------------------------------- dynamic family

const CHAIN_SDL: &str = r#"
type Query { i: I  j: J  k: K!  u: U  li: [I!]  e: E  ev: Even  a: Int! }
interface I { a: Int! }
interface J implements I { a: Int!  b: Int }
type K implements J & I { a: Int!  b: Int  c: Int  e: E  next: I }
type L implements I { a: Int!  d: Int }
type M { m: Int  k: K }
union U = K | L | M
enum E { X Y }
scalar Even
"#;
const LEAF_SDL: &str = r#"
type Query { e: E  enn: E!  le: [E!]  ev: Even  evn: Even!  s: String  f: Float  b: Boolean  id: ID  o: O }
type O { e: E  ev: Even  lf: [Float]  s: String! }
enum E { X Y }
scalar Even
"#;
/// described exemplar (descriptions, deprecations, defaults, specifiedBy) — C17's, with plain texts
const DESCRIBED_SDL: &str = r#"
"dq" type Query {
  "df" node("da" id: ID! = "sv"): Node @deprecated(reason: "rf")
  items(first: Int = 3, kinds: [String!] = ["sl"], filter: Filter = {text: "so", n: 1}, old: Int @deprecated(reason: "rg")): [Item!]!
  pick(p: Pick, c: Color = RED): Thing
  stamp: Stamp
  deep: [[[Int!]!]]
}
"di" interface Node { "dif" id: ID! @deprecated(reason: "rif") }
"dj" interface Named implements Node { id: ID!  name("dja" upper: Boolean = false): String }
"do" type Item implements Named & Node { id: ID!  name(upper: Boolean = false): String  color: Color }
type Other implements Node { id: ID! }
"du" union Thing = Item | Other
"de" enum Color { "dv" RED @deprecated(reason: "rv")  GREEN @deprecated  BLUE }
"dn" input Filter { "dnf" text: String = "sf" @deprecated(reason: "rnf")  n: Int = 1  tags: [String] = ["st", null] }
"dp" input Pick @oneOf { a: Int  b: String }
"ds" scalar Stamp @specifiedBy(url: "su")
"#;

fn wrappers(base: &str) -> Vec<Type> {
    let n = || Type::named(base);
    vec![n(), n().nn(), n().list(), n().nn().list().nn(), n().list().nn(), n().nn().list()]
}

/// every IR one edit away from `ir` (the edit menu of C02)
fn edits(ir: &Ir) -> Vec<(String, Ir)> {
    let mut out = Vec::new();
    let objs: Vec<String> = ir.types.values().filter(|t| matches!(t.kind, Kind::Object { .. })).map(|t| t.name.clone()).collect();
    for (tn, t) in &ir.types {
        match &t.kind {
            Kind::Object { fields, interfaces } => {
                for (fi, f) in fields.iter().enumerate() {
                    let constrained = interfaces.iter().any(|i| ir.field(i, &f.name).is_some());
                    if constrained {
                        continue;
                    }
                    for w in wrappers(f.ty.base()) {
                        if w != f.ty {
                            let mut n = ir.clone();
                            if let Kind::Object { fields, .. } = &mut n.types.get_mut(tn).unwrap().kind {
                                fields[fi].ty = w.clone();
                            }
                            out.push((format!("{tn}.{}:{}", f.name, w), n));
                        }
                    }
                    if f.ty.base() == "Int" && ir.types.contains_key("Even") {
                        let mut n = ir.clone();
                        if let Kind::Object { fields, .. } = &mut n.types.get_mut(tn).unwrap().kind {
                            fields[fi].ty = match &f.ty {
                                Type::NonNull(_) => Type::named("Even").nn(),
                                _ => Type::named("Even"),
                            };
                        }
                        out.push((format!("{tn}.{}:Even", f.name), n));
                    }
                }
                for i in interfaces {
                    let needed_by_other = interfaces.iter().any(|j| j != i && ir.all_interfaces(j).contains(i));
                    if !needed_by_other {
                        let mut n = ir.clone();
                        if let Kind::Object { interfaces, .. } = &mut n.types.get_mut(tn).unwrap().kind {
                            interfaces.retain(|x| x != i);
                        }
                        out.push((format!("{tn}-implements-{i}"), n));
                    }
                }
            }
            Kind::Union { members } => {
                for o in &objs {
                    if !members.contains(o) && Some(o) != Some(&ir.query) {
                        let mut n = ir.clone();
                        if let Kind::Union { members } = &mut n.types.get_mut(tn).unwrap().kind {
                            members.push(o.clone());
                        }
                        out.push((format!("{tn}+={o}"), n));
                    }
                }
                if members.len() > 1 {
                    let mut n = ir.clone();
                    if let Kind::Union { members } = &mut n.types.get_mut(tn).unwrap().kind {
                        members.pop();
                    }
                    out.push((format!("{tn}-=last"), n));
                }
            }
            Kind::Enum { .. } => {
                let mut n = ir.clone();
                if let Kind::Enum { values } = &mut n.types.get_mut(tn).unwrap().kind {
                    values.push(("Z".into(), None, None));
                }
                out.push((format!("{tn}+Z"), n));
            }
            _ => {}
        }
    }
    out
}

/// two edits may add the same enum value / union member twice: not a type system
fn well_formed(ir: &Ir) -> bool {
    ir.types.values().all(|t| match &t.kind {
        Kind::Enum { values } => values.iter().map(|v| &v.0).collect::<BTreeSet<_>>().len() == values.len(),
        Kind::Union { members } => members.iter().collect::<BTreeSet<_>>().len() == members.len(),
        _ => true,
    })
}

/// the model of an IR (structure, descriptions, deprecations, defaults)
fn model_of_ir(ir: &Ir) -> Model {
    let arg = |a: &agv_refgql::schema::Arg| model::MInput { name: a.name.clone(), desc: a.desc.clone(), ty: a.ty.clone(), default: a.default.clone(), deprecated: a.deprecated.clone(), applied: vec![] };
    let field = |f: &agv_refgql::schema::FieldT| model::MField { name: f.name.clone(), desc: f.desc.clone(), args: f.args.iter().map(arg).collect(), ty: f.ty.clone(), deprecated: f.deprecated.clone(), applied: vec![] };
    let mut m = Model::default();
    for (n, t) in &ir.types {
        if model::BUILTIN_SCALARS.contains(&n.as_str()) {
            continue;
        }
        let mut mt = model::MType { name: n.clone(), kind: MKind::Scalar, desc: t.desc.clone(), specified_by: None, one_of: false, interfaces: vec![], fields: vec![], input_fields: vec![], values: vec![], members: vec![], applied: vec![], extend: false };
        match &t.kind {
            Kind::Scalar => {}
            Kind::Object { interfaces, fields } => {
                mt.kind = MKind::Object;
                mt.interfaces = interfaces.clone();
                mt.fields = fields.iter().map(field).collect();
            }
            Kind::Interface { interfaces, fields } => {
                mt.kind = MKind::Interface;
                mt.interfaces = interfaces.clone();
                mt.fields = fields.iter().map(field).collect();
            }
            Kind::Union { members } => {
                mt.kind = MKind::Union;
                mt.members = members.clone();
            }
            Kind::Enum { values } => {
                mt.kind = MKind::Enum;
                mt.values = values.iter().map(|(v, d, dep)| model::MEnumValue { name: v.clone(), desc: d.clone(), deprecated: dep.clone(), applied: vec![] }).collect();
            }
            Kind::Input { fields, one_of } => {
                mt.kind = MKind::Input;
                mt.one_of = *one_of;
                mt.input_fields = fields.iter().map(arg).collect();
            }
        }
        m.types.insert(n.clone(), mt);
    }
    m.roots = Some(model::Roots { query: ir.query.clone(), mutation: ir.mutation.clone(), subscription: ir.subscription.clone() });
    m
}

// ---------------------------------------------------------------------------- run

fn run(cx: &Cx) {
    if let Err(e) = agv_c17::model::self_test() {
        return cx.machinery_error(e);
    }
    let quick = cx.quick();
    let cnt = Counters::default();
    let wd = || std::sync::Arc::new(s1::Wd::new(Default::default()));

    // (a) static: derive family, S1
    let fam_schema = agv_c17::fam::fam();
    let fam_exp = match Model::from_sdl(&agv_c17::fam::fam_sdl()) {
        Ok(m) => m,
        Err(e) => return cx.machinery_error(format!("hand-written SDL of the derive family: {e}")),
    };
    let run_fam = |q: &str| drive(fam_schema.execute(Request::new(q))).ok_or_else(|| "execute parked".to_string());
    check(cx, &Subject { label: "fam (derive family)".into(), flavour: "static", run: &run_fam, expected: &fam_exp, hidden: Default::default(), descriptions: true, sdl: Some(fam_schema.sdl()), context: J::Null }, &cnt);
    cx.nontrivial_count(1);

    let s1_schema = s1::schema();
    let s1_exp = match Model::from_sdl(s1::SDL) {
        Ok(m) => m,
        Err(e) => return cx.machinery_error(format!("S1 SDL: {e}")),
    };
    let run_s1 = |q: &str| drive(s1_schema.execute(Request::new(q).data(wd()))).ok_or_else(|| "execute parked".to_string());
    check(cx, &Subject { label: "S1".into(), flavour: "static", run: &run_s1, expected: &s1_exp, hidden: Default::default(), descriptions: false, sdl: Some(s1_schema.sdl()), context: J::Null }, &cnt);
    cx.nontrivial_count(1);

    // (b) visibility: all 2^4 contexts
    let vis_schema = vis::schema();
    let vis_exp = match Model::from_sdl(vis::SDL) {
        Ok(m) => m,
        Err(e) => return cx.machinery_error(format!("visibility SDL: {e}")),
    };
    (0u8..16).into_par_iter().for_each(|bits| {
        let run_vis = |q: &str| drive(vis_schema.execute(Request::new(q).data(vis::Bits(bits)))).ok_or_else(|| "execute parked".to_string());
        let ctx = json!({"bits": bits, "type_visible": bits & 1 != 0, "field_visible": bits & 2 != 0, "argument_and_input_field_visible": bits & 4 != 0, "enum_value_visible": bits & 8 != 0});
        check(cx, &Subject { label: "visibility schema".into(), flavour: "static", run: &run_vis, expected: &vis_exp, hidden: vis::hidden(bits), descriptions: true, sdl: if bits == 15 { Some(vis_schema.sdl()) } else { None }, context: ctx.clone() }, &cnt);
        cx.nontrivial_count(1);
        // the served schema matches: a hidden element is rejected, a visible one is accepted
        for (bit, kind, name, q) in vis::PROBES {
            let visible = bits & bit != 0;
            let Ok(r) = run_vis(q) else { continue };
            cx.eval();
            let rejected = has_validation_error(&r);
            if kind.starts_with("type-") {
                // not part of the statement: recorded as an observation only
                cnt.observations.lock().unwrap().insert(format!("{kind} visible={visible}"), format!("`{q}` → rejected={rejected} data={}", serde_json::to_string(&r.data).unwrap_or_default()));
                continue;
            }
            if visible && rejected {
                let mut v = Violation::new("visible-element-rejected", format!("`{q}` uses the visible {kind} `{name}` and is rejected: {:?}", r.errors.iter().map(|e| e.message.clone()).collect::<Vec<_>>()), json!({"schema": "visibility schema", "context": ctx, "query": q}));
                v = v.key("element", kind);
                cx.violation(v);
                *cnt.census.lock().unwrap().entry(format!("visible-element-rejected element={kind}")).or_insert(0) += 1;
            }
            if !visible {
                // `visible` is documented as "will not be displayed in introspection": whether a
                // hidden element still executes is outside the statement — observation only
                cnt.observations.lock().unwrap().insert(format!("hidden {kind} used in a query"), format!("`{q}` → rejected={rejected} data={}", serde_json::to_string(&r.data).unwrap_or_default()));
            }
        }
    });

    // (c) dynamic: the C02 family and the described exemplar
    let mut variants: Vec<(String, Ir, Option<agv_refgql::ast::TsDoc>)> = Vec::new();
    let exemplars: Vec<(&str, Ir)> = vec![("D(S1)", Ir::from_sdl(s1::SDL).unwrap()), ("chain", Ir::from_sdl(CHAIN_SDL).unwrap()), ("leaves", Ir::from_sdl(LEAF_SDL).unwrap())];
    for (name, ir) in &exemplars {
        variants.push((name.to_string(), ir.clone(), None));
        for (l1, e1) in edits(ir) {
            if !quick && *name != "D(S1)" {
                for (l2, e2) in edits(&e1) {
                    if well_formed(&e2) {
                        variants.push((format!("{name} / {l1} / {l2}"), e2, None));
                    }
                }
            }
            variants.push((format!("{name} / {l1}"), e1, None));
        }
    }
    let described = agv_refgql::parse::parse_ts(DESCRIBED_SDL).expect("described SDL");
    variants.push(("described exemplar".into(), Ir::from_doc(&described).expect("described IR"), Some(described)));
    let rejected_by_builder = AtomicU64::new(0);
    variants.par_iter().for_each(|(label, ir, doc)| {
        let (built, exp) = match doc {
            Some(d) => {
                let mut meta = Meta { describe: true, ..Default::default() };
                meta.specified_by.insert("Stamp".into(), "su".into());
                (build_meta(ir, Encoding::default(), &meta, |b| b), Model::from_defs(&d.defs).expect("described model"))
            }
            None => (build(ir, Encoding::default()), model_of_ir(ir)),
        };
        let schema = match built {
            Ok(s) => s,
            Err(_) => {
                rejected_by_builder.fetch_add(1, Ordering::Relaxed);
                return;
            }
        };
        let run_dyn = |q: &str| agv_common::dynamic::run_dynamic(&schema, q, None, &Default::default(), wd());
        check(cx, &Subject { label: format!("dynamic {label}"), flavour: "dynamic", run: &run_dyn, expected: &exp, hidden: Default::default(), descriptions: true, sdl: Some(schema.sdl()), context: J::Null }, &cnt);
        cx.nontrivial_count(1);
    });

    // vacuity guard on the finest grain (a defect that touches every schema must still come
    // out as a violation, not as a machinery problem)
    if cnt.equal_types.load(Ordering::Relaxed) == 0 {
        cx.machinery_error("not a single type was introspected as defined: the oracle is vacuous or systematically wrong");
    }
    cx.rule(&format!(
        "case = (schema, request context). Schemas: the derive family (every definition kind, 8 text symbol classes × 13 slot kinds), S1, the visibility schema under all 16 contexts (type × field × argument+input field × enum value), {} generated dynamic schemas (D(S1), interface chain, leaves: each with every single{} edit of field wrapper / custom scalar / union ±member / −implements / +enum value; the described exemplar); variants the dynamic builder rejects are dropped. Per case: the standard introspection query, {} `__type` lookups and {} generated field queries in total, plus 7 probes per visibility context. Non-trivial = every case.",
        variants.len() - rejected_by_builder.load(Ordering::Relaxed) as usize,
        if quick { "" } else { " and pair of" },
        cnt.lookups.load(Ordering::Relaxed),
        cnt.field_queries.load(Ordering::Relaxed)
    ));
    cx.exhaustive(true);
    cx.extra("visibility_contexts", json!(16));
    cx.extra("dynamic_variants", json!(variants.len()));
    cx.extra("variants_rejected_by_builder", json!(rejected_by_builder.load(Ordering::Relaxed)));
    cx.extra("cases_fully_consistent", json!(cnt.agree.load(Ordering::Relaxed)));
    cx.extra("types_introspected_exactly", json!(cnt.equal_types.load(Ordering::Relaxed)));
    cx.extra("type_lookups", json!(cnt.lookups.load(Ordering::Relaxed)));
    cx.extra("field_queries", json!(cnt.field_queries.load(Ordering::Relaxed)));
    cx.extra("discrepancy_census", json!(*cnt.census.lock().unwrap()));
    cx.extra("hidden_element_observations", json!(*cnt.observations.lock().unwrap()));
    cx.assume("a type that no visible element reaches may be listed or not (the crate hides it); a field or argument whose type is hidden cannot be part of a well-formed restricted schema and is expected to be hidden with it");
    cx.assume("`executes` = no error without a path (validation / request errors carry no path, resolver errors do); subscription root fields are not executed");
    cx.assume("queries that use a hidden field / argument / input field / enum value / type are recorded as observations only (they execute): the crate documents `visible` as 'will not be displayed in introspection' and the statement speaks about the introspection response");
}

fn replay(case: &J) -> String {
    let label = case["schema"].as_str().unwrap_or("");
    let bits = case["context"]["bits"].as_u64().unwrap_or(15) as u8;
    let q = case["query"].as_str().unwrap_or(INTROSPECTION_QUERY);
    let r = if label.starts_with("visibility") {
        drive(vis::schema().execute(Request::new(q).data(vis::Bits(bits))))
    } else if label.starts_with("fam") {
        drive(agv_c17::fam::fam().execute(Request::new(q)))
    } else if label == "S1" {
        drive(s1::schema().execute(Request::new(q).data(std::sync::Arc::new(s1::Wd::new(Default::default())))))
    } else {
        return format!("re-run the check for dynamic variants; case = {case}");
    };
    match r {
        Some(r) => format!("context bits={bits}\nquery {q}\nresponse {}", serde_json::to_string_pretty(&r).unwrap_or_default()),
        None => "execute parked".into(),
    }
}

fn main() {
    agv_engine::driver::main("C18", "exploration", run, Some(replay))
}
