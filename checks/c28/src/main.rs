//! C28 — DataLoader delivers correct batched results under every interleaving.
//!
//! Engines: `explore` (choice DFS) + `sched` (Policy::Full). The real
//! `DataLoader::{load_one, load_many}` runs on the controlled scheduler with
//!   * a harness `Spawn` (every task the loader spawns becomes a scheduler task),
//!   * a gated `Timer` (the delay of a delayed fetch ends when the explorer opens its gate),
//!   * a gated `Loader` (every batch is logged and completes when the explorer opens its gate;
//!     it returns a complete map, a partial map, or `Err`, per configuration),
//!   * 2–3 requester tasks (one load each) and, optionally, the cancellation (drop) of one
//!     waiter while its load is in flight (a gate, i.e. an environment event).
//! For every configuration every schedule is executed in which the order of environment
//! events (timer, loader completions, cancellation) and the order of runnable tasks is free
//! and at most B preemptions (switching away from a task that could continue) occur.
//!
//! Granularity: without the H2 hook the only switch points are the natural `Pending`
//! points. Any `sched_point().await` inside src/dataloader/mod.rs would show up as a task
//! that parks while woken, i.e. as additional preemption points of the same exploration;
//! nothing in this harness has to change for that (the oracle below is one-sided in the
//! places where a hook would split an atomic step, see `judge`).

use agv_engine::explore::{explore, Chooser, Class, ExploreCfg};
use agv_engine::record::{Cx, Violation};
use agv_engine::sched::{self, End, Gate, Handle, Policy, RunCfg};
use agv_engine::{catch_quiet, h64};
use async_graphql::dataloader::{CacheFactory, DataLoader, HashMapCache, Loader, LruCache, NoCache};
use async_graphql::runtime::Timer;
use futures_util::future::BoxFuture;
use futures_util::task::{FutureObj, Spawn, SpawnError};
use rayon::prelude::*;
use serde_json::json;
use std::collections::{BTreeMap, BTreeSet, HashMap};
use std::future::Future;
use std::pin::Pin;
use std::sync::atomic::{AtomicU64, Ordering};
use std::sync::{Arc, Mutex};
use std::task::{Poll, Waker};
use std::time::Duration;

// ---------------------------------------------------------------------------------------------
// configuration

#[derive(Clone, Copy, PartialEq, Eq, Hash, Debug)]
enum CacheK {
    No,
    Map,
    Lru2,
}
impl CacheK {
    fn name(&self) -> &'static str {
        match self {
            CacheK::No => "NoCache",
            CacheK::Map => "HashMapCache",
            CacheK::Lru2 => "LruCache(2)",
        }
    }
}

#[derive(Clone, Copy, PartialEq, Eq, Hash, Debug)]
enum Mode {
    /// every batch returns a value for every key
    Ok,
    /// the store has no key 1: batches return a map without it
    Partial,
    /// every batch fails with Err(batch id)
    ErrAll,
    /// only the first batch (in call order) fails
    ErrFirst,
}
impl Mode {
    fn name(&self) -> &'static str {
        match self {
            Mode::Ok => "ok",
            Mode::Partial => "partial",
            Mode::ErrAll => "error-all",
            Mode::ErrFirst => "error-first",
        }
    }
}

const MISSING_KEY: i32 = 1;
const FED_KEY: i32 = 2;
const FED_VALUE: i32 = 102;
fn store_value(k: i32) -> i32 {
    10 + k
}

#[derive(Clone, PartialEq, Eq, Hash, Debug)]
struct Cfg {
    reqs: Vec<Vec<i32>>,
    max_batch: usize,
    cache: CacheK,
    /// feed_one(2, 102) before the requests start (cache kinds other than NoCache)
    prefeed: bool,
    mode: Mode,
    /// requester whose load is dropped when the "cancel" gate opens while it is in flight
    cancel: Option<usize>,
    part: Part,
    /// one more concurrent request on the SAME DataLoader with keys of another type (`u8`): the loader keeps its
    /// pending requests, timer state and cache per key type, and neither side may disturb the other
    other: Option<Vec<u8>>,
}

/// How the schedules of a configuration are enumerated.
#[derive(Clone, Copy, PartialEq, Eq, Hash, Debug)]
enum Part {
    /// `Policy::Full`: every order of runnable tasks and environment events, preemptions bounded.
    Full,
    /// `Policy::Eager` + one "arrive" gate per request: every order of environment events
    /// (request arrivals, timer firings, batch completions, cancellation); a woken task runs at once.
    /// Used for the 3-request configurations whose Full schedule space (4·10^5 … 10^7 each) is out of budget.
    Orders,
}
impl Part {
    fn name(&self) -> &'static str {
        match self {
            Part::Full => "full",
            Part::Orders => "event-orders",
        }
    }
}

impl Cfg {
    fn to_json(&self) -> serde_json::Value {
        json!({"requests": self.reqs, "max_batch_size": self.max_batch, "cache": self.cache.name(), "prefeed": self.prefeed, "loader": self.mode.name(), "cancel": self.cancel, "part": self.part.name(), "other_key_type_request": self.other})
    }
    fn from_json(v: &serde_json::Value) -> Option<Cfg> {
        let reqs = v["requests"].as_array()?.iter().map(|r| r.as_array().map(|a| a.iter().filter_map(|x| x.as_i64().map(|x| x as i32)).collect())).collect::<Option<Vec<Vec<i32>>>>()?;
        let cache = [CacheK::No, CacheK::Map, CacheK::Lru2].into_iter().find(|c| Some(c.name()) == v["cache"].as_str())?;
        let mode = [Mode::Ok, Mode::Partial, Mode::ErrAll, Mode::ErrFirst].into_iter().find(|c| Some(c.name()) == v["loader"].as_str())?;
        let part = [Part::Full, Part::Orders].into_iter().find(|c| Some(c.name()) == v["part"].as_str())?;
        Some(Cfg { reqs, max_batch: v["max_batch_size"].as_u64()? as usize, cache, prefeed: v["prefeed"].as_bool()?, mode, cancel: v["cancel"].as_u64().map(|x| x as usize), part, other: v["other_key_type_request"].as_array().map(|a| a.iter().filter_map(|x| x.as_u64().map(|x| x as u8)).collect()) })
    }
    fn largest(&self) -> usize {
        self.reqs.iter().map(|r| r.len()).max().unwrap_or(0)
    }
}

fn subsets() -> Vec<Vec<i32>> {
    (1..8u32).map(|m| (0..3).filter(|k| m & (1 << k) != 0).collect()).collect()
}

/// Unordered families of 2 (and 3) non-empty key sets ⊆ {0,1,2} in which at least two
/// requests share a key (forced overlap).
fn request_families(n: usize) -> Vec<Vec<Vec<i32>>> {
    let s = subsets();
    let mut out = Vec::new();
    let overlap = |a: &Vec<i32>, b: &Vec<i32>| a.iter().any(|k| b.contains(k));
    if n == 2 {
        for i in 0..s.len() {
            for j in i..s.len() {
                if overlap(&s[i], &s[j]) {
                    out.push(vec![s[i].clone(), s[j].clone()]);
                }
            }
        }
    } else {
        for i in 0..s.len() {
            for j in i..s.len() {
                for k in j..s.len() {
                    if overlap(&s[i], &s[j]) || overlap(&s[i], &s[k]) || overlap(&s[j], &s[k]) {
                        out.push(vec![s[i].clone(), s[j].clone(), s[k].clone()]);
                    }
                }
            }
        }
    }
    out
}

const CACHES: [(CacheK, bool); 5] = [(CacheK::No, false), (CacheK::Map, false), (CacheK::Map, true), (CacheK::Lru2, false), (CacheK::Lru2, true)];
const MODES: [Mode; 4] = [Mode::Ok, Mode::Partial, Mode::ErrAll, Mode::ErrFirst];

fn product(out: &mut Vec<Cfg>, part: Part, fams: &[Vec<Vec<i32>>], batches: &[usize], caches: &[(CacheK, bool)], modes: &[Mode], with_cancel: bool) {
    for reqs in fams {
        for &max_batch in batches {
            for &(cache, prefeed) in caches {
                for &mode in modes {
                    let mut cancels: Vec<Option<usize>> = vec![None];
                    if with_cancel {
                        let mut seen: Vec<&Vec<i32>> = Vec::new();
                        for (i, r) in reqs.iter().enumerate() {
                            // cancelling either of two identical requests is the same configuration
                            if !seen.contains(&r) {
                                seen.push(r);
                                cancels.push(Some(i));
                            }
                        }
                    }
                    for cancel in cancels {
                        out.push(Cfg { reqs: reqs.clone(), max_batch, cache, prefeed, mode, cancel, part, other: None });
                    }
                }
            }
        }
    }
}

fn configurations(quick: bool) -> Vec<Cfg> {
    let two = request_families(2);
    let three = request_families(3);
    let three_small: Vec<Vec<Vec<i32>>> = three.iter().filter(|f| f.iter().map(|r| r.len()).sum::<usize>() <= 4).cloned().collect();
    let mut out = Vec::new();
    // 2 requests, full schedule space: every configuration without cancellation; with cancellation
    // (10^4 schedules each) all of them in the thorough tier, a sub-product in the quick tier
    product(&mut out, Part::Full, &two, &[1, 2, 3], &CACHES, &MODES, false);
    let cancel_only = |v: &mut Vec<Cfg>, from: usize| {
        let mut i = from;
        while i < v.len() {
            if v[i].cancel.is_none() {
                v.remove(i);
            } else {
                i += 1;
            }
        }
    };
    let n = out.len();
    if quick {
        product(&mut out, Part::Full, &two, &[1, 2, 3], &[(CacheK::No, false), (CacheK::Lru2, true)], &[Mode::Ok, Mode::ErrFirst], true);
    } else {
        product(&mut out, Part::Full, &two, &[1, 2, 3], &CACHES, &MODES, true);
    }
    cancel_only(&mut out, n);
    // 3 requests, full schedule space (5·10^5 schedules each at max_batch_size 3, 10^7 at 2)
    let pick = vec![vec![vec![0], vec![0], vec![1]], vec![vec![0], vec![1], vec![0, 1]]];
    if quick {
        product(&mut out, Part::Full, &pick[..1], &[3], &[(CacheK::No, false)], &[Mode::Ok], false);
        product(&mut out, Part::Full, &pick[1..], &[3], &[(CacheK::Map, false)], &[Mode::Ok], false);
    } else {
        let singles: Vec<Vec<Vec<i32>>> = three_small.iter().filter(|f| f.iter().all(|r| r.len() == 1)).cloned().collect();
        product(&mut out, Part::Full, &singles, &[3], &[(CacheK::No, false), (CacheK::Map, false), (CacheK::Lru2, true)], &[Mode::Ok], false);
        product(&mut out, Part::Full, &pick[1..], &[3], &[(CacheK::No, false), (CacheK::Map, false), (CacheK::Lru2, true)], &[Mode::Ok], false);
        product(&mut out, Part::Full, &pick, &[2], &[(CacheK::No, false)], &[Mode::Ok], false);
    }
    // every order of environment events: all 2-request configurations, and the 3-request ones
    // (quick: families with at most 4 keys in total)
    product(&mut out, Part::Orders, &two, &[1, 2, 3], &CACHES, &MODES, true);
    product(&mut out, Part::Orders, if quick { &three_small } else { &three }, &[1, 2, 3], &CACHES, &MODES, true);
    // a request with keys of a second type next to the i32 requests: every 2-request event-orders configuration
    // without cancellation (thorough: with it too), and a sub-product with the full schedule space
    let mut extra = Vec::new();
    product(&mut extra, Part::Orders, &two, &[1, 2, 3], &CACHES, &MODES, !quick);
    product(&mut extra, Part::Full, &[vec![vec![0], vec![0, 1]]], if quick { &[2] } else { &[1, 2] }, if quick { &[(CacheK::No, false)] } else { &[(CacheK::No, false), (CacheK::Map, false)] }, &[Mode::Ok, Mode::ErrFirst], false);
    for mut c in extra {
        c.other = Some(vec![0, 1]);
        out.push(c);
    }
    out
}

// ---------------------------------------------------------------------------------------------
// per-execution recording

#[derive(Clone, Debug)]
struct Batch {
    /// keys exactly as passed to `Loader::load`
    keys: Vec<i32>,
    call: u64,
    done: Option<u64>,
    ret: Option<Result<BTreeMap<i32, i32>, i32>>,
}

#[derive(Clone, Debug, PartialEq, Eq, Hash)]
enum LoadEnd {
    Ok(BTreeMap<i32, i32>),
    Err(i32),
    Cancelled,
}

#[derive(Clone, Debug)]
struct LoadRec {
    keys: Vec<i32>,
    start: Option<u64>,
    end: Option<u64>,
    result: Option<LoadEnd>,
}

/// batch / load of the second key type (`u8` keys, values 200 + k, never fails)
#[derive(Clone, Debug)]
struct Batch8 {
    keys: Vec<u8>,
    call: u64,
    done: Option<u64>,
}
#[derive(Clone, Debug)]
struct Load8 {
    keys: Vec<u8>,
    start: Option<u64>,
    end: Option<u64>,
    result: Option<Result<BTreeMap<u8, i32>, i32>>,
}

struct Rec {
    clock: u64,
    batches: Vec<Batch>,
    batches8: Vec<Batch8>,
    load8: Option<Load8>,
    loads: Vec<LoadRec>,
    remaining: usize,
    root_waker: Option<Waker>,
}
impl Rec {
    fn tick(&mut self) -> u64 {
        self.clock += 1;
        self.clock
    }
}
type Shared = Arc<Mutex<Rec>>;

/// std HashMap (RandomState) iterating exactly in the order of `pairs` (rebuilt with fresh hasher
/// keys until it does): the order in which a batch is inserted into an LRU cache is thereby owned
/// by the harness.
fn ordered_map(pairs: &[(i32, i32)]) -> HashMap<i32, i32> {
    for _ in 0..100_000 {
        let m: HashMap<i32, i32> = pairs.iter().cloned().collect();
        if m.iter().map(|(k, _)| *k).eq(pairs.iter().map(|p| p.0)) {
            return m;
        }
    }
    panic!("harness: cannot build a HashMap with the requested iteration order");
}

struct L {
    h: Handle,
    sh: Shared,
    mode: Mode,
}
impl Loader<i32> for L {
    type Value = i32;
    type Error = i32;
    async fn load(&self, keys: &[i32]) -> Result<HashMap<i32, i32>, i32> {
        let id = {
            let mut g = self.sh.lock().unwrap();
            let call = g.tick();
            g.batches.push(Batch { keys: keys.to_vec(), call, done: None, ret: None });
            g.batches.len() - 1
        };
        self.h.gate("load").await;
        let fail = match self.mode {
            Mode::ErrAll => true,
            Mode::ErrFirst => id == 0,
            _ => false,
        };
        let mut ks = keys.to_vec();
        ks.sort();
        ks.dedup();
        let pairs: Vec<(i32, i32)> = ks.iter().filter(|k| !(self.mode == Mode::Partial && **k == MISSING_KEY)).map(|k| (*k, store_value(*k))).collect();
        let mut g = self.sh.lock().unwrap();
        let t = g.tick();
        g.batches[id].done = Some(t);
        if fail {
            g.batches[id].ret = Some(Err(id as i32));
            Err(id as i32)
        } else {
            g.batches[id].ret = Some(Ok(pairs.iter().cloned().collect()));
            Ok(ordered_map(&pairs))
        }
    }
}

impl Loader<u8> for L {
    type Value = i32;
    type Error = i32;
    async fn load(&self, keys: &[u8]) -> Result<HashMap<u8, i32>, i32> {
        let id = {
            let mut g = self.sh.lock().unwrap();
            let call = g.tick();
            g.batches8.push(Batch8 { keys: keys.to_vec(), call, done: None });
            g.batches8.len() - 1
        };
        self.h.gate("load8").await;
        let mut g = self.sh.lock().unwrap();
        let t = g.tick();
        g.batches8[id].done = Some(t);
        Ok(keys.iter().map(|k| (*k, 200 + *k as i32)).collect())
    }
}

async fn requester8<C: CacheFactory>(dl: Arc<DataLoader<L, C>>, keys: Vec<u8>, arrive: bool, sh: Shared, h: Handle) {
    if arrive {
        h.gate("arrive8").await;
    }
    {
        let mut g = sh.lock().unwrap();
        let t = g.tick();
        g.load8.as_mut().unwrap().start = Some(t);
    }
    let r = dl.load_many(keys).await.map(|m| m.into_iter().collect::<BTreeMap<u8, i32>>());
    let mut g = sh.lock().unwrap();
    let t = g.tick();
    let l = g.load8.as_mut().unwrap();
    l.end = Some(t);
    l.result = Some(r);
    g.remaining -= 1;
    if g.remaining == 0 {
        if let Some(w) = g.root_waker.take() {
            w.wake();
        }
    }
}

struct Sp(Handle);
impl Spawn for Sp {
    fn spawn_obj(&self, f: FutureObj<'static, ()>) -> Result<(), SpawnError> {
        self.0.spawn("dl", f);
        Ok(())
    }
}

struct GatedTimer(Handle);
impl Timer for GatedTimer {
    fn delay(&self, _d: Duration) -> BoxFuture<'static, ()> {
        Box::pin(self.0.gate("timer"))
    }
}

async fn requester<C: CacheFactory>(i: usize, dl: Arc<DataLoader<L, C>>, keys: Vec<i32>, cancel: bool, arrive: bool, sh: Shared, h: Handle) {
    if arrive {
        // the arrival of the request is an environment event
        h.gate("arrive").await;
    }
    {
        let mut g = sh.lock().unwrap();
        let t = g.tick();
        g.loads[i].start = Some(t);
    }
    let single = keys.len() == 1;
    let k0 = keys[0];
    let dl2 = dl.clone();
    let mut fut: Pin<Box<dyn Future<Output = Result<BTreeMap<i32, i32>, i32>> + Send>> = if single {
        Box::pin(async move { dl2.load_one(k0).await.map(|o| o.into_iter().map(|v| (k0, v)).collect()) })
    } else {
        Box::pin(async move { dl2.load_many(keys).await.map(|m| m.into_iter().collect()) })
    };
    let mut gate: Option<Gate> = None;
    let r = std::future::poll_fn(|cx| {
        if let Poll::Ready(r) = fut.as_mut().poll(cx) {
            return Poll::Ready(Some(r));
        }
        if cancel {
            // the cancellation becomes possible only once the load is in flight
            let g = gate.get_or_insert_with(|| h.gate("cancel"));
            if Pin::new(g).poll(cx).is_ready() {
                return Poll::Ready(None);
            }
        }
        Poll::Pending
    })
    .await;
    drop(fut); // a cancelled load is dropped here, mid-flight
    drop(gate);
    let mut g = sh.lock().unwrap();
    let t = g.tick();
    g.loads[i].end = Some(t);
    g.loads[i].result = Some(match r {
        Some(Ok(m)) => LoadEnd::Ok(m),
        Some(Err(e)) => LoadEnd::Err(e),
        None => LoadEnd::Cancelled,
    });
    g.remaining -= 1;
    if g.remaining == 0 {
        if let Some(w) = g.root_waker.take() {
            w.wake();
        }
    }
}

struct Exec {
    end: End,
    panic: Option<String>,
    schedule: Vec<String>,
    steps: u64,
    pending_gates: Vec<String>,
    unfinished: Vec<String>,
    batches: Vec<Batch>,
    loads: Vec<LoadRec>,
    batches8: Vec<Batch8>,
    load8: Option<Load8>,
}

fn exec_with<C: CacheFactory>(cfg: &Cfg, factory: C, ch: &mut Chooser, preempt: Class) -> Exec {
    let h = Handle::new();
    let sh: Shared = Arc::new(Mutex::new(Rec {
        clock: 0,
        batches: Vec::new(),
        batches8: Vec::new(),
        load8: cfg.other.as_ref().map(|k| Load8 { keys: k.clone(), start: None, end: None, result: None }),
        loads: cfg.reqs.iter().map(|k| LoadRec { keys: k.clone(), start: None, end: None, result: None }).collect(),
        remaining: cfg.reqs.len() + cfg.other.is_some() as usize,
        root_waker: None,
    }));
    let rc = RunCfg { policy: if cfg.part == Part::Full { Policy::Full } else { Policy::Eager }, gate_class: Class::Exhaustive, preempt_class: preempt, max_steps: 5_000 };
    // moves are also logged outside the run so that a panicking execution keeps its schedule
    let moves_log: Mutex<Vec<String>> = Mutex::new(Vec::new());
    let r = catch_quiet(|| {
        let dl = Arc::new(DataLoader::with_cache(L { h: h.clone(), sh: sh.clone(), mode: cfg.mode }, Sp(h.clone()), GatedTimer(h.clone()), factory).max_batch_size(cfg.max_batch));
        let (h2, sh2) = (h.clone(), sh.clone());
        let root = async move {
            if cfg.prefeed {
                dl.feed_one(FED_KEY, FED_VALUE).await;
            }
            for (i, keys) in cfg.reqs.iter().enumerate() {
                h2.spawn(format!("req{i}"), requester(i, dl.clone(), keys.clone(), cfg.cancel == Some(i), cfg.part == Part::Orders, sh2.clone(), h2.clone()));
            }
            if let Some(k8) = &cfg.other {
                h2.spawn("req8".to_string(), requester8(dl.clone(), k8.clone(), cfg.part == Part::Orders, sh2.clone(), h2.clone()));
            }
            std::future::poll_fn(|cx| {
                let mut g = sh2.lock().unwrap();
                if g.remaining == 0 {
                    Poll::Ready(())
                } else {
                    g.root_waker = Some(cx.waker().clone());
                    Poll::Pending
                }
            })
            .await
        };
        let res = sched::run(&h, ch, &rc, root, &mut |mv| moves_log.lock().unwrap().push(mv.to_string()));
        (res.end, res.schedule, res.steps, res.pending_gates, res.unfinished_tasks)
    });
    let g = sh.lock().unwrap();
    match r {
        Ok((end, schedule, steps, pending_gates, unfinished)) => Exec { end, panic: None, schedule, steps, pending_gates, unfinished, batches: g.batches.clone(), loads: g.loads.clone(), batches8: g.batches8.clone(), load8: g.load8.clone() },
        Err(p) => Exec { end: End::Horizon, panic: Some(p), schedule: moves_log.lock().unwrap().clone(), steps: 0, pending_gates: Vec::new(), unfinished: Vec::new(), batches: g.batches.clone(), loads: g.loads.clone(), batches8: g.batches8.clone(), load8: g.load8.clone() },
    }
}

fn exec(cfg: &Cfg, ch: &mut Chooser, preempt: Class) -> Exec {
    match cfg.cache {
        CacheK::No => exec_with(cfg, NoCache, ch, preempt),
        CacheK::Map => exec_with(cfg, HashMapCache::default(), ch, preempt),
        CacheK::Lru2 => exec_with(cfg, LruCache::new(2), ch, preempt),
    }
}

// ---------------------------------------------------------------------------------------------
// oracle

/// Canonical observation of one execution (batch key *order* is not part of it: it comes from
/// std HashSet iteration inside the loader).
#[allow(clippy::type_complexity)]
fn observation(x: &Exec) -> (String, Vec<(Vec<i32>, Option<Result<BTreeMap<i32, i32>, i32>>)>, Vec<Option<LoadEnd>>, Option<String>, Vec<Vec<u8>>, Option<Result<BTreeMap<u8, i32>, i32>>) {
    let batches = x
        .batches
        .iter()
        .map(|b| {
            let mut k = b.keys.clone();
            k.sort();
            (k, b.ret.clone())
        })
        .collect();
    let b8 = x
        .batches8
        .iter()
        .map(|b| {
            let mut k = b.keys.clone();
            k.sort();
            k
        })
        .collect();
    (format!("{:?}", x.end), batches, x.loads.iter().map(|l| l.result.clone()).collect(), x.panic.clone(), b8, x.load8.as_ref().and_then(|l| l.result.clone()))
}

struct Judgement {
    problems: Vec<(&'static str, String)>,
    /// some batch carried keys of two different requests, or some key was answered from the cache
    nontrivial: bool,
}

fn judge(cfg: &Cfg, x: &Exec) -> Judgement {
    let mut p: Vec<(&'static str, String)> = Vec::new();
    if let Some(m) = &x.panic {
        p.push(("panic", format!("the execution panicked: {m}")));
        return Judgement { problems: p, nontrivial: false };
    }
    match x.end {
        End::Done => {}
        End::Deadlock => {
            let mut stuck: Vec<String> = x.loads.iter().enumerate().filter(|(_, l)| l.result.is_none()).map(|(i, l)| format!("request {i} {:?}", l.keys)).collect();
            if let Some(l) = x.load8.as_ref().filter(|l| l.result.is_none()) {
                stuck.push(format!("the u8-keyed request {:?}", l.keys));
            }
            p.push(("deadlock", format!("every spawned task ran until it parked, every timer fired and every batch completed, yet {} never completed (unfinished tasks {:?})", stuck.join(", "), x.unfinished)));
            return Judgement { problems: p, nontrivial: false };
        }
        End::Horizon => {
            p.push(("no-termination", format!("step horizon reached after {} moves", x.steps)));
            return Judgement { problems: p, nontrivial: false };
        }
    }
    let bound = cfg.max_batch + cfg.largest();
    for (id, b) in x.batches.iter().enumerate() {
        let set: BTreeSet<i32> = b.keys.iter().cloned().collect();
        if set.len() != b.keys.len() {
            p.push(("duplicate-key-in-batch", format!("batch #{id} was called with keys {:?}", b.keys)));
        }
        if b.keys.len() >= bound {
            p.push(("oversized-batch", format!("batch #{id} has {} keys {:?}; max_batch_size {} + largest request {} allows fewer than {}", b.keys.len(), b.keys, cfg.max_batch, cfg.largest(), bound)));
        }
    }
    let caching = cfg.cache != CacheK::No;
    let mut nontrivial = false;
    for (id, b) in x.batches.iter().enumerate() {
        let owners = x.loads.iter().filter(|l| l.keys.iter().any(|k| b.keys.contains(k)) && l.start.is_some_and(|s| s < b.call) && l.end.is_some_and(|e| e > b.call)).count();
        if owners >= 2 {
            nontrivial = true;
        }
        let _ = id;
    }
    for (i, l) in x.loads.iter().enumerate() {
        let (Some(s), Some(e), Some(res)) = (l.start, l.end, l.result.as_ref()) else {
            p.push(("deadlock", format!("run ended Done but request {i} has no result")));
            continue;
        };
        // batches that can have served this load: called after it started, completed before it ended
        let during: Vec<(usize, &Batch)> = x.batches.iter().enumerate().filter(|(_, b)| b.call > s && b.done.is_some_and(|d| d < e)).collect();
        match res {
            LoadEnd::Cancelled => {}
            LoadEnd::Err(err) => {
                let ok = during.iter().any(|(id, b)| *id as i32 == *err && matches!(b.ret, Some(Err(_))) && l.keys.iter().any(|k| b.keys.contains(k)));
                if !ok {
                    p.push(("foreign-error", format!("request {i} {:?} failed with Err({err}) but no failed batch #{err} containing one of its keys was called and completed during the load", l.keys)));
                }
            }
            LoadEnd::Ok(m) => {
                if let Some(k) = m.keys().find(|k| !l.keys.contains(k)) {
                    p.push(("unrequested-key-in-result", format!("request {i} {:?} returned {:?}: key {k} was not requested", l.keys, m)));
                }
                for k in &l.keys {
                    // what the cache can have held for k when the load started (one-sided: a value enters the
                    // cache no earlier than the completion of the batch that produced it / the feed)
                    let mut cache_vals: BTreeSet<i32> = BTreeSet::new();
                    if caching {
                        if cfg.prefeed && *k == FED_KEY {
                            cache_vals.insert(FED_VALUE);
                        }
                        for b in &x.batches {
                            if let (Some(d), Some(Ok(ret))) = (b.done, b.ret.as_ref()) {
                                if d < s {
                                    if let Some(v) = ret.get(k) {
                                        cache_vals.insert(*v);
                                    }
                                }
                            }
                        }
                    }
                    let with_k: Vec<&(usize, &Batch)> = during.iter().filter(|(_, b)| b.keys.contains(k)).collect();
                    let mut allowed: BTreeSet<Option<i32>> = cache_vals.iter().map(|v| Some(*v)).collect();
                    for (_, b) in &with_k {
                        if let Some(Ok(ret)) = &b.ret {
                            allowed.insert(ret.get(k).cloned());
                        }
                    }
                    let got = m.get(k).cloned();
                    if cache_vals.is_empty() && with_k.is_empty() {
                        p.push(("key-never-passed-to-loader", format!("request {i} {:?} completed with {:?} although key {k} cannot have been in the cache when it started and no batch containing {k} was called and completed during the load", l.keys, m)));
                    } else if !allowed.contains(&got) {
                        let class = if allowed.is_empty() {
                            "ok-despite-batch-error"
                        } else if got.is_none() {
                            "missing-value"
                        } else {
                            "wrong-value"
                        };
                        p.push((class, format!("request {i} {:?} returned {:?} for key {k}; explained values (loader batches during the load / cache at its start): {:?}", l.keys, got, allowed)));
                    }
                    if !cache_vals.is_empty() && with_k.is_empty() {
                        nontrivial = true;
                    }
                }
            }
        }
    }
    // the request with keys of the second type: complete and exact values; its keys reach the u8 loader (nothing
    // of that type was ever cached before), never twice in one batch, within the batch bound
    if let Some(l) = &x.load8 {
        match (l.start, l.end, l.result.as_ref()) {
            (Some(s), Some(e), Some(res)) => {
                let want: BTreeMap<u8, i32> = l.keys.iter().map(|k| (*k, 200 + *k as i32)).collect();
                if res.as_ref().ok() != Some(&want) {
                    p.push(("other-key-type-wrong-result", format!("the u8-keyed request {:?} completed with {:?}, expected Ok({:?})", l.keys, res, want)));
                }
                for k in &l.keys {
                    if !x.batches8.iter().any(|b| b.keys.contains(k) && b.call > s && b.done.is_some_and(|d| d < e)) {
                        p.push(("other-key-type-key-never-passed-to-loader", format!("key {k}u8 of the u8-keyed request was in no u8 batch called and completed during the load (u8 batches {:?})", x.batches8)));
                    }
                }
            }
            _ => p.push(("deadlock", "run ended Done but the u8-keyed request has no result".to_string())),
        }
        for (id, b) in x.batches8.iter().enumerate() {
            let set: BTreeSet<u8> = b.keys.iter().cloned().collect();
            if set.len() != b.keys.len() {
                p.push(("duplicate-key-in-batch", format!("u8 batch #{id} was called with keys {:?}", b.keys)));
            }
            if b.keys.len() >= cfg.max_batch + l.keys.len() {
                p.push(("oversized-batch", format!("u8 batch #{id} has {} keys", b.keys.len())));
            }
            if b.keys.iter().any(|k| !l.keys.contains(k)) {
                p.push(("other-key-type-foreign-key", format!("u8 batch #{id} {:?} holds a key nobody requested with that type", b.keys)));
            }
        }
        if !x.batches8.is_empty() && !x.batches.is_empty() {
            nontrivial = true;
        }
    }
    Judgement { problems: p, nontrivial }
}

fn describe(cfg: &Cfg, x: &Exec) -> serde_json::Value {
    json!({
        "config": cfg.to_json(),
        "end": format!("{:?}", x.end),
        "schedule": x.schedule,
        "pending_gates": x.pending_gates,
        "batches": x.batches.iter().enumerate().map(|(i, b)| json!({"id": i, "keys": b.keys, "called_at": b.call, "completed_at": b.done, "returned": format!("{:?}", b.ret)})).collect::<Vec<_>>(),
        "u8_batches": x.batches8.iter().map(|b| json!({"keys": b.keys, "called_at": b.call, "completed_at": b.done})).collect::<Vec<_>>(),
        "u8_load": x.load8.as_ref().map(|l| json!({"keys": l.keys, "started_at": l.start, "ended_at": l.end, "result": format!("{:?}", l.result)})),
        "loads": x.loads.iter().enumerate().map(|(i, l)| json!({"request": i, "keys": l.keys, "started_at": l.start, "ended_at": l.end, "result": format!("{:?}", l.result)})).collect::<Vec<_>>(),
    })
}

// ---------------------------------------------------------------------------------------------

pub fn run(cx: &Cx) {
    let quick = cx.quick();
    let bound: u32 = cx.tier.pick(2, 3);
    cx.rule(
        "execution = (configuration, schedule). Configuration = 2–3 requests (non-empty key sets ⊆ {0,1,2}, at least two sharing a key) × max_batch_size {1,2,3} \
         × cache {NoCache, HashMapCache, HashMapCache+feed(2), LruCache(2), LruCache(2)+feed(2)} × loader {ok, partial (no key 1), every batch fails, first batch fails} × cancellation {none, drop request i while in flight}. \
         Part 'full' (Policy::Full): every order of runnable tasks and environment events (timer gates, batch completions, cancellation: exhaustive) with at most B preemptions, for every 2-request configuration \
         (quick: with cancellation only for {NoCache, LruCache(2)+feed} × {ok, first batch fails}) and for 3-request configurations at max_batch_size 3 (quick: 2; thorough: the 9 families of three single-key requests and {0},{1},{0,1}, × 3 caches, plus 2 at max_batch_size 2). \
         Part 'event-orders' (Policy::Eager, one arrival gate per request): every order of request arrivals, timer firings, batch completions and the cancellation, for every 2-request and 3-request configuration (quick: 3-request families with ≤ 4 keys in total). \
         Second key type: every 2-request event-orders configuration (quick: without cancellation) and a 'full' sub-product once more with a concurrent load_many of two u8 keys on the same DataLoader (own Loader impl, own gate). Non-trivial = distinct (configuration, outcome) in which a batch served two requests at once or a key was answered from the cache without a loader call.",
    );
    cx.assume("spawned tasks and timers run: a run may only end when nothing is runnable and no environment event is outstanding");
    cx.assume("switch points are the natural Pending points of the futures (no scheduling hook inside src/dataloader/mod.rs); each poll of a task is atomic");
    cx.assume("the order of keys inside one Loader::load call and of entries in result maps comes from std HashSet/HashMap iteration and is not judged (compared as sets); the loader's result map iterates in ascending key order");
    cx.assume("a value can be served from the cache only if it was fed before the requests started or returned by a batch that completed before the load started; LRU eviction is not modelled (a possibly-cached key is not required to reach the loader)");

    let cfgs = configurations(quick);
    let preempt = Class::Dev(0);
    let ecfg = ExploreCfg { bounds: [bound, 0, 0, 0], max_execs: 20_000_000, parallel: true };

    let execs = AtomicU64::new(0);
    let points = AtomicU64::new(0);
    let moves = AtomicU64::new(0);
    let max_depth = AtomicU64::new(0);
    let capped = AtomicU64::new(0);
    let outcomes: Mutex<BTreeSet<u64>> = Mutex::new(BTreeSet::new());
    let ends: Mutex<BTreeMap<String, u64>> = Mutex::new(BTreeMap::new());
    let max_batches = AtomicU64::new(0);
    let preempt_points = AtomicU64::new(0);
    let preempt_taken = AtomicU64::new(0);
    let per_part: Mutex<BTreeMap<&'static str, (u64, u64)>> = Mutex::new(BTreeMap::new());

    #[derive(Default)]
    struct Local {
        outcomes: BTreeSet<u64>,
        nontrivial: BTreeSet<u64>,
        ends: BTreeMap<String, u64>,
        moves: u64,
        max_batches: u64,
        preempt_points: u64,
        preempt_taken: u64,
        /// determinism self-test candidate: the visited execution with the greatest choice-sequence hash
        probe: Option<(u64, Vec<u32>, u64)>,
    }

    cfgs.par_iter().for_each(|cfg| {
        let cfg_h = h64(cfg);
        let local: Mutex<Local> = Mutex::new(Local::default());
        let run1 = |ch: &mut Chooser| exec(cfg, ch, preempt);
        let visit = |ch: &Chooser, x: Exec| {
            let obs = observation(&x);
            let oh = h64(&(cfg_h, &obs));
            let j = judge(cfg, &x);
            let (mut pp, mut pt_taken) = (0u64, 0u64);
            for pt in &ch.points {
                if let Some(ac) = &pt.alt_classes {
                    if ac.iter().any(|c| matches!(c, Class::Dev(_))) {
                        pp += 1;
                        if matches!(ac[pt.chosen as usize], Class::Dev(_)) {
                            pt_taken += 1;
                        }
                    }
                }
            }
            let choices = ch.choices();
            let chh = h64(&choices);
            {
                let mut g = local.lock().unwrap();
                g.moves += x.steps;
                g.max_batches = g.max_batches.max(x.batches.len() as u64);
                g.outcomes.insert(oh);
                if j.nontrivial {
                    g.nontrivial.insert(oh);
                }
                *g.ends.entry(obs.0.clone()).or_insert(0) += 1;
                g.preempt_points += pp;
                g.preempt_taken += pt_taken;
                if g.probe.as_ref().map(|(h, _, _)| chh > *h).unwrap_or(true) {
                    g.probe = Some((chh, choices.clone(), h64(&obs)));
                }
            }
            cx.sample_with(oh, || describe(cfg, &x));
            let mut seen = BTreeSet::new();
            for (class, detail) in j.problems {
                if !seen.insert(class) {
                    continue;
                }
                cx.violation(
                    Violation::new(class, format!("{}\n{}\nschedule: {:?}", cfg.to_json(), detail, x.schedule), json!({"config": cfg.to_json(), "choices": choices, "preemption_bound": bound}))
                        .key("cache", cfg.cache.name())
                        .key("loader", cfg.mode.name())
                        .key("cancel", if cfg.cancel.is_some() { "yes" } else { "no" })
                        .key("max_batch_size", cfg.max_batch.to_string())
                        .key("other_key_type", if cfg.other.is_some() { "yes" } else { "no" }),
                );
            }
        };
        let st = explore(&ecfg, &run1, &visit);
        if let Some(d) = st.diverged {
            cx.machinery_error(format!("C28: replay diverged for {}: {d}", cfg.to_json()));
        }
        if st.capped {
            capped.fetch_add(1, Ordering::Relaxed);
        }
        execs.fetch_add(st.executions, Ordering::Relaxed);
        cx.evals(st.executions);
        let local = local.into_inner().unwrap();
        moves.fetch_add(local.moves, Ordering::Relaxed);
        max_batches.fetch_max(local.max_batches, Ordering::Relaxed);
        preempt_points.fetch_add(local.preempt_points, Ordering::Relaxed);
        preempt_taken.fetch_add(local.preempt_taken, Ordering::Relaxed);
        cx.nontrivial_many(local.nontrivial.iter().cloned());
        outcomes.lock().unwrap().extend(local.outcomes.iter().cloned());
        {
            let mut g = ends.lock().unwrap();
            for (k, v) in &local.ends {
                *g.entry(k.clone()).or_insert(0) += v;
            }
        }
        {
            let mut g = per_part.lock().unwrap();
            let e = g.entry(match (cfg.part, cfg.reqs.len()) {
                (Part::Full, 2) => "full/2-requests",
                (Part::Full, _) => "full/3-requests",
                (Part::Orders, 2) => "event-orders/2-requests",
                (Part::Orders, _) => "event-orders/3-requests",
            }).or_insert((0, 0));
            e.0 += 1;
            e.1 += st.executions;
        }
        points.fetch_add(st.points, Ordering::Relaxed);
        max_depth.fetch_max(st.max_depth, Ordering::Relaxed);
        // the harness owns all nondeterminism: one recorded schedule, replayed twice, gives the recorded observation
        if let Some((_, choices, oh)) = local.probe {
            for _ in 0..2 {
                let mut ch = Chooser::from_choices(&choices);
                let x = exec(cfg, &mut ch, preempt);
                if ch.diverged.is_some() || h64(&observation(&x)) != oh {
                    cx.machinery_error(format!("C28: schedule {:?} of {} is not reproducible (harness does not own some nondeterminism)", choices, cfg.to_json()));
                }
            }
        }
    });

    let n_exec = execs.load(Ordering::Relaxed);
    let distinct = outcomes.lock().unwrap().len() as u64;
    cx.add_traces(n_exec);
    cx.add_states(distinct);
    cx.add_transitions(moves.load(Ordering::Relaxed));
    cx.extra("configurations", json!(cfgs.len()));
    cx.extra("schedules_executed", json!(n_exec));
    cx.extra("scheduling_points", json!(points.load(Ordering::Relaxed)));
    cx.extra("scheduler_moves", json!(moves.load(Ordering::Relaxed)));
    cx.extra("max_choice_depth", json!(max_depth.load(Ordering::Relaxed)));
    cx.extra("distinct_outcomes", json!(distinct));
    cx.extra("run_ends", json!(*ends.lock().unwrap()));
    cx.extra("max_batches_in_one_execution", json!(max_batches.load(Ordering::Relaxed)));
    cx.extra("preemption_bound_completed", json!(if capped.load(Ordering::Relaxed) == 0 { json!(bound) } else { json!(null) }));
    cx.extra("configurations_capped", json!(capped.load(Ordering::Relaxed)));
    cx.extra("environment_event_orders", json!("exhaustive"));
    cx.extra("preemption_points_met", json!(preempt_points.load(Ordering::Relaxed)));
    cx.extra("preemptions_taken", json!(preempt_taken.load(Ordering::Relaxed)));
    if preempt_points.load(Ordering::Relaxed) == 0 {
        cx.extra(
            "preemption_note",
            json!("measured: no scheduling point offered a preemption (no task is runnable right after its own poll at the natural Pending granularity), so the 'full' part is complete for every preemption bound; a scheduling hook inside the loader would create such points and the bound would start to bind"),
        );
    }
    cx.extra(
        "per_part_configurations_schedules",
        json!(per_part.lock().unwrap().iter().map(|(k, v)| (k.to_string(), json!({"configurations": v.0, "schedules": v.1}))).collect::<serde_json::Map<String, serde_json::Value>>()),
    );
    cx.exhaustive(capped.load(Ordering::Relaxed) == 0);
}

pub fn replay(case: &serde_json::Value) -> String {
    let Some(cfg) = Cfg::from_json(&case["config"]) else { return "case has no valid 'config'".into() };
    let choices: Vec<u32> = case["choices"].as_array().map(|a| a.iter().filter_map(|x| x.as_u64().map(|x| x as u32)).collect()).unwrap_or_default();
    let mut ch = Chooser::from_choices(&choices);
    let x = exec(&cfg, &mut ch, Class::Dev(0));
    let j = judge(&cfg, &x);
    let mut out = serde_json::to_string_pretty(&describe(&cfg, &x)).unwrap();
    if let Some(d) = &ch.diverged {
        out += &format!("\nREPLAY DIVERGED: {d}");
    }
    if j.problems.is_empty() {
        out += "\noracle: no discrepancy";
    }
    for (c, d) in j.problems {
        out += &format!("\noracle: [{c}] {d}");
    }
    out
}

fn main() {
    agv_engine::driver::main("C28", "model_checking", run, Some(replay))
}
