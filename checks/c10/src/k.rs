//! K: a small derive-built schema whose fields declare their own complexity rules
//! (`complexity = 5`, `complexity = 0`, `complexity = "n * child_complexity + 1"`), the
//! reference's rule table for it, and the chooser-driven family of documents that feed the rule
//! argument `n` by literal, variable, variable default and argument default.

use agv_engine::explore::Chooser;
use agv_refgql::ast::*;
use agv_refgql::coerce::{coerce_arguments, Val, VarValues};
use agv_refgql::measures::FieldSite;
use agv_refgql::schema::Schema as Ir;
use serde_json::{Map, Value as J};
use std::sync::atomic::{AtomicBool, Ordering};

pub use derive_schema::{builder, K};

pub const SDL: &str = r#"
type Query { a: Int!  five: Int!  zero: Int!  o: Item!  items(n: Int! = 2): [Item!]!  req(n: Int!): [Item!]!  node: Node!  so: So! }
interface Node { a: Int!  five: Int! }
type Item implements Node { a: Int!  five: Int!  items(n: Int! = 2): [Item!]! }
type So { a: Int!  c: Int!  z: Int! }
"#;

mod derive_schema {
    use agv_common::s1::enter;
    use async_graphql::*;

    pub struct Item;

    #[derive(Interface)]
    #[graphql(field(name = "a", ty = "i32"), field(name = "five", ty = "i32"))]
    pub enum Node {
        Item(Item),
    }

    #[derive(SimpleObject)]
    pub struct So {
        a: i32,
        #[graphql(complexity = 5)]
        c: i32,
        #[graphql(complexity = 0)]
        z: i32,
    }

    #[Object]
    impl Item {
        async fn a(&self, ctx: &Context<'_>) -> Result<i32> {
            enter(ctx).await.int_nn()
        }
        #[graphql(complexity = 5)]
        async fn five(&self, ctx: &Context<'_>) -> Result<i32> {
            enter(ctx).await.int_nn()
        }
        #[graphql(complexity = "n * child_complexity + 1")]
        async fn items(&self, ctx: &Context<'_>, #[graphql(default = 2)] n: usize) -> Result<Vec<Item>> {
            let _ = n;
            enter(ctx).await.list_nn(|_| Item)
        }
    }

    pub struct Query;

    #[Object]
    impl Query {
        async fn a(&self, ctx: &Context<'_>) -> Result<i32> {
            enter(ctx).await.int_nn()
        }
        #[graphql(complexity = 5)]
        async fn five(&self, ctx: &Context<'_>) -> Result<i32> {
            enter(ctx).await.int_nn()
        }
        #[graphql(complexity = 0)]
        async fn zero(&self, ctx: &Context<'_>) -> Result<i32> {
            enter(ctx).await.int_nn()
        }
        async fn o(&self, ctx: &Context<'_>) -> Result<Item> {
            enter(ctx).await;
            Ok(Item)
        }
        #[graphql(complexity = "n * child_complexity + 1")]
        async fn items(&self, ctx: &Context<'_>, #[graphql(default = 2)] n: usize) -> Result<Vec<Item>> {
            let _ = n;
            enter(ctx).await.list_nn(|_| Item)
        }
        #[graphql(complexity = "n * child_complexity + 1")]
        async fn req(&self, ctx: &Context<'_>, n: usize) -> Result<Vec<Item>> {
            let _ = n;
            enter(ctx).await.list_nn(|_| Item)
        }
        async fn node(&self, ctx: &Context<'_>) -> Result<Node> {
            enter(ctx).await;
            Ok(Node::Item(Item))
        }
        async fn so(&self, ctx: &Context<'_>) -> Result<So> {
            enter(ctx).await;
            Ok(So { a: 1, c: 2, z: 3 })
        }
    }

    pub type K = Schema<Query, EmptyMutation, EmptySubscription>;

    pub fn builder() -> SchemaBuilder<Query, EmptyMutation, EmptySubscription> {
        Schema::build(Query, EmptyMutation, EmptySubscription)
    }
}

/// The reference's view of K's complexity declarations. `bad` is raised when the rule argument
/// cannot be coerced (the family only generates coercible forms, so that is a harness error).
pub fn rule<'a>(ir: &'a Ir, vars: &'a VarValues, bad: &'a AtomicBool) -> impl Fn(&FieldSite, u64) -> Option<u64> + 'a {
    move |site: &FieldSite, child: u64| -> Option<u64> {
        let parent = site.parent?;
        match (parent, site.field.name.s.as_str()) {
            ("Query", "five") | ("Item", "five") | ("So", "c") => Some(5),
            ("Query", "zero") | ("So", "z") => Some(0),
            ("Query", "items") | ("Item", "items") | ("Query", "req") => {
                let fd = ir.field(parent, &site.field.name.s)?;
                let n = match coerce_arguments(ir, &fd.args, &site.field.args, vars) {
                    Ok(args) => match args.iter().find(|(k, _)| k == "n") {
                        Some((_, Val::Int(i))) if *i >= 0 => *i as u64,
                        _ => {
                            bad.store(true, Ordering::Relaxed);
                            0
                        }
                    },
                    Err(_) => {
                        bad.store(true, Ordering::Relaxed);
                        0
                    }
                };
                Some(n.saturating_mul(child).saturating_add(1))
            }
            _ => None,
        }
    }
}

pub struct KDoc {
    pub doc: ExecDoc,
    pub variables: Map<String, J>,
    /// how `n` was fed at the sites of this document
    pub feeds: Vec<&'static str>,
}

struct G<'c> {
    ch: &'c mut Chooser,
    vars: Vec<VarDef>,
    given: Map<String, J>,
    feeds: Vec<&'static str>,
    frags: Vec<&'static str>,
}

fn pn(s: &str) -> PName {
    PName::new(s)
}
fn field(alias: Option<&str>, name: &str, args: Vec<(PName, PValue)>, directives: Vec<Directive>, sel: Vec<Selection>) -> Selection {
    Selection::Field(Field { alias: alias.map(pn), name: pn(name), args, directives, sel, pos: Pos::default() })
}
fn leaf(name: &str) -> Selection {
    field(None, name, vec![], vec![], vec![])
}
fn int(i: i64) -> PValue {
    PValue::new(Value::Int(i.to_string()))
}

impl<'c> G<'c> {
    fn feed(&mut self, f: &'static str) {
        if !self.feeds.contains(&f) {
            self.feeds.push(f);
        }
    }
    fn var(&mut self, ty: Type, default: Option<i64>, given: Option<i64>) -> Vec<(PName, PValue)> {
        let name = format!("v{}", self.vars.len());
        self.vars.push(VarDef { name: pn(&name), ty, ty_pos: Pos::default(), default: default.map(int), directives: vec![], pos: Pos::default() });
        if let Some(g) = given {
            self.given.insert(name.clone(), J::from(g));
        }
        vec![(pn("n"), PValue::new(Value::Var(name)))]
    }
    /// the argument list feeding `n`; `has_default` = the argument declares a default (2)
    fn arg(&mut self, has_default: bool) -> Vec<(PName, PValue)> {
        let forms: &[&'static str] = if has_default {
            &["argument-default", "literal", "literal-zero", "variable", "variable-default", "variable-given-over-default", "nullable-variable-given", "nullable-variable-omitted"]
        } else {
            &["literal", "literal-zero", "variable", "variable-default", "variable-given-over-default"]
        };
        let k = self.ch.any("feed", forms.len());
        let f = forms[k];
        self.feed(f);
        let int_t = || Type::named("Int");
        match f {
            "argument-default" => vec![],
            "literal" => vec![(pn("n"), int(3))],
            "literal-zero" => vec![(pn("n"), int(0))],
            "variable" => self.var(int_t().nn(), None, Some(3)),
            "variable-default" => self.var(int_t(), Some(3), None),
            "variable-given-over-default" => self.var(int_t(), Some(1), Some(3)),
            "nullable-variable-given" => self.var(int_t(), None, Some(3)),
            // no runtime value: the argument counts as omitted and its default (2) applies (§6.4.1)
            _ => self.var(int_t(), None, None),
        }
    }
    fn use_frag(&mut self, f: &'static str) -> Selection {
        if !self.frags.contains(&f) {
            self.frags.push(f);
        }
        Selection::Spread(Spread { name: pn(f), directives: vec![], pos: Pos::default() })
    }
    /// a selection set on `Item`
    fn sub(&mut self, nested: bool) -> Vec<Selection> {
        let n = if nested { 8 } else { 7 };
        match self.ch.any("sub", n) {
            0 => vec![leaf("a")],
            1 => vec![leaf("a"), leaf("five")],
            2 => vec![field(Some("x"), "five", vec![], vec![], vec![])],
            3 => vec![self.use_frag("F")],
            4 => vec![Selection::Inline(Inline { cond: Some(pn("Item")), directives: vec![], sel: vec![leaf("a"), leaf("five")], pos: Pos::default() })],
            5 => {
                let skip = Directive { name: pn("skip"), args: vec![(pn("if"), PValue::new(Value::Bool(true)))], pos: Pos::default() };
                vec![leaf("a"), field(None, "five", vec![], vec![skip], vec![])]
            }
            6 => vec![self.use_frag("FN")],
            _ => {
                let args = self.arg(true);
                vec![field(None, "items", args, vec![], vec![leaf("a")])]
            }
        }
    }
    fn root(&mut self, alias: Option<&str>, full: bool) -> Selection {
        if !full {
            return match self.ch.any("root2", 4) {
                0 => field(alias, "a", vec![], vec![], vec![]),
                1 => field(alias, "five", vec![], vec![], vec![]),
                2 => field(alias, "items", vec![(pn("n"), int(3))], vec![], vec![leaf("a")]),
                _ => field(alias, "node", vec![], vec![], vec![leaf("five")]),
            };
        }
        match self.ch.any("root", 11) {
            0 => {
                let args = self.arg(true);
                let sub = self.sub(true);
                field(alias, "items", args, vec![], sub)
            }
            1 => {
                let args = self.arg(false);
                let sub = self.sub(true);
                field(alias, "req", args, vec![], sub)
            }
            2 => {
                let sub = self.sub(true);
                field(alias, "o", vec![], vec![], sub)
            }
            3 => field(alias, "a", vec![], vec![], vec![]),
            4 => field(alias, "five", vec![], vec![], vec![]),
            5 => field(alias, "zero", vec![], vec![], vec![]),
            6 => field(alias, "node", vec![], vec![], vec![leaf("five")]),
            7 => field(alias, "node", vec![], vec![], vec![Selection::Inline(Inline { cond: Some(pn("Item")), directives: vec![], sel: vec![leaf("five")], pos: Pos::default() })]),
            8 => field(alias, "so", vec![], vec![], vec![leaf("a"), leaf("c"), leaf("z")]),
            9 => {
                // a fragment on the object type spread into an interface-typed selection set
                let f = self.use_frag("F");
                field(alias, "node", vec![], vec![], vec![f])
            }
            _ => self.use_frag("RF"),
        }
    }
}

/// One document of the K family. `pairs` = the second root entry ranges over the full menu
/// (thorough) instead of a reduced one.
pub fn gen(ch: &mut Chooser, pairs: bool) -> KDoc {
    let mut g = G { ch, vars: vec![], given: Map::new(), feeds: vec![], frags: vec![] };
    let mut sel = vec![g.root(None, true)];
    if g.ch.any("second-root", 2) == 1 {
        let second = g.root(Some("r2"), pairs);
        sel.push(second);
    }
    let mut defs = Vec::new();
    let shorthand = g.vars.is_empty();
    defs.push(ExecDef::Op(Operation { kind: OpKind::Query, shorthand, name: None, vars: g.vars, directives: vec![], sel, pos: Pos::default() }));
    for f in &g.frags {
        let (cond, body) = match *f {
            "F" => ("Item", vec![leaf("a"), leaf("five")]),
            "FN" => ("Node", vec![leaf("five")]),
            _ => ("Query", vec![field(None, "items", vec![(pn("n"), int(3))], vec![], vec![leaf("a")]), leaf("five")]),
        };
        defs.push(ExecDef::Frag(Fragment { name: pn(f), cond: pn(cond), directives: vec![], sel: body, pos: Pos::default() }));
    }
    KDoc { doc: ExecDoc { defs }, variables: g.given, feeds: g.feeds }
}
