//! C10 — depth, complexity, recursion and directive limits are enforced exactly.
//!
//! For every document of the families below the reference computes the four measures m
//! (agv_refgql::measures: field depth, complexity, selection-set nesting, directives per
//! field — syntactic, fragments counted as if written inline). For each measure the schema is
//! built with the corresponding limit at m−1, m and m+1 (one limit per schema; schemas cached by
//! (measure, limit)) and the request is executed. Oracle: the request is rejected with no
//! resolver run (errors, data null, empty resolver log) exactly when m > limit; otherwise the
//! response equals the one of the schema without limits. On a discrepancy the implementation's
//! own threshold is bisected (limits m−3 … m+3) so that the finding states how far the
//! implementation's effective measure is from the reference's.

mod k;

use agv_common::gen::{gen_doc, GenCfg};
use agv_common::glue::{obs_of, Obs};
use agv_common::s1::{self, Wd};
use agv_engine::explore::{explore, Chooser, Class, ExploreCfg};
use agv_engine::record::{Cx, Violation};
use agv_refgql::ast::{ExecDoc, OpKind, Selection};
use agv_refgql::coerce::coerce_variables;
use agv_refgql::measures::{self, Measures};
use agv_refgql::schema::Schema as Ir;
use serde_json::{json, Map, Value as J};
use std::sync::atomic::{AtomicBool, AtomicU64, Ordering};
use std::sync::{Arc, OnceLock};

// ------------------------------------------------------------------ measures / limits

#[derive(Clone, Copy, PartialEq, Eq, Debug, Hash)]
enum M {
    Depth,
    Complexity,
    Nesting,
    Directives,
}
const ALL: [M; 4] = [M::Depth, M::Complexity, M::Nesting, M::Directives];

impl M {
    fn idx(self) -> usize {
        self as usize
    }
    /// name used in classes and keys
    fn name(self) -> &'static str {
        match self {
            M::Depth => "depth",
            M::Complexity => "complexity",
            M::Nesting => "recursive_depth",
            M::Directives => "directives",
        }
    }
    fn from_name(s: &str) -> Option<M> {
        ALL.into_iter().find(|m| m.name() == s)
    }
    fn of(self, ms: &Measures) -> u64 {
        match self {
            M::Depth => ms.depth,
            M::Complexity => ms.complexity,
            M::Nesting => ms.nesting,
            M::Directives => ms.directives,
        }
    }
}

type Limit = Option<(M, usize)>;

fn limited_static<Q, Mu, S>(b: async_graphql::SchemaBuilder<Q, Mu, S>, l: Limit) -> async_graphql::SchemaBuilder<Q, Mu, S> {
    match l {
        None => b,
        Some((M::Depth, n)) => b.limit_depth(n),
        Some((M::Complexity, n)) => b.limit_complexity(n),
        Some((M::Nesting, n)) => b.limit_recursive_depth(n),
        Some((M::Directives, n)) => b.limit_directives(n),
    }
}
fn limited_dynamic(b: async_graphql::dynamic::SchemaBuilder, l: Limit) -> async_graphql::dynamic::SchemaBuilder {
    match l {
        None => b,
        Some((M::Depth, n)) => b.limit_depth(n),
        Some((M::Complexity, n)) => b.limit_complexity(n),
        Some((M::Nesting, n)) => b.limit_recursive_depth(n),
        Some((M::Directives, n)) => b.limit_directives(n),
    }
}

const SLOTS: usize = 96;

/// Schemas keyed by (measure, limit), built on first use.
struct Cache<S> {
    base: S,
    slots: Vec<Vec<OnceLock<S>>>,
    build: Box<dyn Fn(Limit) -> S + Sync + Send>,
}
impl<S> Cache<S> {
    fn new(build: Box<dyn Fn(Limit) -> S + Sync + Send>) -> Self {
        Cache { base: build(None), slots: (0..4).map(|_| (0..SLOTS).map(|_| OnceLock::new()).collect()).collect(), build }
    }
    fn with<R>(&self, l: Limit, f: impl FnOnce(&S) -> R) -> R {
        match l {
            None => f(&self.base),
            Some((m, n)) if n < SLOTS => f(self.slots[m.idx()][n].get_or_init(|| (self.build)(l))),
            Some(_) => f(&(self.build)(l)),
        }
    }
}

// ------------------------------------------------------------------ targets

struct Ran {
    obs: Obs,
    log: Vec<String>,
    /// number of responses (1 unless a subscription stream)
    responses: usize,
}
impl Ran {
    /// the request as a whole was refused before any resolver ran: no data, only request errors
    /// (a field error — one with a path — means execution had begun), empty resolver log
    fn rejected(&self) -> bool {
        self.obs.data == "null" && !self.obs.errors.is_empty() && self.obs.errors.iter().all(|e| e.path.is_empty()) && self.log.is_empty() && self.responses == 1
    }
    fn to_json(&self) -> J {
        json!({"response": self.obs.to_json(), "resolver_log": self.log, "responses": self.responses})
    }
}

/// each target carries its flavour label ("static", "dynamic", and the same built with ValidationMode::Fast)
enum Target {
    S1(Cache<s1::S1>, &'static str),
    D1(Cache<async_graphql::dynamic::Schema>, &'static str),
    K(Cache<k::K>, &'static str),
}

impl Target {
    fn flavour(&self) -> &'static str {
        match self {
            Target::S1(_, f) | Target::K(_, f) | Target::D1(_, f) => f,
        }
    }
    fn run(&self, l: Limit, text: &str, op: Option<&str>, vars: &Map<String, J>, stream: bool) -> Result<Ran, String> {
        let wd = Arc::new(Wd::new(Default::default()));
        let r = agv_engine::catch_quiet(|| -> Result<Vec<async_graphql::Response>, String> {
            match self {
                Target::S1(c, _) => c.with(l, |s| if stream { agv_common::run_s1_stream(s, text, op, vars, wd.clone()) } else { agv_common::run_s1(s, text, op, vars, wd.clone()).map(|r| vec![r]) }),
                Target::D1(c, _) => c.with(l, |s| {
                    if stream {
                        agv_common::dynamic::run_dynamic_stream(s, text, vars, wd.clone())
                    } else {
                        agv_common::dynamic::run_dynamic(s, text, op, vars, wd.clone()).map(|r| vec![r])
                    }
                }),
                Target::K(c, _) => c.with(l, |s| {
                    let mut req = async_graphql::Request::new(text).variables(async_graphql::Variables::from_json(J::Object(vars.clone()))).data(wd.clone());
                    if let Some(o) = op {
                        req = req.operation_name(o);
                    }
                    agv_engine::sched::drive(s.execute(req)).map(|r| vec![r]).ok_or_else(|| "execute future parked without a waker".to_string())
                }),
            }
        });
        match r {
            // a subscription whose only root field is skipped yields an empty stream
            Ok(Ok(rs)) if rs.is_empty() => Ok(Ran { obs: Obs { data: "<no response>".into(), errors: vec![] }, log: wd.take_log(), responses: 0 }),
            Ok(Ok(rs)) => Ok(Ran { obs: obs_of(&rs[0]), log: wd.take_log(), responses: rs.len() }),
            Ok(Err(e)) => Err(e),
            Err(p) => Err(format!("panic: {p}")),
        }
    }
}

struct Targets {
    st: Target,
    dy: Target,
    k: Target,
    st_fast: Target,
    dy_fast: Target,
    k_fast: Target,
}
impl Targets {
    fn by_label(&self, family: &str, flavour: &str) -> &Target {
        match (family, flavour) {
            ("custom-complexity", "static-fast") => &self.k_fast,
            ("custom-complexity", _) => &self.k,
            (_, "dynamic") => &self.dy,
            (_, "dynamic-fast") => &self.dy_fast,
            (_, "static-fast") => &self.st_fast,
            _ => &self.st,
        }
    }
}

fn build_targets(s1_ir: &Ir) -> Result<Targets, String> {
    use async_graphql::ValidationMode::Fast;
    let ir = s1_ir.clone();
    let ir2 = s1_ir.clone();
    // the dynamic twin must build at all (a failure later inside the cache would panic)
    agv_common::dynamic::build(&ir, Default::default())?;
    let dy = Target::D1(Cache::new(Box::new(move |l| agv_common::dynamic::build_with(&ir, Default::default(), |b| limited_dynamic(b, l)).expect("dynamic twin of S1 builds"))), "dynamic");
    let st = Target::S1(Cache::new(Box::new(|l| limited_static(s1::builder(), l).finish())), "static");
    let k = Target::K(Cache::new(Box::new(|l| limited_static(k::builder(), l).finish())), "static");
    // ValidationMode::Fast skips most validation rules but must enforce the limits all the same
    let dy_fast = Target::D1(Cache::new(Box::new(move |l| agv_common::dynamic::build_with(&ir2, Default::default(), |b| limited_dynamic(b, l).validation_mode(Fast)).expect("dynamic twin of S1 builds"))), "dynamic-fast");
    let st_fast = Target::S1(Cache::new(Box::new(|l| limited_static(s1::builder(), l).validation_mode(Fast).finish())), "static-fast");
    let k_fast = Target::K(Cache::new(Box::new(|l| limited_static(k::builder(), l).validation_mode(Fast).finish())), "static-fast");
    Ok(Targets { st, dy, k, st_fast, dy_fast, k_fast })
}

// ------------------------------------------------------------------ one document

struct DocCase {
    family: &'static str,
    text: String,
    op: Option<String>,
    vars: Map<String, J>,
    ms: Measures,
    feature: String,
    feed: String,
    /// "<kind of the enclosing static type>-><kind of the fragment's type condition>" for every spread
    /// whose fragment is declared on another type than the selection set it is spread into; "none" otherwise
    retyping_spread: String,
    /// a variable without runtime value (not given, no default) feeds a complexity rule argument
    unset_variable_feeds_rule: bool,
    stream: bool,
}

#[derive(Default)]
struct Stats {
    docs: AtomicU64,
    not_doc: AtomicU64,
    invalid: AtomicU64,
    runs: AtomicU64,
    agree_reject: AtomicU64,
    agree_accept: AtomicU64,
    per_measure: [[AtomicU64; 2]; 4],
    max_measure: [AtomicU64; 4],
}

fn features_of(doc: &ExecDoc, custom_rule: bool) -> String {
    fn walk(sel: &[Selection], f: &mut [bool; 4]) {
        for s in sel {
            match s {
                Selection::Field(x) => {
                    f[2] |= x.alias.is_some();
                    f[3] |= !x.directives.is_empty();
                    walk(&x.sel, f);
                }
                Selection::Inline(i) => {
                    f[1] = true;
                    f[3] |= !i.directives.is_empty();
                    walk(&i.sel, f);
                }
                Selection::Spread(sp) => {
                    f[0] = true;
                    f[3] |= !sp.directives.is_empty();
                }
            }
        }
    }
    let mut f = [false; 4];
    for o in doc.ops() {
        walk(&o.sel, &mut f);
    }
    for fr in doc.frags() {
        walk(&fr.sel, &mut f);
    }
    let mut v: Vec<&str> = Vec::new();
    for (on, name) in f.iter().zip(["fragment-spread", "inline-fragment", "alias", "directive"]) {
        if *on {
            v.push(name);
        }
    }
    if custom_rule {
        v.push("custom-complexity-rule");
    }
    if v.is_empty() {
        "plain".into()
    } else {
        v.join("+")
    }
}

fn retyping_spreads(ir: &Ir, doc: &ExecDoc) -> String {
    use std::collections::BTreeSet;
    fn kind(ir: &Ir, t: &str) -> &'static str {
        if ir.is_object(t) {
            "object"
        } else if ir.is_abstract(t) {
            if ir.possible_types(t).is_empty() || matches!(ir.ty(t).map(|x| &x.kind), Some(agv_refgql::schema::Kind::Union { .. })) {
                "union"
            } else {
                "interface"
            }
        } else {
            "other"
        }
    }
    fn walk(ir: &Ir, doc: &ExecDoc, parent: Option<&str>, sel: &[Selection], out: &mut BTreeSet<String>) {
        for s in sel {
            match s {
                Selection::Field(f) => {
                    let ct = parent.and_then(|p| ir.field(p, &f.name.s)).map(|fd| fd.ty.base().to_string());
                    walk(ir, doc, ct.as_deref(), &f.sel, out);
                }
                Selection::Inline(i) => walk(ir, doc, i.cond.as_ref().map(|c| c.s.as_str()).or(parent), &i.sel, out),
                Selection::Spread(sp) => {
                    if let (Some(p), Some(fr)) = (parent, doc.frag(&sp.name.s)) {
                        if fr.cond.s != p {
                            out.insert(format!("{}->{}", kind(ir, p), kind(ir, &fr.cond.s)));
                        }
                    }
                }
            }
        }
    }
    let mut out = BTreeSet::new();
    for o in doc.ops() {
        walk(ir, doc, ir.root(o.kind), &o.sel, &mut out);
    }
    for fr in doc.frags() {
        walk(ir, doc, Some(fr.cond.s.as_str()), &fr.sel, &mut out);
    }
    if out.is_empty() {
        "none".into()
    } else {
        out.into_iter().collect::<Vec<_>>().join("+")
    }
}

fn case_json(t: &Target, c: &DocCase, m: Option<M>, limit: Option<usize>) -> J {
    json!({"family": c.family, "flavour": t.flavour(), "query": c.text, "operation": c.op, "variables": J::Object(c.vars.clone()), "stream": c.stream,
           "measure": m.map(|m| m.name()), "limit": limit,
           "reference": {"depth": c.ms.depth, "complexity": c.ms.complexity, "recursive_depth": c.ms.nesting, "directives": c.ms.directives}})
}

/// Smallest limit in m−3 … m+3 the implementation accepts the document under = its effective
/// measure, reported relative to the reference's m.
fn off_by(t: &Target, c: &DocCase, m: M) -> (String, Option<i64>) {
    let r = m.of(&c.ms) as i64;
    let lo = (r - 3).max(0);
    for l in lo..=r + 3 {
        match t.run(Some((m, l as usize)), &c.text, c.op.as_deref(), &c.vars, c.stream) {
            Ok(x) if !x.rejected() => {
                return if l == lo && lo > 0 { (format!("<={}", l - r), None) } else { (format!("{:+}", l - r), Some(l)) };
            }
            Ok(_) => {}
            Err(_) => return ("?".into(), None),
        }
    }
    (">+3".into(), None)
}

fn check_doc(cx: &Cx, st: &Stats, t: &Target, c: &DocCase) {
    let flavour = t.flavour();
    let base = match t.run(None, &c.text, c.op.as_deref(), &c.vars, c.stream) {
        Ok(b) => b,
        Err(e) if e.starts_with("panic: ") => {
            cx.eval();
            cx.violation(Violation::new("panic", format!("execute without limits panicked: {e}\n query: {}", c.text), case_json(t, c, None, None)).key("flavour", flavour));
            return;
        }
        Err(e) => return cx.machinery_error(format!("{e}: {}", c.text)),
    };
    cx.eval();
    st.runs.fetch_add(1, Ordering::Relaxed);
    if base.rejected() {
        // the limits cannot be judged against a request the schema refuses on its own
        cx.violation(
            Violation::new(
                "rejects-without-limit",
                format!("a document the reference validator accepts is refused by the schema WITHOUT any limit configured\n query: {} variables: {}\n got: {}", c.text, J::Object(c.vars.clone()), base.to_json()),
                case_json(t, c, None, None),
            )
            .key("flavour", flavour)
            .key("feature", c.feature.clone())
            .key("feed", c.feed.clone())
            .key("complexity_rules", if c.family == "custom-complexity" { "declared" } else { "default-only" })
            .key("unset_variable_feeds_rule", if c.unset_variable_feeds_rule { "yes" } else { "no" }),
        );
        return;
    }
    let mut both = [false; 2];
    for m in ALL {
        let r = m.of(&c.ms);
        st.max_measure[m.idx()].fetch_max(r, Ordering::Relaxed);
        for limit in [r as i64 - 1, r as i64, r as i64 + 1] {
            if limit < 0 {
                continue;
            }
            let limit = limit as usize;
            let expect_reject = r > limit as u64;
            let got = match t.run(Some((m, limit)), &c.text, c.op.as_deref(), &c.vars, c.stream) {
                Ok(g) => g,
                Err(e) if e.starts_with("panic: ") => {
                    cx.eval();
                    cx.violation(Violation::new("panic", format!("execute panicked: {e}\n query: {}", c.text), case_json(t, c, Some(m), Some(limit))).key("flavour", flavour).key("measure", m.name()));
                    continue;
                }
                Err(e) => {
                    cx.machinery_error(format!("{e}: {}", c.text));
                    continue;
                }
            };
            cx.eval();
            st.runs.fetch_add(1, Ordering::Relaxed);
            let same = got.obs == base.obs && got.responses == base.responses && got.log.len() == base.log.len();
            let ok = if expect_reject { got.rejected() } else { same };
            if ok {
                both[expect_reject as usize] = true;
                (if expect_reject { &st.agree_reject } else { &st.agree_accept }).fetch_add(1, Ordering::Relaxed);
                st.per_measure[m.idx()][expect_reject as usize].fetch_add(1, Ordering::Relaxed);
                continue;
            }
            let class = if expect_reject {
                if !same && got.obs.data == "null" && !got.obs.errors.is_empty() && !got.log.is_empty() {
                    format!("resolver-ran-before-rejection/{}", m.name())
                } else {
                    format!("limit-not-enforced/{}", m.name())
                }
            } else if got.rejected() {
                format!("rejects-within-limit/{}", m.name())
            } else {
                format!("limit-changes-result/{}", m.name())
            };
            let (ob, eff) = off_by(t, c, m);
            let detail = format!(
                "{} = {r} by the reference, limit_{}({limit}): expected {}, got {}\n implementation's effective {} (smallest accepted limit): {} (off by {ob})\n query: {}  variables: {}\n got: {}\n without limits: {}",
                m.name(),
                m.name(),
                if expect_reject { "rejection before any resolver runs" } else { "the same response as without limits" },
                if got.rejected() { "a rejection" } else if same { "the unrestricted response" } else { "something else" },
                m.name(),
                eff.map(|e| e.to_string()).unwrap_or_else(|| "outside m±3".into()),
                c.text,
                J::Object(c.vars.clone()),
                got.to_json(),
                base.to_json()
            );
            cx.violation(
                Violation::new(class, detail, case_json(t, c, Some(m), Some(limit)))
                    .key("measure", m.name())
                    .key("flavour", flavour)
                    .key("feature", c.feature.clone())
                    .key("feed", c.feed.clone())
                    .key("retyping_spread", c.retyping_spread.clone())
                    .key("complexity_rules", if c.family == "custom-complexity" { "declared" } else { "default-only" })
                    .key("off_by", ob),
            );
        }
    }
    st.docs.fetch_add(1, Ordering::Relaxed);
    let h = agv_engine::h64(&(c.family, flavour, &c.text, serde_json::to_string(&c.vars).unwrap(), &c.op));
    if both[0] && both[1] {
        cx.nontrivial(h);
    }
    cx.sample_with(h, || case_json(t, c, None, None));
}

/// print → reference parse → reference validation → measures
fn prepare(ir: &Ir, family: &'static str, doc: &ExecDoc, vars: Map<String, J>, stream: bool, st: &Stats) -> Result<Option<(DocCase, ExecDoc)>, String> {
    let text = agv_refgql::print::exec_doc(doc);
    let parsed = agv_refgql::parse::parse_exec(&text).map_err(|e| format!("generator printed an unparsable document {text:?}: {}", e.msg))?;
    if !agv_refgql::validate::validate(ir, &parsed).is_empty() {
        st.invalid.fetch_add(1, Ordering::Relaxed);
        return Ok(None);
    }
    let op = parsed.ops().next().ok_or("no operation")?;
    let ms = measures::measure(&parsed, op, Some(ir), &measures::no_rule);
    let feature = features_of(&parsed, false);
    let retyping_spread = retyping_spreads(ir, &parsed);
    Ok(Some((DocCase { family, text, op: None, vars, ms, feature, feed: "-".into(), retyping_spread, unset_variable_feeds_rule: false, stream }, parsed)))
}

// ------------------------------------------------------------------ families

const FIELDS: &[(&str, &[&str])] = &[
    ("Query", &["a", "n", "o", "i", "u", "l", "f"]),
    ("A", &["a", "n", "o", "pa"]),
    ("B", &["a", "pb"]),
    ("C", &["a", "pc"]),
    ("I", &["a", "n"]),
    ("J", &["a"]),
    ("U", &[]),
];
const CONDS: &[&str] = &["A", "B", "I", "J", "U", "Query"];
const M_FIELDS: &[(&str, &[&str])] = &[("Mutation", &["inc", "m", "mn"]), ("A", &["a", "n", "o"])];
const S_FIELDS: &[(&str, &[&str])] = &[("Subscription", &["ev", "evn"]), ("A", &["a", "o"])];

fn sweep(cx: &Cx, st: &Stats, ir: &Ir, family: &'static str, gcfg: &GenCfg, deco: u32, targets: &[&Target]) {
    let stream = gcfg.op == OpKind::Subscription;
    let r = explore(
        &ExploreCfg { bounds: [deco, 0, 0, 0], ..Default::default() },
        &|ch: &mut Chooser| {
            let Some(gd) = gen_doc(gcfg, ch) else {
                st.not_doc.fetch_add(1, Ordering::Relaxed);
                return;
            };
            match prepare(ir, family, &gd.doc, gd.variables, stream, st) {
                Err(e) => cx.machinery_error(e),
                Ok(None) => {}
                Ok(Some((case, parsed))) => {
                    // several root field nodes of a subscription open one stream each in this library;
                    // what that means is outside this property (cf. C03)
                    if stream && parsed.ops().next().map(|o| o.sel.len() != 1 || !matches!(o.sel[0], Selection::Field(_))).unwrap_or(true) {
                        return;
                    }
                    for t in targets {
                        check_doc(cx, st, t, &case);
                    }
                }
            }
        },
        &|_, _| {},
    );
    if let Some(d) = r.diverged {
        cx.machinery_error(d);
    }
    if r.capped {
        cx.exhaustive(false);
    }
    cx.extra(&format!("choice_sequences_{family}"), json!(r.executions));
}

fn sweep_k(cx: &Cx, st: &Stats, kir: &Ir, pairs: bool, kt: &Target) {
    let r = explore(
        &ExploreCfg::default(),
        &|ch: &mut Chooser| {
            let kd = k::gen(ch, pairs);
            let text = agv_refgql::print::exec_doc(&kd.doc);
            let parsed = match agv_refgql::parse::parse_exec(&text) {
                Ok(p) => p,
                Err(e) => return cx.machinery_error(format!("K generator printed an unparsable document {text:?}: {}", e.msg)),
            };
            if !agv_refgql::validate::validate(kir, &parsed).is_empty() {
                st.invalid.fetch_add(1, Ordering::Relaxed);
                return;
            }
            let op = parsed.ops().next().unwrap();
            let vars = match coerce_variables(kir, &op.vars, &kd.variables) {
                Ok(v) => v,
                Err(e) => return cx.machinery_error(format!("K family: variables do not coerce ({}) for {text}", e.0)),
            };
            let bad = AtomicBool::new(false);
            let ms = measures::measure(&parsed, op, Some(kir), &k::rule(kir, &vars, &bad));
            if bad.load(Ordering::Relaxed) {
                return cx.machinery_error(format!("K family: rule argument does not coerce for {text}"));
            }
            let mut feeds = kd.feeds.clone();
            feeds.sort();
            let unset = kd.feeds.contains(&"nullable-variable-omitted");
            let case = DocCase { family: "custom-complexity", text, op: None, vars: kd.variables, ms, feature: features_of(&parsed, true), feed: feeds.join("+"), retyping_spread: retyping_spreads(kir, &parsed), unset_variable_feeds_rule: unset, stream: false };
            check_doc(cx, st, kt, &case);
        },
        &|_, _| {},
    );
    if let Some(d) = r.diverged {
        cx.machinery_error(d);
    }
    cx.extra("choice_sequences_custom-complexity", json!(r.executions));
}

// ------------------------------------------------------------------ observations (no verdict)

/// (label, query, operation name)
const PROBES: &[(&str, &str, Option<&str>)] = &[
    ("meta-field", "{ __typename }", None),
    ("meta-field", "{ a __typename }", None),
    ("meta-field", "{ o { __typename } }", None),
    ("meta-field", "{ o { a __typename @skip(if: false) @include(if: true) } }", None),
    ("meta-field", "{ __type(name: \"A\") { name } }", None),
    ("meta-field", "{ __schema { queryType { name } } }", None),
    ("multi-operation", "query P { a } query Q { o { o { a n } } }", Some("P")),
    ("multi-operation", "query P { a } query Q { o { o { a n } } }", Some("Q")),
];

fn observations(cx: &Cx, ir: &Ir, targets: &[&Target]) {
    let mut out = Vec::new();
    for (label, q, op) in PROBES {
        let Ok(doc) = agv_refgql::parse::parse_exec(q) else { continue };
        let rop = doc.ops().find(|o| op.map(|n| o.name.as_ref().map(|x| x.s.as_str()) == Some(n)).unwrap_or(true)).unwrap();
        let ms = measures::measure(&doc, rop, Some(ir), &measures::no_rule);
        for t in targets {
            let c = DocCase { family: "probe", text: q.to_string(), op: op.map(|s| s.to_string()), vars: Map::new(), ms, feature: String::new(), feed: String::new(), retyping_spread: String::new(), unset_variable_feeds_rule: false, stream: false };
            let mut row = json!({"kind": label, "flavour": t.flavour(), "query": q, "operation": op});
            for m in ALL {
                let (ob, eff) = off_by(t, &c, m);
                row[m.name()] = json!({"reference_of_selected_operation": m.of(&ms), "implementation": eff, "off_by": ob});
            }
            out.push(row);
        }
    }
    cx.extra("observations_not_judged", J::Array(out));
}

// ------------------------------------------------------------------ run / replay

fn run(cx: &Cx) {
    let ir = match Ir::from_sdl(s1::SDL) {
        Ok(s) => s,
        Err(e) => return cx.machinery_error(format!("S1 reference SDL: {e}")),
    };
    let kir = match Ir::from_sdl(k::SDL) {
        Ok(s) => s,
        Err(e) => return cx.machinery_error(format!("K reference SDL: {e}")),
    };
    let ts = match build_targets(&ir) {
        Ok(x) => x,
        Err(e) => return cx.machinery_error(format!("dynamic twin of S1 does not build: {e}")),
    };
    let (st_t, dy_t, k_t) = (&ts.st, &ts.dy, &ts.k);
    if let Err(e) = agv_common::glue::sdl_equiv(s1::SDL, &s1::schema().sdl()) {
        return cx.machinery_error(format!("S1's reference SDL and Schema::sdl() disagree: {e}"));
    }
    if let Err(e) = agv_common::glue::sdl_equiv(k::SDL, &k::builder().finish().sdl()) {
        return cx.machinery_error(format!("K's reference SDL and Schema::sdl() disagree: {e}"));
    }
    cx.exhaustive(true);
    let st = Stats::default();
    let quick = cx.quick();
    // thorough: one more node at the same decoration bound, then the quick node bound with two
    // decorations (5 nodes with 2 decorations is out of reach: every document costs 13 executions)
    let (nodes, deco, dyn_nodes) = if quick { (4, 1, 3) } else { (5, 1, 4) };

    let q = GenCfg { schema: &ir, fields: FIELDS, conds: CONDS, max_nodes: nodes, max_depth: 3, named_fragments: 2, deco: Some(Class::Dev(0)), typename: false, op: OpKind::Query, root_fragments: true };
    sweep(cx, &st, &ir, "query-static", &q, deco, &[st_t, &ts.st_fast]);
    if !quick {
        // two decorations on one document (alias + directive, directives on two nodes, …)
        let q2 = GenCfg { max_nodes: 3, ..GenCfg { schema: &ir, fields: FIELDS, conds: CONDS, max_nodes: 3, max_depth: 3, named_fragments: 2, deco: Some(Class::Dev(0)), typename: false, op: OpKind::Query, root_fragments: true } };
        sweep(cx, &st, &ir, "query-static-2-decorations", &q2, 2, &[st_t, dy_t]);
    }
    let dq = GenCfg { max_nodes: dyn_nodes, ..GenCfg { schema: &ir, fields: FIELDS, conds: CONDS, max_nodes: nodes, max_depth: 3, named_fragments: 2, deco: Some(Class::Dev(0)), typename: false, op: OpKind::Query, root_fragments: true } };
    sweep(cx, &st, &ir, "query-dynamic", &dq, deco, &[dy_t, &ts.dy_fast]);
    let m = GenCfg { schema: &ir, fields: M_FIELDS, conds: &["A"], max_nodes: if quick { 3 } else { 4 }, max_depth: 3, named_fragments: 1, deco: Some(Class::Dev(0)), typename: false, op: OpKind::Mutation, root_fragments: true };
    sweep(cx, &st, &ir, "mutation", &m, 1, &[st_t, dy_t]);
    let s = GenCfg { schema: &ir, fields: S_FIELDS, conds: &["A"], max_nodes: if quick { 3 } else { 4 }, max_depth: 3, named_fragments: 1, deco: Some(Class::Dev(0)), typename: false, op: OpKind::Subscription, root_fragments: false };
    sweep(cx, &st, &ir, "subscription", &s, 1, &[st_t, dy_t, &ts.st_fast]);
    sweep_k(cx, &st, &kir, !quick, k_t);
    sweep_k(cx, &st, &kir, !quick, &ts.k_fast);
    observations(cx, &ir, &[st_t, dy_t]);

    let (ar, aa) = (st.agree_reject.load(Ordering::Relaxed), st.agree_accept.load(Ordering::Relaxed));
    if ar == 0 || aa == 0 {
        cx.machinery_error(format!("reference and implementation never agreed on {} (vacuous or systematically wrong)", if ar == 0 { "a rejection" } else { "an acceptance" }));
    }
    cx.rule(&format!(
        "case = (document, flavour); flavours: static (derive), dynamic, and both built with ValidationMode::Fast (query families and the custom-complexity family); for each of the 4 measures the schema is built with that one limit at m−1, m, m+1 (m = reference measure; negative limits dropped) and the request executed, plus one run without limits. Documents: (query-static) every valid query ≤ {nodes} selection nodes over S1's subset (fields per type {FIELDS:?}, fragment conditions {CONDS:?}, ≤ 2 named fragments incl. nested spreads, inline fragments typed/untyped), structure exhaustive, ≤ {deco} decoration(s) (alias; 12 @skip/@include forms incl. variables, 1 or 2 directives per node); {}(query-dynamic) the same with ≤ {dyn_nodes} nodes on the dynamic twin of S1; (mutation), (subscription: single root field, first stream response) ≤ {} nodes on both flavours; (custom-complexity) the K family: root entry ∈ 11 forms (incl. an object-typed fragment spread into an interface-typed selection set) × feed of n ∈ {{argument default, literal 3, literal 0, variable, variable default, given-over-default, nullable variable given, nullable variable omitted}} × sub-selection ∈ 8 forms (alias, spread of a fragment on the object / on the interface, inline fragment, @skip'd field, nested rule field with its own feed), optionally a second root entry ({}). All-default world. Non-trivial = (document, flavour) on which both an expected rejection and an expected acceptance were observed and agreed.",
        if quick { "" } else { "(query-static-2-decorations) ≤ 3 nodes with ≤ 2 decorations on both flavours; " },
        if quick { 3 } else { 4 },
        if quick { "reduced menu of 4" } else { "full menu" }
    ));
    cx.extra("documents_judged", json!(st.docs.load(Ordering::Relaxed)));
    cx.extra("executions", json!(st.runs.load(Ordering::Relaxed)));
    cx.extra("not_a_document", json!(st.not_doc.load(Ordering::Relaxed)));
    cx.extra("invalid_by_reference_validator", json!(st.invalid.load(Ordering::Relaxed)));
    cx.extra("agreements", json!({"rejections": ar, "acceptances": aa}));
    cx.extra(
        "agreements_per_measure",
        J::Object(ALL.iter().map(|m| (m.name().to_string(), json!({"acceptances": st.per_measure[m.idx()][0].load(Ordering::Relaxed), "rejections": st.per_measure[m.idx()][1].load(Ordering::Relaxed), "largest_reference_value": st.max_measure[m.idx()].load(Ordering::Relaxed)}))).collect()),
    );
    cx.extra("bounds", json!({"nodes": nodes, "dynamic_nodes": dyn_nodes, "decorations": deco}));
    cx.assume("measures are syntactic: a selection under @skip(if: true) / @include(if: false) counts like any other (docs/en/src/depth_and_complexity.md: 'The complexity calculation is done in the validation phase and not the execution phase'; the statement says 'its document's depth')");
    cx.assume("'fragments counted as if written inline' = a spread `...F` counts like the inline fragment `... on T { F's selections }`: it adds no field depth, no complexity and no directives of its own, and — like an inline fragment — one level of selection-set nesting");
    cx.assume("selection nesting (limit_recursive_depth) = number of selection sets nested inside the operation's own selection set on the deepest path; a flat operation nests nothing (0). Neither the statement nor the doc comment ('Set the maximum recursive depth a query can have') fixes the origin");
    cx.assume("a custom complexity rule is looked up on the static parent type of the selection (a field selected through an interface has the interface's declaration, which carries no rule)");
    cx.assume("meta-fields (__typename, __schema, __type) and documents with several operations are outside the judged families (the statement defines neither); what the implementation does with them is recorded under coverage.observations_not_judged");
    cx.assume("dynamic schemas cannot declare complexity rules (dynamic::Field has no such setter), so the custom-rule family is static only");
}

fn replay(case: &J) -> String {
    let ir = Ir::from_sdl(s1::SDL).unwrap();
    let ts = match build_targets(&ir) {
        Ok(x) => x,
        Err(e) => return e,
    };
    let t = ts.by_label(case["family"].as_str().unwrap_or(""), case["flavour"].as_str().unwrap_or(""));
    let text = case["query"].as_str().unwrap_or("");
    let vars = case["variables"].as_object().cloned().unwrap_or_default();
    let op = case["operation"].as_str();
    let stream = case["stream"].as_bool().unwrap_or(false);
    let limit: Limit = match (case["measure"].as_str().and_then(M::from_name), case["limit"].as_u64()) {
        (Some(m), Some(l)) => Some((m, l as usize)),
        _ => None,
    };
    let mut out = format!("\n query: {text}\n variables: {}\n reference measures: {}\n limit: {:?}", J::Object(vars.clone()), case["reference"], limit);
    match t.run(limit, text, op, &vars, stream) {
        Ok(r) => out.push_str(&format!("\n rejected-before-any-resolver: {}\n got: {}", r.rejected(), r.to_json())),
        Err(e) => out.push_str(&format!("\n {e}")),
    }
    if let Some((m, _)) = limit {
        let expect = case["reference"][m.name()].as_u64().unwrap_or(0);
        for l in expect.saturating_sub(3)..=expect + 3 {
            if let Ok(r) = t.run(Some((m, l as usize)), text, op, &vars, stream) {
                out.push_str(&format!("\n limit_{}({l}): {}", m.name(), if r.rejected() { "rejected" } else { "executed" }));
            }
        }
    }
    out
}

fn main() {
    agv_engine::driver::main("C10", "exploration", run, Some(replay))
}
