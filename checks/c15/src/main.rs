//! C15 — values print as GraphQL literals and convert to JSON without loss.
//!
//! Seam: `Display for ConstValue` / `Display for Value`, `async_graphql_parser::parse_query`
//! on a document that embeds the printed text (once as an argument literal, read through the
//! `value` grammar rule and `Value::into_const`, once as a variable default, read through the
//! `const_value` rule), `ConstValue::{into_json, from_json}`, `Value::{into_json, from_json}`,
//! `serde_json::{to_string, from_str}` and `Variables::{from_value, from_json, into_value}`.
//!
//! Technique: plain complete sweeps (no sampling). The oracle is strict where the statement is
//! ("an equal value"): kinds are exact (an enum never equals a string in GraphQL text, integers
//! never equal floats), floats are compared bit for bit, object fields as a map. A small,
//! independent reference reader of GraphQL value literals (written from the spec's lexical
//! grammar, float conversion by Rust's correctly rounded `str::parse::<f64>`) decides whether a
//! failure is the printer's (text does not denote the value) or the parser's (text denotes the
//! value but the crate reads something else).

use agv_engine::record::{Cx, Violation};
use async_graphql_parser::types::{DocumentOperations, Selection};
use async_graphql_value::{ConstValue, Name, Number, Value, Variables};
use indexmap::IndexMap;
use serde_json::json;
use std::collections::BTreeSet;
use std::sync::atomic::{AtomicU64, Ordering};

// ------------------------------------------------------------------------------------------
// strict, representation-independent value

#[derive(Clone, Debug, PartialEq, Eq, Hash)]
enum RV {
    Null,
    Bool(bool),
    Int(i128),
    /// bit pattern
    Float(u64),
    Str(String),
    Enum(String),
    Bin(Vec<u8>),
    List(Vec<RV>),
    /// sorted by key (GraphQL input objects are unordered)
    Obj(Vec<(String, RV)>),
}

fn rv_num(n: &Number) -> RV {
    if let Some(u) = n.as_u64() {
        RV::Int(u as i128)
    } else if let Some(i) = n.as_i64() {
        RV::Int(i as i128)
    } else {
        RV::Float(n.as_f64().map(f64::to_bits).unwrap_or(u64::MAX))
    }
}

fn rv(v: &ConstValue) -> RV {
    match v {
        ConstValue::Null => RV::Null,
        ConstValue::Boolean(b) => RV::Bool(*b),
        ConstValue::Number(n) => rv_num(n),
        ConstValue::String(s) => RV::Str(s.clone()),
        ConstValue::Enum(n) => RV::Enum(n.to_string()),
        ConstValue::Binary(b) => RV::Bin(b.to_vec()),
        ConstValue::List(l) => RV::List(l.iter().map(rv).collect()),
        ConstValue::Object(o) => {
            let mut f: Vec<(String, RV)> = o.iter().map(|(k, v)| (k.to_string(), rv(v))).collect();
            f.sort_by(|a, b| a.0.cmp(&b.0));
            RV::Obj(f)
        }
    }
}

/// What JSON is allowed to do: enums become strings. Nothing else.
fn enum_to_str(v: &RV) -> RV {
    match v {
        RV::Enum(s) => RV::Str(s.clone()),
        RV::List(l) => RV::List(l.iter().map(enum_to_str).collect()),
        RV::Obj(o) => RV::Obj(o.iter().map(|(k, v)| (k.clone(), enum_to_str(v))).collect()),
        other => other.clone(),
    }
}

fn char_class(c: char) -> &'static str {
    match c {
        '"' | '\\' => "quote-or-backslash",
        '\n' | '\r' => "line-terminator",
        c if c.is_control() => "control",
        c if c.is_ascii() => "ascii",
        _ => "non-ascii",
    }
}

fn kind_of(v: &RV) -> &'static str {
    match v {
        RV::Null => "null",
        RV::Bool(_) => "boolean",
        RV::Int(_) => "int",
        RV::Float(_) => "float",
        RV::Str(_) => "string",
        RV::Enum(_) => "enum",
        RV::Bin(_) => "binary",
        RV::List(_) => "list",
        RV::Obj(_) => "object",
    }
}

/// Every (kind, detail) at which `got` departs from `want`.
fn diff(want: &RV, got: &RV, out: &mut BTreeSet<(&'static str, &'static str)>) {
    match (want, got) {
        (RV::List(a), RV::List(b)) if a.len() == b.len() => a.iter().zip(b).for_each(|(x, y)| diff(x, y, out)),
        (RV::Obj(a), RV::Obj(b)) if a.len() == b.len() && a.iter().zip(b).all(|(x, y)| x.0 == y.0) => {
            a.iter().zip(b).for_each(|(x, y)| diff(&x.1, &y.1, out))
        }
        (RV::Str(a), RV::Str(b)) => {
            if a != b {
                let mut bi = b.chars();
                let mut cls = "length";
                for ca in a.chars() {
                    match bi.next() {
                        Some(cb) if cb == ca => {}
                        other => {
                            cls = char_class(ca);
                            // the control character's code point written in decimal and read as hex?
                            if cls == "control" && u32::from_str_radix(&format!("{}", ca as u32), 16).ok() == other.map(|c| c as u32) {
                                cls = "control:decimal-digits-in-hex-escape";
                            }
                            break;
                        }
                    }
                }
                out.insert(("string", cls));
            }
        }
        (a, b) if a == b => {}
        (RV::Float(a), RV::Float(b)) if a.abs_diff(*b) <= 4 => {
            // a rounding error of the decimal→binary conversion, as opposed to a wrong number
            MAX_ULP.fetch_max(a.abs_diff(*b), Ordering::Relaxed);
            out.insert(("float", "rounding-within-4-ulp"));
        }
        (a, b) if kind_of(a) == kind_of(b) => {
            out.insert((kind_of(a), "value"));
        }
        (a, _) => {
            out.insert((kind_of(a), "kind-changed"));
        }
    }
}

// ------------------------------------------------------------------------------------------
// reference reader of a GraphQL value literal (spec §2.9; SourceCharacter = any scalar value)

struct Rd {
    s: Vec<char>,
    p: usize,
}

impl Rd {
    fn peek(&self) -> Option<char> {
        self.s.get(self.p).copied()
    }
    fn ws(&mut self) {
        while let Some(c) = self.peek() {
            match c {
                ' ' | ',' | '\t' | '\u{feff}' | '\n' | '\r' => self.p += 1,
                '#' => {
                    while let Some(c) = self.peek() {
                        if c == '\n' || c == '\r' {
                            break;
                        }
                        self.p += 1;
                    }
                }
                _ => break,
            }
        }
    }
    fn name(&mut self) -> Result<String, &'static str> {
        let st = self.p;
        match self.peek() {
            Some(c) if c.is_ascii_alphabetic() || c == '_' => self.p += 1,
            _ => return Err("name-expected"),
        }
        while let Some(c) = self.peek() {
            if c.is_ascii_alphanumeric() || c == '_' {
                self.p += 1;
            } else {
                break;
            }
        }
        Ok(self.s[st..self.p].iter().collect())
    }
    fn string(&mut self) -> Result<RV, &'static str> {
        if self.s[self.p..].starts_with(&['"', '"', '"']) {
            return Err("block-string");
        }
        self.p += 1;
        let mut out = String::new();
        loop {
            let Some(c) = self.peek() else { return Err("unterminated-string") };
            self.p += 1;
            match c {
                '"' => return Ok(RV::Str(out)),
                '\n' | '\r' => return Err("line-terminator-in-string"),
                '\\' => {
                    let Some(e) = self.peek() else { return Err("unterminated-string") };
                    self.p += 1;
                    match e {
                        '"' | '\\' | '/' => out.push(e),
                        'b' => out.push('\u{8}'),
                        'f' => out.push('\u{c}'),
                        'n' => out.push('\n'),
                        'r' => out.push('\r'),
                        't' => out.push('\t'),
                        'u' => {
                            let mut n = 0u32;
                            for _ in 0..4 {
                                let Some(d) = self.peek().and_then(|c| c.to_digit(16)) else { return Err("bad-unicode-escape") };
                                self.p += 1;
                                n = n * 16 + d;
                            }
                            match char::from_u32(n) {
                                Some(c) => out.push(c),
                                None => return Err("surrogate-escape"),
                            }
                        }
                        _ => return Err("bad-escape"),
                    }
                }
                c => out.push(c),
            }
        }
    }
    fn number(&mut self) -> Result<RV, &'static str> {
        let st = self.p;
        if self.peek() == Some('-') {
            self.p += 1;
        }
        match self.peek() {
            Some('0') => self.p += 1,
            Some(c) if c.is_ascii_digit() => {
                while matches!(self.peek(), Some(c) if c.is_ascii_digit()) {
                    self.p += 1;
                }
            }
            _ => return Err("bad-number"),
        }
        let mut float = false;
        if self.peek() == Some('.') {
            float = true;
            self.p += 1;
            if !matches!(self.peek(), Some(c) if c.is_ascii_digit()) {
                return Err("bad-number");
            }
            while matches!(self.peek(), Some(c) if c.is_ascii_digit()) {
                self.p += 1;
            }
        }
        if matches!(self.peek(), Some('e' | 'E')) {
            float = true;
            self.p += 1;
            if matches!(self.peek(), Some('+' | '-')) {
                self.p += 1;
            }
            if !matches!(self.peek(), Some(c) if c.is_ascii_digit()) {
                return Err("bad-number");
            }
            while matches!(self.peek(), Some(c) if c.is_ascii_digit()) {
                self.p += 1;
            }
        }
        if matches!(self.peek(), Some(c) if c.is_ascii_alphanumeric() || c == '_' || c == '.') {
            return Err("bad-number");
        }
        let t: String = self.s[st..self.p].iter().collect();
        if float {
            match t.parse::<f64>() {
                Ok(x) if x.is_finite() => Ok(RV::Float(x.to_bits())),
                _ => Err("float-out-of-range"),
            }
        } else {
            t.parse::<i128>().map(RV::Int).map_err(|_| "int-out-of-range")
        }
    }
    fn value(&mut self) -> Result<RV, &'static str> {
        self.ws();
        match self.peek() {
            None => Err("unexpected-end"),
            Some('[') => {
                self.p += 1;
                let mut v = Vec::new();
                loop {
                    self.ws();
                    if self.peek() == Some(']') {
                        self.p += 1;
                        return Ok(RV::List(v));
                    }
                    v.push(self.value()?);
                }
            }
            Some('{') => {
                self.p += 1;
                let mut v: Vec<(String, RV)> = Vec::new();
                loop {
                    self.ws();
                    if self.peek() == Some('}') {
                        self.p += 1;
                        v.sort_by(|a, b| a.0.cmp(&b.0));
                        if v.windows(2).any(|w| w[0].0 == w[1].0) {
                            return Err("duplicate-object-field");
                        }
                        return Ok(RV::Obj(v));
                    }
                    let k = self.name()?;
                    self.ws();
                    if self.peek() != Some(':') {
                        return Err("colon-expected");
                    }
                    self.p += 1;
                    let x = self.value()?;
                    v.push((k, x));
                }
            }
            Some('"') => self.string(),
            Some(c) if c == '-' || c.is_ascii_digit() => self.number(),
            Some('$') => Err("variable"),
            Some(c) if c.is_ascii_alphabetic() || c == '_' => {
                let n = self.name()?;
                Ok(match n.as_str() {
                    "true" => RV::Bool(true),
                    "false" => RV::Bool(false),
                    "null" => RV::Null,
                    _ => RV::Enum(n),
                })
            }
            Some(_) => Err("unexpected-character"),
        }
    }
}

fn ref_read(text: &str) -> Result<RV, &'static str> {
    let mut r = Rd { s: text.chars().collect(), p: 0 };
    let v = r.value()?;
    r.ws();
    if r.p != r.s.len() {
        return Err("trailing-text");
    }
    Ok(v)
}

// ------------------------------------------------------------------------------------------
// the crate's reader

/// (reading as an argument literal, reading as a variable default)
fn crate_read(text: &str) -> Result<Result<(RV, RV), String>, String> {
    let doc = format!("query($v: T = {text}) {{ f(a: {text}) }}");
    agv_engine::catch_quiet(|| {
        let d = async_graphql_parser::parse_query(&doc).map_err(|e| e.to_string())?;
        let op = match &d.operations {
            DocumentOperations::Single(op) => op,
            DocumentOperations::Multiple(_) => return Err("harness: expected a single anonymous operation".to_string()),
        };
        if op.node.variable_definitions.len() != 1 || op.node.selection_set.node.items.len() != 1 {
            return Err(format!(
                "document structure changed: {} variable definitions, {} selections",
                op.node.variable_definitions.len(),
                op.node.selection_set.node.items.len()
            ));
        }
        let def = op.node.variable_definitions[0].node.default_value.as_ref().ok_or("no default value read")?;
        let Selection::Field(f) = &op.node.selection_set.node.items[0].node else { return Err("selection is not a field".into()) };
        if f.node.arguments.len() != 1 {
            return Err(format!("{} arguments read instead of 1", f.node.arguments.len()));
        }
        let arg: Value = f.node.arguments[0].1.node.clone();
        let arg = arg.into_const().ok_or("argument literal read back with a variable in it")?;
        Ok((rv(&arg), rv(&def.node)))
    })
}

// ------------------------------------------------------------------------------------------
// case encoding (for replay files; lossless, unlike JSON)

fn enc(v: &ConstValue) -> serde_json::Value {
    match v {
        ConstValue::Null => json!({"t": "null"}),
        ConstValue::Boolean(b) => json!({"t": "bool", "v": b}),
        ConstValue::Number(n) => match rv_num(n) {
            RV::Int(i) => json!({"t": "int", "v": i.to_string()}),
            RV::Float(b) => json!({"t": "float", "bits": b.to_string(), "shown": f64::from_bits(b).to_string()}),
            _ => unreachable!(),
        },
        ConstValue::String(s) => json!({"t": "str", "cp": s.chars().map(|c| c as u32).collect::<Vec<_>>(), "shown": format!("{s:?}")}),
        ConstValue::Enum(n) => json!({"t": "enum", "v": n.as_str()}),
        ConstValue::Binary(b) => json!({"t": "bin", "v": b.to_vec()}),
        ConstValue::List(l) => json!({"t": "list", "v": l.iter().map(enc).collect::<Vec<_>>()}),
        ConstValue::Object(o) => json!({"t": "obj", "v": o.iter().map(|(k, v)| json!([k.as_str(), enc(v)])).collect::<Vec<_>>()}),
    }
}

fn dec(j: &serde_json::Value) -> Option<ConstValue> {
    Some(match j["t"].as_str()? {
        "null" => ConstValue::Null,
        "bool" => ConstValue::Boolean(j["v"].as_bool()?),
        "int" => {
            let i: i128 = j["v"].as_str()?.parse().ok()?;
            if i >= 0 {
                ConstValue::Number(Number::from(u64::try_from(i).ok()?))
            } else {
                ConstValue::Number(Number::from(i64::try_from(i).ok()?))
            }
        }
        "float" => ConstValue::Number(Number::from_f64(f64::from_bits(j["bits"].as_str()?.parse().ok()?))?),
        "str" => ConstValue::String(j["cp"].as_array()?.iter().map(|c| c.as_u64().and_then(|c| char::from_u32(c as u32))).collect::<Option<String>>()?),
        "enum" => ConstValue::Enum(Name::new(j["v"].as_str()?)),
        "list" => ConstValue::List(j["v"].as_array()?.iter().map(dec).collect::<Option<Vec<_>>>()?),
        "obj" => {
            let mut m = IndexMap::new();
            for e in j["v"].as_array()? {
                m.insert(Name::new(e[0].as_str()?), dec(&e[1])?);
            }
            ConstValue::Object(m)
        }
        _ => return None,
    })
}

// ------------------------------------------------------------------------------------------
// the oracle

fn viol(class: &str, detail: String, v: &ConstValue, part: &str) -> Violation {
    Violation::new(class, detail, json!({"part": part, "value": enc(v)}))
}

/// Judge one value. Returns the violations (empty = the property held on this case) and the
/// number of oracle judgements made.
fn judge(v: &ConstValue, out: &mut Vec<Violation>) -> u64 {
    let want = rv(v);
    let mut evals = 0;

    // ---- text --------------------------------------------------------------------------
    let text = match agv_engine::catch_quiet(|| (format!("{v}"), format!("{}", v.clone().into_value()))) {
        Ok((a, b)) => {
            if a != b {
                out.push(viol("display-const-and-value-differ", format!("ConstValue prints {a:?} but the same Value prints {b:?}"), v, "text"));
            }
            a
        }
        Err(p) => {
            out.push(viol("panic", format!("Display panicked: {p}"), v, "text").key("stage", "print"));
            return 1;
        }
    };
    evals += 1;
    let reference = ref_read(&text);
    match &reference {
        Err(e) => out.push(
            viol("print-not-a-literal", format!("{:?} prints as {text:?}, which is not a GraphQL value literal ({e})", want), v, "text").key("reader_error", *e),
        ),
        Ok(r) if *r != want => {
            let mut d = BTreeSet::new();
            diff(&want, r, &mut d);
            for (kind, what) in d {
                out.push(
                    viol("print-denotes-other-value", format!("{:?} prints as {text:?}, which by the GraphQL grammar denotes {:?}", want, r), v, "text")
                        .key("kind", kind)
                        .key("char", what),
                );
            }
        }
        Ok(_) => {}
    }
    evals += 1;
    match crate_read(&text) {
        Err(p) => out.push(viol("panic", format!("parse_query panicked on the printed literal {text:?}: {p}"), v, "text").key("stage", "parse")),
        Ok(Err(msg)) => {
            if reference.is_ok() {
                out.push(viol("parser-rejects-printed-literal", format!("{text:?} is a valid literal (denotes {:?}) but parse_query fails: {msg}", reference.as_ref().unwrap()), v, "text"));
            }
            // otherwise: consequence of print-not-a-literal, already reported
        }
        Ok(Ok((arg, def))) => {
            for (ctx, got) in [("argument", &arg), ("variable-default", &def)] {
                match &reference {
                    Ok(r) if r != got => {
                        let mut d = BTreeSet::new();
                        diff(r, got, &mut d);
                        for (kind, what) in d {
                            out.push(
                                viol("parser-reads-other-value", format!("literal {text:?} denotes {:?} but parse_query ({ctx}) reads {:?}", r, got), v, "text")
                                    .key("kind", kind)
                                    .key("char", what)
                                    .key("context", ctx),
                            );
                        }
                    }
                    Ok(_) => {}
                    // the reference could not read the text: already reported as print-not-a-literal
                    // (whatever the crate's parser makes of non-GraphQL text is C13's business)
                    Err(_) => {}
                }
            }
        }
    }

    // ---- JSON --------------------------------------------------------------------------
    let want_json = enum_to_str(&want);
    let mut json_trip = |via: &'static str, got: Result<Result<ConstValue, String>, String>| {
        evals += 1;
        match got {
            Err(p) => out.push(viol("panic", format!("JSON conversion ({via}) panicked: {p}"), v, "json").key("stage", via)),
            Ok(Err(e)) => out.push(viol("json-conversion-fails", format!("{:?}: JSON conversion ({via}) fails: {e}", want), v, "json").key("via", via)),
            Ok(Ok(w)) => {
                let got = rv(&w);
                if got != want_json {
                    let mut d = BTreeSet::new();
                    diff(&want_json, &got, &mut d);
                    for (kind, what) in d {
                        out.push(
                            viol("json-roundtrip-differs", format!("{:?} came back from JSON ({via}) as {:?}", want, got), v, "json")
                                .key("kind", kind)
                                .key("char", what)
                                .key("via", via),
                        );
                    }
                }
            }
        }
    };
    json_trip(
        "ConstValue::into_json/from_json",
        agv_engine::catch_quiet(|| {
            let j = v.clone().into_json().map_err(|e| format!("into_json: {e}"))?;
            ConstValue::from_json(j).map_err(|e| format!("from_json: {e}"))
        }),
    );
    json_trip(
        "Value::into_json/from_json",
        agv_engine::catch_quiet(|| {
            let j = v.clone().into_value().into_json().map_err(|e| format!("into_json: {e}"))?;
            let w = Value::from_json(j).map_err(|e| format!("from_json: {e}"))?;
            w.into_const().ok_or_else(|| "came back containing a variable".to_string())
        }),
    );
    json_trip(
        "serde_json::to_string/from_str",
        agv_engine::catch_quiet(|| {
            let s = serde_json::to_string(v).map_err(|e| format!("to_string: {e}"))?;
            serde_json::from_str::<ConstValue>(&s).map_err(|e| format!("from_str({s:?}): {e}"))
        }),
    );
    evals
}

/// `Variables` built from an object value: back to a value, through JSON, printed.
fn judge_variables(obj: &ConstValue, out: &mut Vec<Violation>) -> u64 {
    let want = rv(obj);
    let want_json = enum_to_str(&want);
    let vars = Variables::from_value(obj.clone());
    let mut evals = 0;
    let mut cmp = |what: &'static str, got: Result<Result<RV, String>, String>, expect: &RV| {
        evals += 1;
        match got {
            Err(p) => out.push(viol("panic", format!("Variables {what} panicked: {p}"), obj, "variables").key("stage", what)),
            Ok(Err(e)) => out.push(viol("variables-conversion-fails", format!("Variables of {:?}: {what} fails: {e}", want), obj, "variables").key("via", what)),
            Ok(Ok(g)) => {
                if g != *expect {
                    let mut d = BTreeSet::new();
                    diff(expect, &g, &mut d);
                    for (kind, ch) in d {
                        out.push(
                            viol("variables-roundtrip-differs", format!("Variables of {:?} came back ({what}) as {:?}", want, g), obj, "variables")
                                .key("kind", kind)
                                .key("char", ch)
                                .key("via", what),
                        );
                    }
                }
            }
        }
    };
    cmp("from_value/into_value", agv_engine::catch_quiet(|| Ok(rv(&vars.clone().into_value()))), &want);
    cmp(
        "to_value/from_json",
        agv_engine::catch_quiet(|| {
            let j = serde_json::to_value(&vars).map_err(|e| e.to_string())?;
            Ok(rv(&Variables::from_json(j).into_value()))
        }),
        &want_json,
    );
    cmp(
        "to_string/from_str",
        agv_engine::catch_quiet(|| {
            let s = serde_json::to_string(&vars).map_err(|e| e.to_string())?;
            let w: Variables = serde_json::from_str(&s).map_err(|e| e.to_string())?;
            Ok(rv(&w.into_value()))
        }),
        &want_json,
    );
    // Display of Variables is an object literal
    let text = format!("{vars}");
    let r = ref_read(&text);
    evals += 1;
    match r {
        Err(e) => out.push(viol("print-not-a-literal", format!("Variables of {:?} print as {text:?}, not a GraphQL object literal ({e})", want), obj, "variables").key("reader_error", e)),
        Ok(r) if r != want => {
            let mut d = BTreeSet::new();
            diff(&want, &r, &mut d);
            for (kind, ch) in d {
                out.push(
                    viol("print-denotes-other-value", format!("Variables of {:?} print as {text:?}, which denotes {:?}", want, r), obj, "variables").key("kind", kind).key("char", ch),
                );
            }
        }
        Ok(_) => {}
    }
    evals
}

// ------------------------------------------------------------------------------------------
// the enumerated space

const ALPHABET: [&str; 17] = ["a", "\"", "\\", "/", "\n", "\r", "\t", "\u{8}", "\u{c}", "\u{0}", "\u{1b}", "\u{7f}", "\u{85}", "\u{2028}", "é", "\u{ffff}", "😀"];
const NAMES: [&str; 2] = ["a", "_A1"];

fn fnum(x: f64) -> ConstValue {
    ConstValue::Number(Number::from_f64(x).expect("finite"))
}

fn number_menu() -> Vec<ConstValue> {
    vec![
        ConstValue::Number(Number::from(0u64)),
        ConstValue::Number(Number::from(-1i64)),
        ConstValue::Number(Number::from(i64::MIN)),
        ConstValue::Number(Number::from(u64::MAX)),
        fnum(1.0),
        fnum(-0.0),
        fnum(1e-7),
        fnum(1e21),
        fnum(5e-324),
        fnum(f64::MAX),
    ]
}

/// Every leaf of the property's menus: null, booleans, 10 numbers, 2 enums, all strings ≤ 2.
fn full_leaves() -> Vec<ConstValue> {
    let mut v = vec![ConstValue::Null, ConstValue::Boolean(true), ConstValue::Boolean(false)];
    v.extend(number_menu());
    v.extend(NAMES.iter().map(|n| ConstValue::Enum(Name::new(n))));
    v.push(ConstValue::String(String::new()));
    for a in ALPHABET {
        v.push(ConstValue::String(a.to_string()));
    }
    for a in ALPHABET {
        for b in ALPHABET {
            v.push(ConstValue::String(format!("{a}{b}")));
        }
    }
    v
}

/// The leaf sub-menu used below depth-2 containers (one of each kind, both names, the
/// escape-relevant strings).
fn reduced_leaves(thorough: bool) -> Vec<ConstValue> {
    let mut v = vec![
        ConstValue::Null,
        ConstValue::Boolean(true),
        ConstValue::Number(Number::from(i64::MIN)),
        fnum(-0.0),
        fnum(5e-324),
        ConstValue::Enum(Name::new("a")),
        ConstValue::Enum(Name::new("_A1")),
        ConstValue::String(String::new()),
        ConstValue::String("a".into()),
        ConstValue::String("\"\\".into()),
        ConstValue::String("\n\u{1b}".into()),
        ConstValue::String("\u{2028}😀".into()),
    ];
    if thorough {
        v.extend([
            ConstValue::Boolean(false),
            ConstValue::Number(Number::from(0u64)),
            ConstValue::Number(Number::from(u64::MAX)),
            fnum(1.0),
            fnum(1e21),
            fnum(f64::MAX),
            ConstValue::String("\r\t".into()),
            ConstValue::String("\u{0}\u{7f}".into()),
            ConstValue::String("/\u{85}".into()),
            ConstValue::String("\u{8}\u{c}".into()),
            ConstValue::String("é\u{ffff}".into()),
            ConstValue::String("null".into()),
        ]);
    }
    v
}

const SHAPES0: usize = 2; // [] {}
const SHAPES1: usize = 3; // [x] {a:x} {_A1:x}
const SHAPES2: usize = 3; // [x,y] {a:x,_A1:y} {_A1:x,a:y}

fn obj(fields: Vec<(&str, ConstValue)>) -> ConstValue {
    ConstValue::Object(fields.into_iter().map(|(k, v)| (Name::new(k), v)).collect())
}

fn shape1(s: usize, x: ConstValue) -> ConstValue {
    match s {
        0 => ConstValue::List(vec![x]),
        1 => obj(vec![("a", x)]),
        _ => obj(vec![("_A1", x)]),
    }
}
fn shape2(s: usize, x: ConstValue, y: ConstValue) -> ConstValue {
    match s {
        0 => ConstValue::List(vec![x, y]),
        1 => obj(vec![("a", x), ("_A1", y)]),
        _ => obj(vec![("_A1", x), ("a", y)]),
    }
}

/// All containers of width ≤ 2 over `kids` (index space: SHAPES0 + SHAPES1·n + SHAPES2·n²).
fn container_count(n: usize) -> u64 {
    (SHAPES0 + SHAPES1 * n + SHAPES2 * n * n) as u64
}
fn container_at(kids: &[ConstValue], mut i: u64) -> (ConstValue, usize, usize) {
    let n = kids.len() as u64;
    if i == 0 {
        return (ConstValue::List(vec![]), usize::MAX, usize::MAX);
    }
    if i == 1 {
        return (obj(vec![]), usize::MAX, usize::MAX);
    }
    i -= 2;
    if i < 3 * n {
        let (s, x) = ((i / n) as usize, (i % n) as usize);
        return (shape1(s, kids[x].clone()), x, usize::MAX);
    }
    i -= 3 * n;
    let s = (i / (n * n)) as usize;
    let r = i % (n * n);
    let (x, y) = ((r / n) as usize, (r % n) as usize);
    (shape2(s, kids[x].clone(), kids[y].clone()), x, y)
}

fn is_nontrivial(v: &ConstValue) -> bool {
    match v {
        ConstValue::Null | ConstValue::Boolean(_) | ConstValue::Binary(_) => false,
        ConstValue::Number(n) => match rv_num(n) {
            RV::Int(i) => i < i32::MIN as i128 || i > i32::MAX as i128,
            _ => true,
        },
        ConstValue::String(s) => s.chars().any(|c| !c.is_ascii() || c.is_control() || c == '"' || c == '\\'),
        ConstValue::Enum(_) => true,
        ConstValue::List(l) => !l.is_empty(),
        ConstValue::Object(o) => !o.is_empty(),
    }
}

fn f64_menu(thorough: bool) -> Vec<u64> {
    let mut mants: Vec<u64> = vec![0, 1, 2, 3, (1 << 52) - 1, (1 << 52) - 2, 0x5_5555_5555_5555, 0xA_AAAA_AAAA_AAAA];
    if thorough {
        for b in 0..52 {
            mants.push(1u64 << b);
            mants.push(((1u64 << 52) - 1) ^ (1u64 << b));
        }
    } else {
        for b in (0..52).step_by(4) {
            mants.push(1u64 << b);
        }
    }
    let mut v = Vec::new();
    for e in 0..2047u64 {
        for m in &mants {
            for s in [0u64, 1] {
                v.push((s << 63) | (e << 52) | m);
            }
        }
    }
    for x in [0.1f64, 0.3, 1.5, 1e-7, 1e21, 1e22, 1e23, 123456789.123456789, 9007199254740993.0, 4.35, 0.000001, 1e300, 2.2250738585072011e-308] {
        v.push(x.to_bits());
        v.push((-x).to_bits());
    }
    v.sort();
    v.dedup();
    v
}

fn int_menu() -> Vec<i128> {
    let mut v = Vec::new();
    for k in 0..=64u32 {
        let p = 1i128 << k;
        for d in -2i128..=2 {
            v.push(p + d);
            v.push(-p + d);
        }
    }
    v.retain(|x| *x >= i64::MIN as i128 && *x <= u64::MAX as i128);
    v.sort();
    v.dedup();
    v
}

fn int_value(i: i128) -> ConstValue {
    if i >= 0 {
        ConstValue::Number(Number::from(i as u64))
    } else {
        ConstValue::Number(Number::from(i as i64))
    }
}

static MAX_ULP: AtomicU64 = AtomicU64::new(0);
static SHORTEST: std::sync::Mutex<std::collections::BTreeMap<String, String>> = std::sync::Mutex::new(std::collections::BTreeMap::new());

struct Tally {
    evals: AtomicU64,
    cases: AtomicU64,
    nontrivial: AtomicU64,
}

impl Tally {
    fn new() -> Tally {
        Tally { evals: AtomicU64::new(0), cases: AtomicU64::new(0), nontrivial: AtomicU64::new(0) }
    }
    fn flush(&self, cx: &Cx, name: &str) -> u64 {
        let c = self.cases.load(Ordering::Relaxed);
        cx.evals(self.evals.load(Ordering::Relaxed));
        cx.nontrivial_count(self.nontrivial.load(Ordering::Relaxed));
        cx.extra(name, json!({"cases": c, "nontrivial_counted": self.nontrivial.load(Ordering::Relaxed)}));
        c
    }
}

/// Judge one case; `count_nt` = this sweep is the one that owns the case for the distinct count.
fn run_case(cx: &Cx, t: &Tally, sweep: &str, v: &ConstValue, count_nt: bool) {
    let mut out = Vec::new();
    let e = judge(v, &mut out);
    t.evals.fetch_add(e, Ordering::Relaxed);
    t.cases.fetch_add(1, Ordering::Relaxed);
    if count_nt && is_nontrivial(v) {
        t.nontrivial.fetch_add(1, Ordering::Relaxed);
    }
    for mut x in out {
        if let Some(o) = x.case.as_object_mut() {
            o.insert("sweep".into(), json!(sweep));
        }
        if let (ConstValue::Number(n), true) = (v, x.keys.get("kind").map(|k| k == "float").unwrap_or(false)) {
            // smallest witness per class (by printed length, then text): deterministic
            let t = n.to_string();
            let mut g = SHORTEST.lock().unwrap();
            let e = g.entry(x.class.clone()).or_insert_with(|| t.clone());
            if (t.len(), &t) < (e.len(), &*e) {
                *e = t;
            }
        }
        cx.violation(x);
    }
    let h = agv_engine::h64(&(sweep, &rv(v)));
    cx.sample_with(h, || json!({"sweep": sweep, "printed": format!("{v}"), "json": v.clone().into_json().ok()}));
}

pub fn run(cx: &Cx) {
    let thorough = !cx.quick();
    cx.rule(
        "case = one GraphQL value. Judged: (P) the printed text, read by an independent spec reader, denotes the value (kind-exact, floats bit-exact); \
         (T) parse_query reads the same text, as an argument literal and as a variable default, to what the text denotes; (J) into_json/from_json, \
         Value::into_json/from_json and serde_json to_string/from_str return the value with enums as strings and nothing else changed; (V) Variables \
         from_value/into_value, to JSON and back, and printed. Non-trivial = the value holds a string with a character that needs an escape or is not \
         ASCII, a float, an integer beyond 32 bits, an enum, or is a non-empty list/object; counted once per distinct value (each sweep counts only \
         the values no earlier sweep enumerates).",
    );
    cx.assume("SourceCharacter is taken as any Unicode scalar value (draft spec); the June-2018 restriction to U+0009/A/D, U+0020–U+FFFF is not demanded of printed text");
    cx.assume("Binary values are outside the statement (no GraphQL literal form) and are not enumerated");
    cx.assume("object field order is not judged (input objects are unordered); keys and enum names are the valid Names {a, _A1}");

    let full = full_leaves();
    let reduced = reduced_leaves(thorough);

    // A: every value of depth ≤ 1, width ≤ 2 over the complete leaf menus.
    {
        let t = Tally::new();
        full.iter().for_each(|v| run_case(cx, &t, "A:leaf", v, true));
        let n = container_count(full.len());
        agv_engine::par_range(n, 512, &|i| {
            let (v, _, _) = container_at(&full, i);
            run_case(cx, &t, "A:depth1", &v, true);
        });
        t.flush(cx, "sweep_A_depth_le1_full_menus");
    }

    // B: every value of depth exactly 2, width ≤ 2 whose leaves come from the reduced menu.
    {
        let t = Tally::new();
        let nleaf = reduced.len();
        let mut kids = reduced.clone();
        for i in 0..container_count(nleaf) {
            kids.push(container_at(&reduced, i).0);
        }
        let n = container_count(kids.len());
        agv_engine::par_range(n, 512, &|i| {
            let (v, x, y) = container_at(&kids, i);
            // depth exactly 2: at least one child is itself a container
            let deep = (x != usize::MAX && x >= nleaf) || (y != usize::MAX && y >= nleaf);
            if deep {
                run_case(cx, &t, "B:depth2", &v, true);
            }
        });
        t.flush(cx, "sweep_B_depth2_reduced_leaf_menu");
        cx.extra("depth2_leaf_menu_size", json!(nleaf));
        cx.extra(
            "cap",
            json!(format!(
                "the full product (depth ≤ 2 × width ≤ 2 over all {} leaves) has about 1e11 values; it is cut as: complete at depth ≤ 1 over all leaves (sweep A), \
                 complete at depth 2 over a {}-leaf sub-menu with every kind, both names and the escape-relevant strings (sweep B), and every leaf of the full menu in \
                 8 depth-2 contexts (sweep D)",
                full.len(),
                nleaf
            )),
        );
    }

    // C: every Unicode scalar value as a one-character string, top level and inside a list
    //    (thorough: also every two-character string pairing it with each alphabet symbol, both orders).
    {
        let t = Tally::new();
        let alpha_chars: Vec<char> = ALPHABET.iter().map(|s| s.chars().next().unwrap()).collect();
        agv_engine::par_range(0x110000, 4096, &|cp| {
            let Some(c) = char::from_u32(cp as u32) else { return };
            let fresh = !alpha_chars.contains(&c);
            let s = ConstValue::String(c.to_string());
            run_case(cx, &t, "C:char", &s, fresh);
            run_case(cx, &t, "C:char-in-list", &ConstValue::List(vec![s]), fresh);
            if thorough {
                for a in &alpha_chars {
                    if fresh {
                        run_case(cx, &t, "C:char+alpha", &ConstValue::String(format!("{c}{a}")), true);
                        run_case(cx, &t, "C:alpha+char", &ConstValue::String(format!("{a}{c}")), true);
                    }
                }
            }
        });
        t.flush(cx, "sweep_C_every_scalar_value");
        cx.extra("scalar_values_enumerated", json!((0u32..0x110000).filter(|c| char::from_u32(*c).is_some()).count()));
    }

    // D: every leaf of the full menus in depth-2 contexts.
    {
        let t = Tally::new();
        let in_reduced = |v: &ConstValue| reduced.iter().any(|r| rv(r) == rv(v));
        let l = |v: Vec<ConstValue>| ConstValue::List(v);
        full.iter().for_each(|x| {
            let x = || x.clone();
            let fresh = !in_reduced(&x());
            let ctxs = vec![
                l(vec![l(vec![x()])]),
                l(vec![obj(vec![("a", x())])]),
                obj(vec![("a", l(vec![x()]))]),
                obj(vec![("a", obj(vec![("_A1", x())]))]),
                l(vec![l(vec![x()]), x()]),
                l(vec![x(), l(vec![x(), x()])]),
                obj(vec![("a", x()), ("_A1", l(vec![x()]))]),
                obj(vec![("_A1", obj(vec![("a", x())])), ("a", x())]),
            ];
            for c in &ctxs {
                run_case(cx, &t, "D:leaf-in-depth2-context", c, fresh);
            }
        });
        t.flush(cx, "sweep_D_full_leaves_in_depth2_contexts");
    }

    // E: numbers — every binary exponent with a mantissa menu, and integers around ±2^k.
    {
        let t = Tally::new();
        let menu_bits: Vec<RV> = number_menu().iter().map(rv).collect();
        let fm = f64_menu(thorough);
        agv_engine::par_range(fm.len() as u64, 256, &|i| {
            let v = fnum(f64::from_bits(fm[i as usize]));
            let fresh = !menu_bits.contains(&rv(&v));
            run_case(cx, &t, "E:float", &v, fresh);
            run_case(cx, &t, "E:float-in-object", &obj(vec![("a", v)]), fresh);
        });
        for i in int_menu() {
            let v = int_value(i);
            let fresh = !menu_bits.contains(&rv(&v));
            run_case(cx, &t, "E:int", &v, fresh);
            run_case(cx, &t, "E:int-in-list", &ConstValue::List(vec![v]), fresh);
        }
        t.flush(cx, "sweep_E_numbers");
        cx.extra("float_bit_patterns", json!(fm.len()));
    }

    // V: Variables.
    {
        let t = Tally::new();
        let mut kids = full.clone();
        for i in 0..container_count(reduced.len()) {
            kids.push(container_at(&reduced, i).0);
        }
        agv_engine::par_range(kids.len() as u64, 64, &|i| {
            let x = &kids[i as usize];
            for o in [obj(vec![("a", x.clone())]), obj(vec![("_A1", x.clone()), ("a", x.clone())])] {
                let mut out = Vec::new();
                let e = judge_variables(&o, &mut out);
                t.evals.fetch_add(e, Ordering::Relaxed);
                t.cases.fetch_add(1, Ordering::Relaxed);
                for v in out {
                    cx.violation(v);
                }
            }
        });
        // null / non-object JSON gives no variables
        for j in [json!(null), json!(1), json!([1])] {
            t.evals.fetch_add(1, Ordering::Relaxed);
            if !Variables::from_json(j.clone()).is_empty() {
                cx.violation(Violation::new("variables-from-non-object", format!("Variables::from_json({j}) is not empty"), json!({"part": "variables", "json": j})));
            }
        }
        let c = t.cases.load(Ordering::Relaxed);
        cx.evals(t.evals.load(Ordering::Relaxed));
        cx.extra("sweep_V_variables", json!({"cases": c}));
    }

    cx.extra("max_float_rounding_error_ulp", json!(MAX_ULP.load(Ordering::Relaxed)));
    let shortest = SHORTEST.lock().unwrap().clone();
    if !shortest.is_empty() {
        cx.extra("shortest_float_literal_per_violation_class", json!(shortest));
    }
    cx.exhaustive(true);
    cx.extra("tier_bounds", json!(if thorough { "depth-2 leaf sub-menu 24; scalar values also paired with each alphabet symbol; 112 mantissas per exponent" } else { "depth-2 leaf sub-menu 12; scalar values alone and in a list; 21 mantissas per exponent" }));
}

pub fn replay(case: &serde_json::Value) -> String {
    let Some(v) = dec(&case["value"]) else { return format!("cannot decode case {case}") };
    let mut out = Vec::new();
    let text = format!("{v}");
    let mut s = format!("value {:?}\n  printed: {text:?}\n  reference reading: {:?}\n  parse_query reading (argument, default): {:?}\n  into_json: {:?}\n", rv(&v), ref_read(&text), crate_read(&text), v.clone().into_json().map(|j| j.to_string()).map_err(|e| e.to_string()));
    if case["part"] == "variables" {
        judge_variables(&v, &mut out);
    } else {
        judge(&v, &mut out);
    }
    if out.is_empty() {
        s.push_str("  verdict now: property holds on this case");
    }
    for x in out {
        s.push_str(&format!("  verdict now: {} {:?}: {}\n", x.class, x.keys, x.detail));
    }
    s
}

fn main() {
    agv_engine::driver::main("C15", "exploration", run, Some(replay))
}
