//! Reference ECMAScript string-literal evaluator (ES2019+, module code = strict)
//! and a tiny parser for the one expression of the GraphiQL template that
//! carries configuration: `createGraphiQLFetcher({ ... })`.
//!
//! Values are UTF-16 code-unit sequences, as in ECMAScript.

#[derive(Clone, Debug, PartialEq)]
pub enum StrErrKind {
    /// LF or CR inside the literal
    LineTerminator,
    /// `\x`, `\u`, octal or `\8 \9` escape that strict code rejects
    BadEscape,
    /// input ended inside the literal
    Eof,
    /// no quote at the expected position
    NotAString,
}

#[derive(Clone, Debug)]
pub struct StrErr {
    pub kind: StrErrKind,
    pub at: usize,
    /// value evaluated up to the error
    pub partial: Vec<u16>,
    /// (source index, value length before) of every item evaluated before the error
    pub items: Vec<(usize, usize)>,
}

/// An evaluated string literal. An *item* is one source character or one escape sequence.
#[derive(Clone, Debug, Default, PartialEq, Eq, PartialOrd, Ord)]
pub struct Lit {
    pub value: Vec<u16>,
    /// index just after the closing quote
    pub end: usize,
    /// (source index, value length before) of every item, in order
    pub items: Vec<(usize, usize)>,
}

fn push_cp(v: &mut Vec<u16>, cp: u32) {
    if cp >= 0x10000 {
        let c = cp - 0x10000;
        v.push(0xD800 + (c >> 10) as u16);
        v.push(0xDC00 + (c & 0x3ff) as u16);
    } else {
        v.push(cp as u16);
    }
}

/// Evaluate the string literal starting at `s[i]` (which must be `'` or `"`).
/// Returns the string value and the index just after the closing quote.
pub fn string_literal(s: &[char], i: usize) -> Result<Lit, StrErr> {
    let mut v: Vec<u16> = Vec::new();
    let mut items: Vec<(usize, usize)> = Vec::new();
    let q = match s.get(i) {
        Some(c @ ('\'' | '"')) => *c,
        _ => return Err(StrErr { kind: StrErrKind::NotAString, at: i, partial: v, items }),
    };
    let mut i = i + 1;
    loop {
        let Some(&c) = s.get(i) else { return Err(StrErr { kind: StrErrKind::Eof, at: i, partial: v, items }) };
        if c == q {
            return Ok(Lit { value: v, end: i + 1, items });
        }
        if c != '\n' && c != '\r' {
            items.push((i, v.len()));
        }
        match c {
            '\n' | '\r' => return Err(StrErr { kind: StrErrKind::LineTerminator, at: i, partial: v, items }),
            '\\' => {
                let Some(&e) = s.get(i + 1) else {
                    items.pop();
                    return Err(StrErr { kind: StrErrKind::Eof, at: i + 1, partial: v, items });
                };
                i += 2;
                match e {
                    // LineContinuation
                    '\r' => {
                        if s.get(i) == Some(&'\n') {
                            i += 1;
                        }
                    }
                    '\n' | '\u{2028}' | '\u{2029}' => {}
                    'n' => v.push(0x0a),
                    'r' => v.push(0x0d),
                    't' => v.push(0x09),
                    'b' => v.push(0x08),
                    'f' => v.push(0x0c),
                    'v' => v.push(0x0b),
                    '0' if !matches!(s.get(i), Some(d) if d.is_ascii_digit()) => v.push(0),
                    '0'..='9' => {
                        items.pop();
                        return Err(StrErr { kind: StrErrKind::BadEscape, at: i - 2, partial: v, items });
                    },
                    'x' => {
                        let h: Vec<char> = s.get(i..i + 2).map(|x| x.to_vec()).unwrap_or_default();
                        if h.len() == 2 && h.iter().all(|c| c.is_ascii_hexdigit()) {
                            v.push((h[0].to_digit(16).unwrap() * 16 + h[1].to_digit(16).unwrap()) as u16);
                            i += 2;
                        } else {
                            {
                        items.pop();
                        return Err(StrErr { kind: StrErrKind::BadEscape, at: i - 2, partial: v, items });
                    };
                        }
                    }
                    'u' => {
                        if s.get(i) == Some(&'{') {
                            let mut j = i + 1;
                            let mut cp: u32 = 0;
                            let mut n = 0;
                            while let Some(d) = s.get(j).and_then(|c| c.to_digit(16)) {
                                cp = cp.saturating_mul(16).saturating_add(d);
                                n += 1;
                                j += 1;
                            }
                            if n == 0 || s.get(j) != Some(&'}') || cp > 0x10FFFF {
                                {
                        items.pop();
                        return Err(StrErr { kind: StrErrKind::BadEscape, at: i - 2, partial: v, items });
                    };
                            }
                            push_cp(&mut v, cp);
                            i = j + 1;
                        } else {
                            let h: Vec<char> = s.get(i..i + 4).map(|x| x.to_vec()).unwrap_or_default();
                            if h.len() == 4 && h.iter().all(|c| c.is_ascii_hexdigit()) {
                                v.push(h.iter().fold(0u32, |a, c| a * 16 + c.to_digit(16).unwrap()) as u16);
                                i += 4;
                            } else {
                                {
                        items.pop();
                        return Err(StrErr { kind: StrErrKind::BadEscape, at: i - 2, partial: v, items });
                    };
                            }
                        }
                    }
                    // NonEscapeCharacter (and the quotes, backslash)
                    other => push_cp(&mut v, other as u32),
                }
            }
            other => {
                push_cp(&mut v, other as u32);
                i += 1;
            }
        }
    }
}

fn is_js_ws(c: char) -> bool {
    matches!(c, '\t' | '\u{b}' | '\u{c}' | ' ' | '\u{a0}' | '\u{feff}' | '\n' | '\r' | '\u{2028}' | '\u{2029}' | '\u{1680}' | '\u{2000}'..='\u{200a}' | '\u{202f}' | '\u{205f}' | '\u{3000}')
}

#[derive(Clone, Debug, Default)]
pub struct Fetcher {
    /// property name -> value, in source order
    pub props: Vec<(String, PropVal)>,
    /// index just after the call's closing `);`
    pub end: usize,
}

#[derive(Clone, Debug)]
pub enum PropVal {
    CreateUrl(Lit),
    Ident(String),
    Object(Vec<(Lit, Lit)>),
}

#[derive(Clone, Debug)]
pub enum Issue {
    /// a string literal at `site` (property, entry index, "key"/"value"/"arg") failed to lex
    Str { prop: String, entry: usize, role: &'static str, err: StrErr },
    /// two properties without a separating comma
    MissingComma { after: String, before: String },
    /// anything else the grammar of the template does not allow at this point
    Syntax { prop: String, entry: usize, role: &'static str, at: usize, expected: &'static str, found: String },
}

struct P<'a> {
    s: &'a [char],
    i: usize,
}
impl P<'_> {
    fn ws(&mut self) {
        while self.i < self.s.len() && is_js_ws(self.s[self.i]) {
            self.i += 1;
        }
    }
    fn eat(&mut self, c: char) -> bool {
        self.ws();
        if self.s.get(self.i) == Some(&c) {
            self.i += 1;
            true
        } else {
            false
        }
    }
    fn peek(&mut self) -> Option<char> {
        self.ws();
        self.s.get(self.i).copied()
    }
    fn ident(&mut self) -> Option<String> {
        self.ws();
        let st = self.i;
        while self.i < self.s.len() && (self.s[self.i].is_alphanumeric() || self.s[self.i] == '_' || self.s[self.i] == '$') {
            self.i += 1;
        }
        if self.i > st && !self.s[st].is_ascii_digit() {
            Some(self.s[st..self.i].iter().collect())
        } else {
            self.i = st;
            None
        }
    }
    fn found(&self) -> String {
        self.s[self.i..(self.i + 12).min(self.s.len())].iter().collect()
    }
}

/// Parse `{ prop, … });` starting at `start` (just after `createGraphiQLFetcher(`).
/// Recoverable issues (missing comma) are collected and parsing continues; a fatal one ends the parse
/// with `Err(issues)`.
pub fn parse_fetcher(s: &[char], start: usize) -> (Option<Fetcher>, Vec<Issue>) {
    let mut p = P { s, i: start };
    let mut issues = Vec::new();
    let mut f = Fetcher::default();
    macro_rules! fatal {
        ($prop:expr, $entry:expr, $role:expr, $exp:expr) => {{
            issues.push(Issue::Syntax { prop: $prop.to_string(), entry: $entry, role: $role, at: p.i, expected: $exp, found: p.found() });
            return (None, issues);
        }};
    }
    if !p.eat('{') {
        fatal!("", 0, "call", "{");
    }
    let mut prev: Option<String> = None;
    let mut need_comma = false;
    loop {
        if p.eat('}') {
            break;
        }
        let Some(name) = p.ident() else { fatal!(prev.clone().unwrap_or_default(), 0, "property", "property name or }") };
        if need_comma {
            issues.push(Issue::MissingComma { after: prev.clone().unwrap_or_default(), before: name.clone() });
        }
        if !p.eat(':') {
            fatal!(name, 0, "property", ":");
        }
        let val = match p.peek() {
            Some('{') => {
                p.i += 1;
                let mut entries = Vec::new();
                let mut need = false;
                loop {
                    if p.eat('}') {
                        break;
                    }
                    if need {
                        fatal!(name, entries.len(), "key", ", or }");
                    }
                    p.ws();
                    let k = match string_literal(s, p.i) {
                        Ok(l) => {
                            p.i = l.end;
                            l
                        }
                        Err(err) => {
                            issues.push(Issue::Str { prop: name.clone(), entry: entries.len(), role: "key", err });
                            return (None, issues);
                        }
                    };
                    if !p.eat(':') {
                        // hand the evaluated key to the caller: the literal itself was fine but ended too early / late
                        f.props.push((name.clone(), PropVal::Object({
                            let mut e = entries.clone();
                            e.push((k, Lit::default()));
                            e
                        })));
                        issues.push(Issue::Syntax { prop: name.clone(), entry: entries.len(), role: "key", at: p.i, expected: ":", found: p.found() });
                        return (Some(f), issues);
                    }
                    p.ws();
                    let v = match string_literal(s, p.i) {
                        Ok(l) => {
                            p.i = l.end;
                            l
                        }
                        Err(err) => {
                            f.props.push((name.clone(), PropVal::Object({
                                let mut e = entries.clone();
                                e.push((k, Lit::default()));
                                e
                            })));
                            issues.push(Issue::Str { prop: name.clone(), entry: entries.len(), role: "value", err });
                            return (Some(f), issues);
                        }
                    };
                    entries.push((k, v));
                    need = !p.eat(',');
                    if need && p.peek() != Some('}') {
                        f.props.push((name.clone(), PropVal::Object(entries.clone())));
                        issues.push(Issue::Syntax { prop: name.clone(), entry: entries.len() - 1, role: "value", at: p.i, expected: ", or }", found: p.found() });
                        return (Some(f), issues);
                    }
                }
                PropVal::Object(entries)
            }
            _ => {
                let Some(id) = p.ident() else { fatal!(name, 0, "value", "expression") };
                if id == "createUrl" && p.eat('(') {
                    p.ws();
                    match string_literal(s, p.i) {
                        Ok(v) => {
                            p.i = v.end;
                            if !p.eat(')') {
                                f.props.push((name.clone(), PropVal::CreateUrl(v)));
                                issues.push(Issue::Syntax { prop: name.clone(), entry: 0, role: "arg", at: p.i, expected: ")", found: p.found() });
                                return (Some(f), issues);
                            }
                            PropVal::CreateUrl(v)
                        }
                        Err(err) => {
                            issues.push(Issue::Str { prop: name.clone(), entry: 0, role: "arg", err });
                            return (Some(f), issues);
                        }
                    }
                } else {
                    PropVal::Ident(id)
                }
            }
        };
        f.props.push((name.clone(), val));
        prev = Some(name);
        need_comma = !p.eat(',');
        if need_comma {
            match p.peek() {
                Some('}') => {}
                Some(c) if c.is_alphabetic() || c == '_' || c == '$' => {} // reported as MissingComma at the next property
                _ => {
                    let pr = prev.clone().unwrap_or_default();
                    issues.push(Issue::Syntax { prop: pr, entry: 0, role: "after-value", at: p.i, expected: ", or }", found: p.found() });
                    return (Some(f), issues);
                }
            }
        }
    }
    if !p.eat(')') {
        fatal!(prev.clone().unwrap_or_default(), 0, "call", ")");
    }
    if !p.eat(';') {
        fatal!(prev.clone().unwrap_or_default(), 0, "call", ";");
    }
    f.end = p.i;
    (Some(f), issues)
}

pub fn utf16(s: &str) -> Vec<u16> {
    s.encode_utf16().collect()
}

#[cfg(test)]
mod tests {
    use super::*;
    fn cs(s: &str) -> Vec<char> {
        s.chars().collect()
    }
    fn ev(s: &str) -> Result<String, StrErrKind> {
        string_literal(&cs(s), 0).map(|l| String::from_utf16_lossy(&l.value)).map_err(|e| e.kind)
    }
    #[test]
    fn literals() {
        assert_eq!(ev(r#"'a\'b' rest"#).unwrap(), "a'b");
        assert_eq!(ev(r#""\x41B\u{43}\n\0\a\/""#).unwrap(), "ABC\n\0a/");
        assert_eq!(ev("'a\\\nb'").unwrap(), "ab");
        assert_eq!(ev("'a\u{2028}b'").unwrap(), "a\u{2028}b");
        assert_eq!(ev("'&#39;'").unwrap(), "&#39;");
        assert_eq!(ev("'a\nb'"), Err(StrErrKind::LineTerminator));
        assert_eq!(ev(r"'\x4'"), Err(StrErrKind::BadEscape));
        assert_eq!(ev(r"'\u{110000}'"), Err(StrErrKind::BadEscape));
        assert_eq!(ev(r"'\01'"), Err(StrErrKind::BadEscape));
        assert_eq!(ev(r"'\8'"), Err(StrErrKind::BadEscape));
        assert_eq!(ev("'abc"), Err(StrErrKind::Eof));
        assert_eq!(ev(r"'😀'").unwrap(), "😀");
    }
    #[test]
    fn fetcher() {
        let src = cs("{ url: createUrl('/'), fetch: customFetch, headers: { 'a': 'b', } wsConnectionParams: { 'c': \"d\" } });x");
        let (f, issues) = parse_fetcher(&src, 0);
        let f = f.unwrap();
        assert_eq!(f.props.len(), 4);
        assert_eq!(issues.len(), 1);
        assert!(matches!(&issues[0], Issue::MissingComma { after, before } if after == "headers" && before == "wsConnectionParams"));
        assert_eq!(src[f.end], 'x');
    }
}
