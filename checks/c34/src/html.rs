//! Reference tokenizer for the HTML constructs the GraphiQL page uses, written
//! from the WHATWG tokenization chapter (§13.2.5): data, tag open / tag name /
//! attributes, comments and DOCTYPE, RCDATA (`<title>`), RAWTEXT (`<style>`),
//! and script data including the escaped and double-escaped sub-states.
//! Anything outside that subset is reported as `Err` (a limit of the
//! reference, never a verdict).

#[derive(Clone, Debug, PartialEq)]
pub enum Tok {
    Doctype,
    Comment,
    Start { name: String, attrs: Vec<(String, String)>, self_closing: bool },
    End { name: String },
    /// Text with the byte range (in chars) it came from; `decoded` has character references
    /// resolved where the state decodes them (data, RCDATA), raw otherwise.
    Text { raw: String, decoded: String, kind: TextKind, start: usize, end: usize },
}

#[derive(Clone, Copy, Debug, PartialEq)]
pub enum TextKind {
    Data,
    Rcdata,
    Rawtext,
    Script,
}

fn is_ws(c: char) -> bool {
    matches!(c, '\t' | '\n' | '\u{c}' | ' ' | '\r')
}

/// Decode character references in data / RCDATA text.
pub fn decode_refs(s: &[char]) -> Result<String, String> {
    let mut out = String::new();
    let mut i = 0;
    while i < s.len() {
        if s[i] != '&' {
            out.push(s[i]);
            i += 1;
            continue;
        }
        // numeric
        if i + 1 < s.len() && s[i + 1] == '#' {
            let mut j = i + 2;
            let hex = j < s.len() && (s[j] == 'x' || s[j] == 'X');
            if hex {
                j += 1;
            }
            let d0 = j;
            let mut v: u32 = 0;
            while j < s.len() && (if hex { s[j].is_ascii_hexdigit() } else { s[j].is_ascii_digit() }) {
                v = v.saturating_mul(if hex { 16 } else { 10 }).saturating_add(s[j].to_digit(16).unwrap());
                j += 1;
            }
            if j == d0 {
                // "&#" not followed by digits: literal
                out.push('&');
                i += 1;
                continue;
            }
            if j < s.len() && s[j] == ';' {
                j += 1;
            }
            let c = match v {
                0 => '\u{fffd}',
                0x80..=0x9f => return Err(format!("numeric reference &#{v}; needs the windows-1252 table (outside the reference)")),
                _ => char::from_u32(v).unwrap_or('\u{fffd}'),
            };
            out.push(c);
            i = j;
            continue;
        }
        // named
        let mut j = i + 1;
        while j < s.len() && s[j].is_ascii_alphanumeric() {
            j += 1;
        }
        let name: String = s[i + 1..j].iter().collect();
        if name.is_empty() {
            out.push('&');
            i += 1;
            continue;
        }
        let semi = j < s.len() && s[j] == ';';
        let known = match name.as_str() {
            "amp" | "AMP" => Some('&'),
            "lt" | "LT" => Some('<'),
            "gt" | "GT" => Some('>'),
            "quot" | "QUOT" => Some('"'),
            "apos" if semi => Some('\''),
            _ => None,
        };
        if let Some(c) = known {
            out.push(c);
            i = if semi { j + 1 } else { j };
            continue;
        }
        if name.chars().all(|c| c == 'a') {
            // no named reference (nor a prefix of one usable without `;`) consists of the letter a only
            out.push('&');
            i += 1;
            continue;
        }
        return Err(format!("named reference &{name} is outside the reference's table"));
    }
    Ok(out)
}

/// Where a `<script>` element's content ends. `start` = index just after the `>` of the start tag.
/// Returns (content_end, index after the end tag's `>`); when the input ends inside the element both are
/// `s.len()` (the tokenizer emits end-of-file there, the element swallows the rest of the page).
pub fn script_data_end(s: &[char], start: usize) -> Result<(usize, usize), String> {
    #[derive(Clone, Copy, PartialEq, Debug)]
    enum St {
        Data,
        Lt,
        EndOpen,
        EndName,
        EscStart,
        EscStartDash,
        Esc,
        EscDash,
        EscDashDash,
        EscLt,
        EscEndOpen,
        EscEndName,
        DblStart,
        Dbl,
        DblDash,
        DblDashDash,
        DblLt,
        DblEnd,
    }
    let mut st = St::Data;
    let mut i = start;
    let mut tmp = String::new(); // temporary buffer / end tag name
    let mut lt_pos = 0usize; // position of the `<` that opened the current candidate end tag
    loop {
        let c = if i < s.len() { Some(s[i]) } else { None };
        match st {
            St::Data => match c {
                Some('<') => {
                    lt_pos = i;
                    st = St::Lt;
                    i += 1;
                }
                Some(_) => i += 1,
                None => return Ok((s.len(), s.len())),
            },
            St::Lt => match c {
                Some('/') => {
                    tmp.clear();
                    st = St::EndOpen;
                    i += 1;
                }
                Some('!') => {
                    st = St::EscStart;
                    i += 1;
                }
                _ => st = St::Data,
            },
            St::EndOpen => match c {
                Some(ch) if ch.is_ascii_alphabetic() => st = St::EndName,
                _ => st = St::Data,
            },
            St::EndName | St::EscEndName => {
                let back = if st == St::EndName { St::Data } else { St::Esc };
                match c {
                    Some(ch) if is_ws(ch) || ch == '/' => {
                        if tmp == "script" {
                            return end_tag_rest(s, i).map(|e| (lt_pos, e));
                        }
                        st = back;
                    }
                    Some('>') => {
                        if tmp == "script" {
                            return Ok((lt_pos, i + 1));
                        }
                        st = back;
                    }
                    Some(ch) if ch.is_ascii_alphabetic() => {
                        tmp.push(ch.to_ascii_lowercase());
                        i += 1;
                    }
                    _ => st = back,
                }
            }
            St::EscStart => match c {
                Some('-') => {
                    st = St::EscStartDash;
                    i += 1;
                }
                _ => st = St::Data,
            },
            St::EscStartDash => match c {
                Some('-') => {
                    st = St::EscDashDash;
                    i += 1;
                }
                _ => st = St::Data,
            },
            St::Esc => match c {
                Some('-') => {
                    st = St::EscDash;
                    i += 1;
                }
                Some('<') => {
                    lt_pos = i;
                    st = St::EscLt;
                    i += 1;
                }
                Some(_) => i += 1,
                None => return Ok((s.len(), s.len())),
            },
            St::EscDash => match c {
                Some('-') => {
                    st = St::EscDashDash;
                    i += 1;
                }
                Some('<') => {
                    lt_pos = i;
                    st = St::EscLt;
                    i += 1;
                }
                Some(_) => {
                    st = St::Esc;
                    i += 1;
                }
                None => return Ok((s.len(), s.len())),
            },
            St::EscDashDash => match c {
                Some('-') => i += 1,
                Some('<') => {
                    lt_pos = i;
                    st = St::EscLt;
                    i += 1;
                }
                Some('>') => {
                    st = St::Data;
                    i += 1;
                }
                Some(_) => {
                    st = St::Esc;
                    i += 1;
                }
                None => return Ok((s.len(), s.len())),
            },
            St::EscLt => match c {
                Some('/') => {
                    tmp.clear();
                    st = St::EscEndOpen;
                    i += 1;
                }
                Some(ch) if ch.is_ascii_alphabetic() => {
                    tmp.clear();
                    st = St::DblStart;
                }
                _ => st = St::Esc,
            },
            St::EscEndOpen => match c {
                Some(ch) if ch.is_ascii_alphabetic() => st = St::EscEndName,
                _ => st = St::Esc,
            },
            St::DblStart => match c {
                Some(ch) if is_ws(ch) || ch == '/' || ch == '>' => {
                    st = if tmp == "script" { St::Dbl } else { St::Esc };
                    i += 1;
                }
                Some(ch) if ch.is_ascii_alphabetic() => {
                    tmp.push(ch.to_ascii_lowercase());
                    i += 1;
                }
                _ => st = St::Esc,
            },
            St::Dbl => match c {
                Some('-') => {
                    st = St::DblDash;
                    i += 1;
                }
                Some('<') => {
                    st = St::DblLt;
                    i += 1;
                }
                Some(_) => i += 1,
                None => return Ok((s.len(), s.len())),
            },
            St::DblDash => match c {
                Some('-') => {
                    st = St::DblDashDash;
                    i += 1;
                }
                Some('<') => {
                    st = St::DblLt;
                    i += 1;
                }
                Some(_) => {
                    st = St::Dbl;
                    i += 1;
                }
                None => return Ok((s.len(), s.len())),
            },
            St::DblDashDash => match c {
                Some('-') => i += 1,
                Some('<') => {
                    st = St::DblLt;
                    i += 1;
                }
                Some('>') => {
                    st = St::Data;
                    i += 1;
                }
                Some(_) => {
                    st = St::Dbl;
                    i += 1;
                }
                None => return Ok((s.len(), s.len())),
            },
            St::DblLt => match c {
                Some('/') => {
                    tmp.clear();
                    st = St::DblEnd;
                    i += 1;
                }
                _ => st = St::Dbl,
            },
            St::DblEnd => match c {
                Some(ch) if is_ws(ch) || ch == '/' || ch == '>' => {
                    st = if tmp == "script" { St::Esc } else { St::Dbl };
                    i += 1;
                }
                Some(ch) if ch.is_ascii_alphabetic() => {
                    tmp.push(ch.to_ascii_lowercase());
                    i += 1;
                }
                _ => st = St::Dbl,
            },
        }
    }
}

/// After an end tag's name followed by whitespace or `/`: skip attributes up to and including `>`.
fn end_tag_rest(s: &[char], i: usize) -> Result<usize, String> {
    let (_, _, e) = attributes(s, i)?;
    Ok(e)
}

/// RCDATA / RAWTEXT: content ends at the first `</name` followed by whitespace, `/` or `>`.
fn raw_end(s: &[char], start: usize, name: &str) -> Result<(usize, usize), String> {
    let n: Vec<char> = name.chars().collect();
    let mut i = start;
    while i < s.len() {
        if s[i] == '<' && i + 1 < s.len() && s[i + 1] == '/' {
            let j = i + 2;
            if j + n.len() <= s.len() && s[j..j + n.len()].iter().zip(&n).all(|(a, b)| a.to_ascii_lowercase() == *b) {
                let k = j + n.len();
                match s.get(k) {
                    Some('>') => return Ok((i, k + 1)),
                    Some(c) if is_ws(*c) || *c == '/' => return end_tag_rest(s, k).map(|e| (i, e)),
                    _ => {}
                }
            }
        }
        i += 1;
    }
    let _ = name;
    Ok((s.len(), s.len()))
}

/// Attribute list starting at `i` (just after the tag name). Returns (attrs, self_closing, index after `>`).
fn attributes(s: &[char], mut i: usize) -> Result<(Vec<(String, String)>, bool, usize), String> {
    let mut attrs = Vec::new();
    loop {
        while i < s.len() && is_ws(s[i]) {
            i += 1;
        }
        match s.get(i) {
            None => return Ok((attrs, false, s.len())), // eof-in-tag: the tag is dropped by browsers; the skeleton comparison still sees the page cut short
            Some('>') => return Ok((attrs, false, i + 1)),
            Some('/') => {
                if s.get(i + 1) == Some(&'>') {
                    return Ok((attrs, true, i + 2));
                }
                i += 1;
                continue;
            }
            _ => {}
        }
        let mut name = String::new();
        // a leading `=` is part of the name (spec: unexpected-equals-sign-before-attribute-name)
        let mut first = true;
        while i < s.len() {
            let c = s[i];
            if is_ws(c) || c == '/' || c == '>' || (c == '=' && !first) {
                break;
            }
            name.push(c.to_ascii_lowercase());
            first = false;
            i += 1;
        }
        while i < s.len() && is_ws(s[i]) {
            i += 1;
        }
        let mut value = String::new();
        if s.get(i) == Some(&'=') {
            i += 1;
            while i < s.len() && is_ws(s[i]) {
                i += 1;
            }
            match s.get(i) {
                Some(q @ ('"' | '\'')) => {
                    let q = *q;
                    i += 1;
                    let st = i;
                    while i < s.len() && s[i] != q {
                        i += 1;
                    }
                    if i >= s.len() {
                        return Ok((attrs, false, s.len()));
                    }
                    value = decode_refs(&s[st..i])?;
                    i += 1;
                }
                Some('>') => {}
                _ => {
                    let st = i;
                    while i < s.len() && !is_ws(s[i]) && s[i] != '>' {
                        i += 1;
                    }
                    value = decode_refs(&s[st..i])?;
                }
            }
        }
        attrs.push((name, value));
    }
}

pub fn tokenize(s: &[char]) -> Result<Vec<Tok>, String> {
    let mut out = Vec::new();
    let mut i = 0usize;
    let mut text_start = 0usize;
    let flush = |out: &mut Vec<Tok>, a: usize, b: usize| -> Result<(), String> {
        if b > a {
            out.push(Tok::Text { raw: s[a..b].iter().collect(), decoded: decode_refs(&s[a..b])?, kind: TextKind::Data, start: a, end: b });
        }
        Ok(())
    };
    while i < s.len() {
        if s[i] != '<' {
            i += 1;
            continue;
        }
        let nxt = s.get(i + 1).copied();
        match nxt {
            Some('!') => {
                flush(&mut out, text_start, i)?;
                if s.get(i + 2) == Some(&'-') && s.get(i + 3) == Some(&'-') {
                    // comment; abrupt closings `<!-->` and `<!--->`
                    let mut j = i + 4;
                    if s.get(j) == Some(&'>') {
                        j += 1;
                    } else if s.get(j) == Some(&'-') && s.get(j + 1) == Some(&'>') {
                        j += 2;
                    } else {
                        loop {
                            if j >= s.len() {
                                break;
                            }
                            if s[j] == '-' && s.get(j + 1) == Some(&'-') && (s.get(j + 2) == Some(&'>') || (s.get(j + 2) == Some(&'!') && s.get(j + 3) == Some(&'>'))) {
                                j += if s[j + 2] == '>' { 3 } else { 4 };
                                break;
                            }
                            j += 1;
                        }
                    }
                    out.push(Tok::Comment);
                    i = j;
                } else {
                    let word: String = s[i + 2..(i + 9).min(s.len())].iter().collect::<String>().to_ascii_lowercase();
                    let mut j = i + 2;
                    while j < s.len() && s[j] != '>' {
                        j += 1;
                    }
                    out.push(if word == "doctype" { Tok::Doctype } else { Tok::Comment });
                    i = (j + 1).min(s.len());
                }
                text_start = i;
            }
            Some('/') => {
                match s.get(i + 2) {
                    Some(c) if c.is_ascii_alphabetic() => {
                        flush(&mut out, text_start, i)?;
                        let mut j = i + 2;
                        let mut name = String::new();
                        while j < s.len() && !is_ws(s[j]) && s[j] != '/' && s[j] != '>' {
                            name.push(s[j].to_ascii_lowercase());
                            j += 1;
                        }
                        let (_, _, e) = attributes(s, j)?;
                        out.push(Tok::End { name });
                        i = e;
                        text_start = i;
                    }
                    Some('>') => {
                        flush(&mut out, text_start, i)?;
                        i += 3;
                        text_start = i;
                    }
                    Some(_) => {
                        // bogus comment up to `>`
                        flush(&mut out, text_start, i)?;
                        let mut j = i + 2;
                        while j < s.len() && s[j] != '>' {
                            j += 1;
                        }
                        out.push(Tok::Comment);
                        i = (j + 1).min(s.len());
                        text_start = i;
                    }
                    None => i += 1,
                }
            }
            Some(c) if c.is_ascii_alphabetic() => {
                flush(&mut out, text_start, i)?;
                let mut j = i + 1;
                let mut name = String::new();
                while j < s.len() && !is_ws(s[j]) && s[j] != '/' && s[j] != '>' {
                    name.push(s[j].to_ascii_lowercase());
                    j += 1;
                }
                let (attrs, self_closing, e) = attributes(s, j)?;
                out.push(Tok::Start { name: name.clone(), attrs, self_closing });
                i = e;
                let special = match name.as_str() {
                    "title" | "textarea" => Some(TextKind::Rcdata),
                    "style" | "xmp" | "iframe" | "noembed" | "noframes" | "noscript" => Some(TextKind::Rawtext),
                    "script" => Some(TextKind::Script),
                    "plaintext" => return Err("<plaintext> is outside the reference".into()),
                    _ => None,
                };
                if let Some(kind) = special {
                    let (ce, after) = match kind {
                        TextKind::Script => script_data_end(s, i)?,
                        _ => raw_end(s, i, &name)?,
                    };
                    let raw: String = s[i..ce].iter().collect();
                    let decoded = if kind == TextKind::Rcdata { decode_refs(&s[i..ce])? } else { raw.clone() };
                    out.push(Tok::Text { raw, decoded, kind, start: i, end: ce });
                    if ce < s.len() {
                        out.push(Tok::End { name });
                    }
                    i = after;
                }
                text_start = i;
            }
            Some('?') => {
                flush(&mut out, text_start, i)?;
                let mut j = i + 1;
                while j < s.len() && s[j] != '>' {
                    j += 1;
                }
                out.push(Tok::Comment);
                i = (j + 1).min(s.len());
                text_start = i;
            }
            _ => i += 1,
        }
    }
    flush(&mut out, text_start, s.len())?;
    Ok(out)
}

/// Tag skeleton: the sequence of tags with their attributes, text dropped.
pub fn skeleton(toks: &[Tok]) -> Vec<String> {
    toks.iter()
        .filter_map(|t| match t {
            Tok::Doctype => Some("!doctype".to_string()),
            Tok::Comment => Some("!comment".to_string()),
            Tok::Start { name, attrs, self_closing } => Some(format!("<{name} {attrs:?}{}>", if *self_closing { " /" } else { "" })),
            Tok::End { name } => Some(format!("</{name}>")),
            Tok::Text { .. } => None,
        })
        .collect()
}

#[cfg(test)]
mod tests {
    use super::*;
    fn cs(s: &str) -> Vec<char> {
        s.chars().collect()
    }
    fn script_len(body_and_rest: &str) -> usize {
        script_data_end(&cs(body_and_rest), 0).unwrap().0
    }
    #[test]
    fn script_states() {
        assert_eq!(script_len("a</script>b"), 1);
        assert_eq!(script_len("a</scripty></script>"), 11);
        assert_eq!(script_len("'</SCRIPT >'</script>"), 1);
        // escaped: end tag still ends it
        assert_eq!(script_len("<!--a</script>"), 5);
        // double escaped: the inner </script> does not end the element
        assert_eq!(script_len("<!--<script>x</script>y</script>"), 23);
        // `-->` leaves the escaped states
        assert_eq!(script_len("<!--<script>-->x</script>"), 16);
        assert_eq!(script_data_end(&cs("<!--<script>x</script>"), 0).unwrap(), (22, 22));
    }
    #[test]
    fn refs() {
        assert_eq!(decode_refs(&cs("&#60;&#x3c;&amp;&lt&a&#;&")).unwrap(), "<<&<&a&#;&");
    }
    #[test]
    fn page() {
        let t = tokenize(&cs("<!DOCTYPE html><title>a&#38;</b></title><script type=\"module\">x<y</script><p class=a>")).unwrap();
        assert_eq!(skeleton(&t).len(), 6);
        assert!(matches!(&t[2], Tok::Text { decoded, .. } if decoded == "a&</b>"));
    }
}
