//! C34 — the GraphiQL page embeds its configuration verbatim and safely.
//!
//! Seam: `GraphiQLSource::build()…finish()`. Every string ≤ 3 (quick) / ≤ 4
//! (thorough) over a 13-symbol alphabet is placed in each of the seven
//! configuration slots; the rendered page is judged by two reference
//! tokenizers written from the specifications (html.rs: WHATWG tokenizer
//! states for data / RCDATA / RAWTEXT / script data incl. escaped states;
//! js.rs: ECMAScript string literals and the `createGraphiQLFetcher({…})`
//! call of the template).

mod html;
mod js;

use agv_engine::record::{Cx, Violation};
use async_graphql::http::GraphiQLSource;
use html::{TextKind, Tok};
use js::{Issue, PropVal, StrErrKind};
use rayon::prelude::*;
use serde_json::{json, Value as J};

const SLOTS: [&str; 7] = ["endpoint", "subscription_endpoint", "title", "header_name", "header_value", "ws_param_name", "ws_param_value"];

#[derive(Clone, Debug, Default, PartialEq)]
struct Cfg {
    endpoint: String,
    sub: Option<String>,
    title: Option<String>,
    headers: Vec<(String, String)>,
    ws: Vec<(String, String)>,
}

impl Cfg {
    fn set(&mut self, slot: usize, s: &str) {
        match slot {
            0 => self.endpoint = s.to_string(),
            1 => self.sub = Some(s.to_string()),
            2 => self.title = Some(s.to_string()),
            3 | 4 => {
                if self.headers.is_empty() {
                    self.headers.push(("hn".into(), "hv".into()));
                }
                if slot == 3 {
                    self.headers[0].0 = s.to_string()
                } else {
                    self.headers[0].1 = s.to_string()
                }
            }
            5 | 6 => {
                if self.ws.is_empty() {
                    self.ws.push(("wn".into(), "wv".into()));
                }
                if slot == 5 {
                    self.ws[0].0 = s.to_string()
                } else {
                    self.ws[0].1 = s.to_string()
                }
            }
            _ => unreachable!(),
        }
    }
    fn to_json(&self) -> J {
        json!({"endpoint": self.endpoint, "subscription_endpoint": self.sub, "title": self.title, "headers": self.headers, "ws_connection_params": self.ws})
    }
    fn from_json(v: &J) -> Cfg {
        let pairs = |x: &J| -> Vec<(String, String)> {
            x.as_array().map(|a| a.iter().map(|p| (p[0].as_str().unwrap_or("").to_string(), p[1].as_str().unwrap_or("").to_string())).collect()).unwrap_or_default()
        };
        Cfg {
            endpoint: v["endpoint"].as_str().unwrap_or("").to_string(),
            sub: v["subscription_endpoint"].as_str().map(|s| s.to_string()),
            title: v["title"].as_str().map(|s| s.to_string()),
            headers: pairs(&v["headers"]),
            ws: pairs(&v["ws_connection_params"]),
        }
    }
    /// Same slots present, every value harmless: the template's intended structure.
    fn benign_twin(&self) -> Cfg {
        Cfg {
            endpoint: "/e".into(),
            sub: self.sub.as_ref().map(|_| "/s".to_string()),
            title: self.title.as_ref().map(|_| "T".to_string()),
            headers: (0..self.headers.len()).map(|i| (format!("hn{i}"), "hv".to_string())).collect(),
            ws: (0..self.ws.len()).map(|i| (format!("wn{i}"), "wv".to_string())).collect(),
        }
    }
}

fn render(c: &Cfg) -> String {
    let mut b = GraphiQLSource::build().endpoint(&c.endpoint);
    if let Some(s) = &c.sub {
        b = b.subscription_endpoint(s);
    }
    if let Some(t) = &c.title {
        b = b.title(t);
    }
    for (k, v) in &c.headers {
        b = b.header(k, v);
    }
    for (k, v) in &c.ws {
        b = b.ws_connection_param(k, v);
    }
    b.finish()
}

fn sym(c: Option<u16>) -> String {
    match c {
        None => "end".into(),
        Some(0x26) => "amp".into(),
        Some(0x27) => "apos".into(),
        Some(0x22) => "quot".into(),
        Some(0x3c) => "lt".into(),
        Some(0x3e) => "gt".into(),
        Some(0x5c) => "backslash".into(),
        Some(0x2f) => "slash".into(),
        Some(0x0a) => "LF".into(),
        Some(0x0d) => "CR".into(),
        Some(c) if (0x20..0x7f).contains(&c) => format!("'{}'", c as u8 as char),
        Some(c) => format!("U+{c:04X}"),
    }
}

/// Does the source text at `raw[j..]` start with a character reference that decodes to `want`?
fn entity_at(raw: &[char], j: usize, want: u16) -> bool {
    if raw.get(j) != Some(&'&') {
        return false;
    }
    let tail = &raw[j..(j + 12).min(raw.len())];
    let Some(semi) = tail.iter().position(|c| *c == ';') else { return false };
    let one = &tail[..=semi];
    if one.len() < 3 {
        return false;
    }
    match html::decode_refs(one) {
        Ok(d) => {
            let dv: Vec<u16> = d.encode_utf16().collect();
            dv.len() == 1 && dv[0] == want && d != one.iter().collect::<String>()
        }
        Err(_) => false,
    }
}

/// Defect class of a JS string slot, computed from the first *item* of the literal (one source
/// character or one escape sequence) whose value is not the next piece of the configured string.
/// `raw` is the script text, `items` = (source index, value length before) per item, `got` the value
/// (complete, or partial with `err`).
fn classify(cfg: &[u16], got: &[u16], items: &[(usize, usize)], raw: &[char], err: Option<&StrErrKind>) -> Option<(String, String)> {
    if err.is_none() && got == cfg {
        return None;
    }
    // walk the items against the configured string
    let mut pos = 0usize; // configured units matched so far
    let mut culprit: Option<usize> = None; // index of the first item that does not fit
    let mut cfg_pos: Vec<usize> = Vec::with_capacity(items.len());
    for (k, (_, vstart)) in items.iter().enumerate() {
        let vend = items.get(k + 1).map(|x| x.1).unwrap_or(got.len());
        let units = &got[*vstart..vend];
        cfg_pos.push(pos);
        if units.is_empty() || !cfg[pos.min(cfg.len())..].starts_with(units) {
            culprit = Some(k);
            break;
        }
        pos += units.len();
    }
    // an HTML character reference standing for a configured character: its `&` is either the
    // culprit itself or (when the configured character is `&`) an item shortly before it
    let upto = culprit.unwrap_or(items.len().saturating_sub(1));
    if !items.is_empty() {
        for j in (upto.saturating_sub(8)..=upto.min(cfg_pos.len().saturating_sub(1))).rev() {
            let cp = cfg_pos[j];
            if cp < cfg.len() && raw.get(items[j].0) == Some(&'&') && entity_at(raw, items[j].0, cfg[cp]) {
                return Some(("html-entity-inside-js-string".into(), sym(Some(cfg[cp]))));
            }
        }
    }
    match culprit {
        Some(k) => {
            let c = cfg.get(cfg_pos[k]).copied();
            // a configured backslash that does not arrive as a backslash (consumed as an escape introducer)
            if c == Some(0x5c) {
                return Some(("backslash-unescaped".into(), "backslash".into()));
            }
            if c.is_none() {
                return Some(("string-runs-past-configured-value".into(), "end".into()));
            }
            Some(("wrong-character-in-js-string".into(), sym(c)))
        }
        None => {
            // every evaluated item fits: the literal stopped (closing quote or lexer error) before
            // the configured string was complete
            let c = cfg.get(pos).copied();
            Some(match err {
                Some(StrErrKind::LineTerminator) if matches!(c, Some(0x0a) | Some(0x0d)) => ("line-terminator-in-js-string".into(), sym(c)),
                _ if c == Some(0x5c) => ("backslash-unescaped".into(), "backslash".into()),
                Some(_) => ("js-string-syntax-error".into(), sym(c)),
                None => ("string-context-ended-by-value".into(), sym(c)),
            })
        }
    }
}

struct Found {
    class: String,
    slot: String,
    symbol: String,
    detail: String,
}

fn show16(v: &[u16]) -> String {
    format!("{:?}", String::from_utf16_lossy(v))
}

/// Judge one rendered page. `hostile` names the slots under test (for structure-level classes).
fn judge(cfg: &Cfg, page: &str, benign_skeleton: &[String], hostile: &str) -> Result<Vec<Found>, String> {
    let mut out: Vec<Found> = Vec::new();
    let chars: Vec<char> = page.chars().collect();
    let toks = html::tokenize(&chars).map_err(|e| format!("reference HTML tokenizer: {e}"))?;

    // --- HTML level: title text, script boundaries, skeleton
    let mut title_text: Option<String> = None;
    let mut scripts: Vec<(usize, usize, Vec<(String, String)>)> = Vec::new();
    for (k, t) in toks.iter().enumerate() {
        if let Tok::Start { name, attrs, .. } = t {
            if let Some(Tok::Text { decoded, kind, start, end, .. }) = toks.get(k + 1) {
                if name == "title" && *kind == TextKind::Rcdata && title_text.is_none() {
                    title_text = Some(decoded.clone());
                }
                if name == "script" && *kind == TextKind::Script {
                    scripts.push((*start, *end, attrs.clone()));
                }
            }
        }
    }
    let want_title = cfg.title.clone().unwrap_or_else(|| "GraphiQL".to_string());
    // the template renders `<title>{{ title }}</title>` without padding: compare exactly
    let title_ok = title_text.as_deref() == Some(want_title.as_str());
    if !title_ok {
        let got = title_text.clone().unwrap_or_default();
        let class = if want_title.starts_with(&got) && got.len() < want_title.len() { "title-context-ended-by-value" } else { "title-wrong-text" };
        out.push(Found { class: class.into(), slot: "title".into(), symbol: String::new(), detail: format!("<title> text after RCDATA decoding is {got:?}, configured {want_title:?}") });
    }
    let module = scripts.iter().find(|(_, _, a)| a.iter().any(|(k, v)| k == "type" && v == "module")).cloned();
    let Some((ms, me, _)) = module else {
        out.push(Found { class: "html-structure-changed".into(), slot: hostile.into(), symbol: String::new(), detail: "no <script type=module> element found by the reference tokenizer".into() });
        return Ok(out);
    };
    // the template's own </script> is the last one in the page: every slot is rendered before it
    let own_end = {
        let pat: Vec<char> = "</script>".chars().collect();
        (0..chars.len().saturating_sub(pat.len() - 1)).rev().find(|&p| chars[p..p + pat.len()] == pat[..])
    };
    let mut structure_reported = false;
    if own_end != Some(me) {
        structure_reported = true;
        let class = if own_end.map(|o| me < o).unwrap_or(false) { "script-context-ended-by-value" } else { "script-end-tag-swallowed-by-value" };
        out.push(Found {
            class: class.into(),
            slot: hostile.into(),
            symbol: String::new(),
            detail: format!("the module script's content ends at char {me} ({:?}…) but the template's own </script> is at {own_end:?}", chars[me.min(chars.len())..(me + 20).min(chars.len())].iter().collect::<String>()),
        });
    }
    let sk = html::skeleton(&toks);
    if sk != benign_skeleton && !structure_reported && title_ok {
        let k = sk.iter().zip(benign_skeleton.iter()).take_while(|(a, b)| a == b).count();
        out.push(Found {
            class: "html-structure-changed".into(),
            slot: hostile.into(),
            symbol: String::new(),
            detail: format!("tag sequence departs from the template's at tag #{k}: got {:?}, template has {:?}", sk.get(k), benign_skeleton.get(k)),
        });
    }

    // --- JS level
    let script = &chars[ms..me];
    let anchor: Vec<char> = "const fetcher = createGraphiQLFetcher(".chars().collect();
    let Some(apos) = (0..script.len().saturating_sub(anchor.len())).find(|&p| script[p..p + anchor.len()] == anchor[..]) else {
        out.push(Found { class: "js-anchor-missing".into(), slot: hostile.into(), symbol: String::new(), detail: "createGraphiQLFetcher( not found in the module script".into() });
        return Ok(out);
    };
    let (fetcher, issues) = js::parse_fetcher(script, apos + anchor.len());

    // which configured string stands at (prop, entry, role)?
    let site = |prop: &str, entry: usize, role: &str| -> Option<(&'static str, Option<&String>)> {
        match (prop, role) {
            ("url", "arg") => Some(("endpoint", Some(&cfg.endpoint))),
            ("subscriptionUrl", "arg") => Some(("subscription_endpoint", cfg.sub.as_ref())),
            ("headers", "key") => Some(("header_name", if cfg.headers.len() == 1 { cfg.headers.get(entry).map(|x| &x.0) } else { None })),
            ("headers", "value") => Some(("header_value", if cfg.headers.len() == 1 { cfg.headers.get(entry).map(|x| &x.1) } else { None })),
            ("wsConnectionParams", "key") => Some(("ws_param_name", if cfg.ws.len() == 1 { cfg.ws.get(entry).map(|x| &x.0) } else { None })),
            ("wsConnectionParams", "value") => Some(("ws_param_value", if cfg.ws.len() == 1 { cfg.ws.get(entry).map(|x| &x.1) } else { None })),
            _ => None,
        }
    };
    let mut fatal_slot: Option<String> = None;
    for is in &issues {
        match is {
            Issue::MissingComma { after, before } => out.push(Found {
                class: "js-missing-comma-between-properties".into(),
                slot: format!("{after}|{before}"),
                symbol: String::new(),
                detail: format!("the object literal passed to createGraphiQLFetcher has no comma between `{after}` and `{before}`: the module does not parse"),
            }),
            Issue::Str { prop, entry, role, err } => {
                let (slot, cfgs) = site(prop, *entry, role).unwrap_or(("?", None));
                fatal_slot = Some(slot.to_string());
                let (class, symbol) = match cfgs {
                    Some(c) => classify(&js::utf16(c), &err.partial, &err.items, script, Some(&err.kind)).unwrap_or(("js-string-syntax-error".into(), "end".into())),
                    None => ("js-string-syntax-error".into(), String::new()),
                };
                out.push(Found {
                    class,
                    slot: slot.into(),
                    symbol,
                    detail: format!("string literal for {slot} does not lex ({:?} at script char {} after evaluating {}); configured {:?}", err.kind, err.at, show16(&err.partial), cfgs),
                });
            }
            Issue::Syntax { prop, entry, role, expected, found, at } => {
                let slot: String = site(prop, *entry, role).map(|x| x.0.to_string()).unwrap_or_else(|| hostile.to_string());
                fatal_slot = Some(slot.clone());
                // if the literal at this site evaluated to something else than configured, the value
                // comparison below reports the precise class; otherwise this is the only symptom
                out.push(Found {
                    class: "js-syntax-error-after-string".into(),
                    slot,
                    symbol: String::new(),
                    detail: format!("after the {role} of `{prop}` (script char {at}) the script continues with {found:?}, the template's grammar needs {expected:?}"),
                });
            }
        }
    }
    if let Some(f) = &fetcher {
        let get = |n: &str| f.props.iter().find(|(k, _)| k == n).map(|(_, v)| v);
        let cmp = |out: &mut Vec<Found>, slot: &'static str, cfgs: Option<&String>, got: Option<&js::Lit>| match (cfgs, got) {
            (Some(c), Some(g)) => {
                if let Some((class, symbol)) = classify(&js::utf16(c), &g.value, &g.items, script, None) {
                    out.push(Found { class, slot: slot.into(), symbol, detail: format!("{slot}: the script's string evaluates to {}, configured {c:?}", show16(&g.value)) });
                }
            }
            (Some(c), None) => {
                if fatal_slot.is_none() {
                    out.push(Found { class: "configured-value-missing-from-script".into(), slot: slot.into(), symbol: String::new(), detail: format!("{slot} {c:?} has no string in the fetcher options") });
                }
            }
            (None, Some(g)) => out.push(Found { class: "unconfigured-value-in-script".into(), slot: slot.into(), symbol: String::new(), detail: format!("{slot} not configured but the script has {}", show16(&g.value)) }),
            (None, None) => {}
        };
        let url = match get("url") {
            Some(PropVal::CreateUrl(v)) => Some(v),
            _ => None,
        };
        cmp(&mut out, "endpoint", Some(&cfg.endpoint), url);
        let sub = match get("subscriptionUrl") {
            Some(PropVal::CreateUrl(v)) => Some(v),
            _ => None,
        };
        cmp(&mut out, "subscription_endpoint", cfg.sub.as_ref(), sub);
        for (prop, names, conf) in [("headers", ("header_name", "header_value"), &cfg.headers), ("wsConnectionParams", ("ws_param_name", "ws_param_value"), &cfg.ws)] {
            let got: Vec<(js::Lit, js::Lit)> = match get(prop) {
                Some(PropVal::Object(e)) => e.clone(),
                _ => Vec::new(),
            };
            if conf.len() == 1 {
                let g = got.first();
                cmp(&mut out, names.0, Some(&conf[0].0), g.map(|x| &x.0));
                // a value that was cut off by a fatal issue at the key is not compared
                if !(fatal_slot.as_deref() == Some(names.0)) {
                    if !(fatal_slot.as_deref() == Some(names.1) && g.map(|x| x.1.items.is_empty() && x.1.end == 0).unwrap_or(true)) {
                        cmp(&mut out, names.1, Some(&conf[0].1), g.map(|x| &x.1));
                    }
                }
                if got.len() > 1 {
                    out.push(Found { class: "unconfigured-value-in-script".into(), slot: names.0.into(), symbol: String::new(), detail: format!("{prop}: one entry configured, the script has {}", got.len()) });
                }
            } else if fatal_slot.is_none() {
                // several (harmless) entries: HashMap order is free, compare as multisets
                let mut a: Vec<(Vec<u16>, Vec<u16>)> = conf.iter().map(|(k, v)| (js::utf16(k), js::utf16(v))).collect();
                let mut b: Vec<(Vec<u16>, Vec<u16>)> = got.iter().map(|(k, v)| (k.value.clone(), v.value.clone())).collect();
                a.sort();
                b.sort();
                if a != b {
                    out.push(Found { class: "wrong-entries-in-script".into(), slot: names.0.into(), symbol: String::new(), detail: format!("{prop}: configured {conf:?}, the script has {} entries that differ", got.len()) });
                }
            }
        }
        if !matches!(get("fetch"), Some(PropVal::Ident(i)) if i == "customFetch") && fatal_slot.is_none() {
            out.push(Found { class: "template-property-lost".into(), slot: hostile.into(), symbol: String::new(), detail: "`fetch: customFetch` is no longer a property of the options".into() });
        }
        // the rest of the script must be the template's static tail
        if issues.iter().all(|i| matches!(i, Issue::MissingComma { .. })) {
            let tail: String = script[f.end..].iter().collect();
            if !tail.trim_start().starts_with("const plugins = [HISTORY_PLUGIN, explorerPlugin()];") || !tail.trim_end().ends_with("root.render(React.createElement(App));") {
                out.push(Found { class: "script-tail-changed".into(), slot: hostile.into(), symbol: String::new(), detail: format!("after the fetcher call the script continues with {:?}", tail.chars().take(40).collect::<String>()) });
            }
        }
    }
    // a syntax error whose cause was already classified at the same slot adds nothing
    let precise: Vec<String> = out.iter().filter(|f| f.class != "js-syntax-error-after-string").map(|f| f.slot.clone()).collect();
    out.retain(|f| f.class != "js-syntax-error-after-string" || !precise.contains(&f.slot));
    Ok(out)
}

fn alphabet() -> Vec<&'static str> {
    vec!["a", "'", "\"", "&", "<", ">", "\\", "/", "\n", "\u{2028}", "</script>", "<!--", "é"]
}

fn strings_upto(n: usize) -> Vec<String> {
    let a = alphabet();
    let mut out = vec![String::new()];
    let mut last = vec![String::new()];
    for _ in 0..n {
        let mut next = Vec::with_capacity(last.len() * a.len());
        for p in &last {
            for s in &a {
                next.push(format!("{p}{s}"));
            }
        }
        out.extend(next.iter().cloned());
        last = next;
    }
    out
}

/// Hand-picked strings outside the alphabet's reach, offered to every slot in both tiers.
fn exemplars() -> Vec<&'static str> {
    vec![
        "<!--<script>", "<!--<script></script>", "--></script>", "<!--<script>--></script>", "</title>", "</title><script>", "</SCRIPT >", "</script ", "<script>",
        "\r", "\r\n", "\u{2029}", "\\'", "\\\\", "\\u0041", "\\x41", "\\u{41}", "\\0", "\\1", "${a}", "`", "'+alert(1)+'", "');alert(1);('", "&#39;", "&amp;", "&lt;/script&gt;",
        "&amp", "&", "\u{0}", "\t", "\u{feff}", "😀", "\u{ffff}", "/graphql?a=1&b=2", "Bearer [token]", "it's", "a\"b",
    ]
}

struct Ctx<'a> {
    cx: &'a Cx,
    /// benign skeletons are memoised by presence signature
    skeletons: std::sync::Mutex<std::collections::HashMap<(bool, bool, usize, usize), std::sync::Arc<Vec<String>>>>,
}

impl Ctx<'_> {
    fn benign_skeleton(&self, cfg: &Cfg) -> Result<std::sync::Arc<Vec<String>>, String> {
        let key = (cfg.sub.is_some(), cfg.title.is_some(), cfg.headers.len(), cfg.ws.len());
        if let Some(s) = self.skeletons.lock().unwrap().get(&key) {
            return Ok(s.clone());
        }
        let page = render(&cfg.benign_twin());
        let chars: Vec<char> = page.chars().collect();
        let sk = std::sync::Arc::new(html::skeleton(&html::tokenize(&chars)?));
        self.skeletons.lock().unwrap().insert(key, sk.clone());
        Ok(sk)
    }

    fn one(&self, cfg: &Cfg, hostile: &str, part: &str) {
        let cx = self.cx;
        cx.eval();
        let case = json!({"part": part, "config": cfg.to_json(), "hostile": hostile});
        let sk = match self.benign_skeleton(cfg) {
            Ok(s) => s,
            Err(e) => {
                cx.machinery_error(format!("benign page does not tokenize: {e}"));
                return;
            }
        };
        let page = match agv_engine::catch_quiet(|| render(cfg)) {
            Ok(p) => p,
            Err(p) => {
                cx.violation(Violation::new("panic", format!("finish() panicked: {p}"), case).key("slot", hostile));
                return;
            }
        };
        match judge(cfg, &page, &sk, hostile) {
            Err(e) => cx.machinery_error(format!("{e}; config {}", cfg.to_json())),
            Ok(found) => {
                for f in found {
                    cx.violation(Violation::new(f.class, format!("{} [config {}]", f.detail, cfg.to_json()), case.clone()).key("slot", f.slot).key("symbol", f.symbol));
                }
            }
        }
    }
}

fn special(s: &str) -> bool {
    s.chars().any(|c| !matches!(c, 'a' | 'é'))
}

pub fn run(cx: &Cx) {
    let thorough = !cx.quick();
    let n1 = if thorough { 4 } else { 3 };
    // pairs of slots: quick (≤1, ≤1) symbols; thorough (≤2, ≤2) ∪ (≤3, ≤1) ∪ (≤1, ≤3) — the full ≤4 × ≤4
    // product is 2·10^10 pages; the cap is reported in `bounds`
    cx.rule(
        "case = (configuration, rendered page). Single slot: every string of ≤ 3 (quick) / ≤ 4 (thorough) symbols over {a ' \" & < > \\ / LF U+2028 </script> <!-- é} \
         in each of endpoint, subscription_endpoint, title, header name, header value, ws_connection_param name and value (other slots absent; the partner of a name/value pair harmless), \
         plus 37 exemplar strings per slot (double-escape openers, </title>, CR, U+2029, JS escapes, entity look-alikes). Pairs of slots: all 21 slot pairs × string pairs of symbol lengths (≤1,≤1) (quick) / (≤2,≤2) ∪ (≤3,≤1) ∪ (≤1,≤3) (thorough). \
         Presence product: subscription/title present or not × 0–2 headers × 0–2 ws params with harmless values. \
         Non-trivial = at least one configured string contains a character other than a/é (distinct by construction within each part).",
    );
    cx.assume("browsers tokenize the page per the WHATWG HTML standard and do not entity-decode script element content; the module script is parsed as ECMAScript 2019+ module code");
    cx.assume("the `version` and `credentials` options are not among the property's configuration slots and keep their defaults");
    cx.assume("only string evaluation and context termination are judged; what GraphiQL does with the values (URL resolution against window.location) is not");

    // self-test of the reference evaluators on hand-written pages (a broken reference must not pass silently)
    {
        let t: Vec<char> = "<title>&#60;a</title><script type=\"module\">const fetcher = createGraphiQLFetcher({ url: createUrl('\\x41\\'') });x</script>".chars().collect();
        let ok = html::tokenize(&t).map(|k| k.len() == 6).unwrap_or(false)
            && matches!(js::string_literal(&"'a\nb'".chars().collect::<Vec<_>>(), 0), Err(e) if e.kind == StrErrKind::LineTerminator)
            && html::script_data_end(&"<!--<script>x</script>y</script>".chars().collect::<Vec<_>>(), 0).map(|x| x.0) == Ok(23);
        if !ok {
            cx.machinery_error("reference tokenizer self-test failed");
            return;
        }
    }

    let ctx = Ctx { cx, skeletons: Default::default() };
    let singles = strings_upto(n1);
    let ex = exemplars();

    // ---- part 1: one slot at a time
    for slot in 0..7 {
        singles.par_iter().with_min_len(64).for_each(|s| {
            let mut c = Cfg::default();
            c.set(slot, s);
            ctx.one(&c, SLOTS[slot], "single");
        });
        cx.nontrivial_count(singles.iter().filter(|s| special(s)).count() as u64);
        for s in &ex {
            let mut c = Cfg::default();
            c.set(slot, s);
            ctx.one(&c, SLOTS[slot], "exemplar");
            cx.nontrivial(agv_engine::h64(&("ex", slot, s)));
        }
    }
    cx.extra("single_slot_strings", json!(singles.len()));
    cx.extra("exemplars_per_slot", json!(ex.len()));

    // ---- part 2: pairs of slots
    // admissible symbol-length pairs: quick (≤1, ≤1); thorough (≤2, ≤2), (≤3, ≤1), (≤1, ≤3)
    let lens_ok = |la: usize, lb: usize| if thorough { (la <= 2 && lb <= 2) || (la <= 3 && lb <= 1) || (la <= 1 && lb <= 3) } else { la <= 1 && lb <= 1 };
    let maxlen = if thorough { 3 } else { 1 };
    let a_n = alphabet().len();
    // strings_upto lists strings in order of symbol length: 1, n, n², …
    let with_len: Vec<(String, usize)> = {
        let all = strings_upto(maxlen);
        let mut out = Vec::with_capacity(all.len());
        let (mut len, mut left) = (0usize, 1usize);
        for s in all {
            if left == 0 {
                len += 1;
                left = a_n.pow(len as u32);
            }
            left -= 1;
            out.push((s, len));
        }
        out
    };
    let mut pairs = Vec::new();
    for a in 0..7 {
        for b in a + 1..7 {
            pairs.push((a, b));
        }
    }
    let np = with_len.len();
    let pair_cases = std::sync::atomic::AtomicU64::new(0);
    let pair_nontrivial = std::sync::atomic::AtomicU64::new(0);
    pairs.par_iter().for_each(|&(a, b)| {
        let hostile = format!("{}+{}", SLOTS[a], SLOTS[b]);
        (0..np).into_par_iter().for_each(|ia| {
            let (sa, la) = &with_len[ia];
            let (mut n, mut nt) = (0u64, 0u64);
            for (sb, lb) in &with_len {
                if !lens_ok(*la, *lb) {
                    continue;
                }
                let mut c = Cfg::default();
                c.set(a, sa);
                c.set(b, sb);
                ctx.one(&c, &hostile, "pair");
                n += 1;
                if special(sa) || special(sb) {
                    nt += 1;
                }
            }
            pair_cases.fetch_add(n, std::sync::atomic::Ordering::Relaxed);
            pair_nontrivial.fetch_add(nt, std::sync::atomic::Ordering::Relaxed);
        });
    });
    cx.nontrivial_count(pair_nontrivial.load(std::sync::atomic::Ordering::Relaxed));
    cx.extra("pair_cases", json!(pair_cases.load(std::sync::atomic::Ordering::Relaxed)));
    cx.extra("slot_pairs", json!(pairs.len()));

    // ---- part 3: presence product with harmless values
    let mut presence = 0u64;
    for sub in [false, true] {
        for title in [false, true] {
            for nh in 0..3usize {
                for nw in 0..3usize {
                    let c = Cfg {
                        endpoint: "/graphql".into(),
                        sub: sub.then(|| "/ws".to_string()),
                        title: title.then(|| "My IDE".to_string()),
                        headers: (0..nh).map(|i| (format!("X-H{i}"), format!("v{i}"))).collect(),
                        ws: (0..nw).map(|i| (format!("p{i}"), format!("w{i}"))).collect(),
                    };
                    ctx.one(&c, "presence", "presence");
                    cx.nontrivial(agv_engine::h64(&("presence", sub, title, nh, nw)));
                    presence += 1;
                }
            }
        }
    }
    cx.extra("presence_combinations", json!(presence));
    cx.extra(
        "bounds",
        json!({"single_slot_max_symbols": n1, "pair_symbol_lengths": if thorough { "(<=2,<=2) | (<=3,<=1) | (<=1,<=3)" } else { "(<=1,<=1)" }, "pairs_cap_note": "the design's ≤4 × ≤4 pair product (2·10^10 pages) is cut to this bound"}),
    );
    cx.exhaustive(true);
    let samples = [(0usize, "a&'"), (2, "<!--</script>"), (4, "\\"), (6, "\n")];
    for (slot, s) in samples {
        let mut c = Cfg::default();
        c.set(slot, s);
        let page = render(&c);
        let line = page.lines().find(|l| l.contains("createUrl('") && slot < 2 || l.contains("<title>") && slot == 2 || l.contains("': '") && slot > 2).unwrap_or("").trim().to_string();
        cx.sample(agv_engine::h64(&("s", slot, s)), json!({"slot": SLOTS[slot], "configured": s, "rendered_line": line}));
    }
}

pub fn replay(case: &J) -> String {
    let cfg = Cfg::from_json(&case["config"]);
    let hostile = case["hostile"].as_str().unwrap_or("?");
    let page = render(&cfg);
    let chars: Vec<char> = render(&cfg.benign_twin()).chars().collect();
    let sk = html::tokenize(&chars).map(|t| html::skeleton(&t)).unwrap_or_default();
    let lines: Vec<&str> = page.lines().filter(|l| l.contains("<title>") || l.contains("createUrl('") || l.contains("': '") || l.contains("headers:") || l.contains("wsConnectionParams:")).collect();
    let verdict = match judge(&cfg, &page, &sk, hostile) {
        Ok(f) if f.is_empty() => "no discrepancy".to_string(),
        Ok(f) => f.iter().map(|x| format!("[{} slot={} symbol={}] {}", x.class, x.slot, x.symbol, x.detail)).collect::<Vec<_>>().join("\n     "),
        Err(e) => format!("reference could not judge: {e}"),
    };
    format!("config {}\n     rendered: {}\n     {}", cfg.to_json(), lines.iter().map(|l| l.trim()).collect::<Vec<_>>().join(" ⏎ "), verdict)
}

fn main() {
    agv_engine::driver::main("C34", "exploration", run, Some(replay))
}
