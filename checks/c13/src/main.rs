//! C13 — the parser accepts exactly GraphQL documents and builds the tree they denote.
//!
//! Seams: `async_graphql_parser::{parse_query, parse_schema}` against the
//! reference parser `agv_refgql::parse` (October 2021 grammar, with the crate's
//! two documented deviations built in).
//!
//! Space (all complete enumerations, nothing sampled):
//!  (a) every token string of length ≤ 5 (quick) / 6 (thorough) over 18
//!      executable tokens and over 20 type-system tokens, single-space
//!      rendering, plus the same strings of length ≤ 4 / 5 rendered with no
//!      separator at all (token boundaries are then the lexer's business);
//!  (b) every character string of length ≤ 5 / 6 over a 13-symbol lexical
//!      alphabet in an argument-value slot and in a list slot, every string of
//!      ≤ 5 / 6 symbols over that alphabet + `"""` + `\"""` inside a block
//!      string, every string ≤ 7 / 9 over {a, space, tab, LF, CR} inside a
//!      block string (indentation algorithm), every `\uXXXX` escape, and a
//!      menu of number and string literals;
//!  (c) the exemplar documents × every single-token deletion, duplication and
//!      substitution, and every ignored token inserted at / replacing every
//!      token boundary;
//!  (d) selection-set nesting at the documented limit (64 ± 2 levels).
//! Oracle: accept/reject agree; on accept both trees are equal in the
//! canonical form of `canon.rs`; ignored tokens never change the tree.

mod canon;
mod exemplars;

use agv_engine::record::{Cx, Violation};
use agv_refgql::lex::{self, Tok};
use agv_refgql::parse::{self as rp, Trace};
use async_graphql_parser::{parse_query, parse_schema, Error as CErr};
use rayon::prelude::*;
use serde_json::{json, Value as J};
use std::sync::atomic::{AtomicU64, Ordering};

#[derive(Clone, Copy, PartialEq, Eq, Debug)]
enum Doc {
    Exec,
    Ts,
}
impl Doc {
    fn name(self) -> &'static str {
        match self {
            Doc::Exec => "executable",
            Doc::Ts => "type-system",
        }
    }
}

const EXEC_TOKENS: [&str; 18] = ["{", "}", "(", ")", "[", "]", ":", "!", "=", "$", "@", "...", "a", "on", "query", "fragment", "1", "\"s\""];
const TS_TOKENS: [&str; 20] =
    ["type", "interface", "union", "enum", "scalar", "directive", "schema", "extend", "implements", "{", "}", "=", "|", "&", "@", "a", "\"s\"", "on", "QUERY", ":"];
const LEX_ALPHABET: [&str; 13] = ["\"", "\\", "u", "0", "a", "1", "-", ".", "e", "\n", " ", "#", ","];
const BLOCK_ALPHABET: [&str; 15] = ["\"", "\\", "u", "0", "a", "1", "-", ".", "e", "\n", " ", "#", ",", "\"\"\"", "\\\"\"\""];
const INDENT_ALPHABET: [&str; 5] = ["a", " ", "\t", "\n", "\r"];
/// (label, text) — every Ignored token of §2.1.7 and each line terminator.
const IGNORED: [(&str, &str); 8] =
    [("space", " "), ("tab", "\t"), ("comma", ","), ("comment", "#c\n"), ("bom", "\u{feff}"), ("lf", "\n"), ("crlf", "\r\n"), ("cr", "\r")];

// ------------------------------------------------------------------ observing both parsers

enum CrateOut {
    Accept(J),
    Reject { variant: &'static str, line: usize, col: usize },
    Panic(String),
}

fn crate_parse(doc: Doc, src: &str) -> CrateOut {
    let r = agv_engine::catch_quiet(|| match doc {
        Doc::Exec => parse_query(src).map(|d| canon::crate_exec(&d)),
        Doc::Ts => parse_schema(src).map(|d| canon::crate_ts(&d)),
    });
    match r {
        Err(p) => CrateOut::Panic(p),
        Ok(Ok(j)) => CrateOut::Accept(j),
        Ok(Err(e)) => {
            let variant = match &e {
                CErr::Syntax { .. } => "Syntax",
                CErr::MultipleRoots { .. } => "MultipleRoots",
                CErr::MissingQueryRoot { .. } => "MissingQueryRoot",
                CErr::MultipleOperations { .. } => "MultipleOperations",
                CErr::OperationDuplicated { .. } => "OperationDuplicated",
                CErr::FragmentDuplicated { .. } => "FragmentDuplicated",
                CErr::MissingOperation => "MissingOperation",
                CErr::RecursionLimitExceeded => "RecursionLimitExceeded",
                _ => "other",
            };
            let p = e.positions().next();
            CrateOut::Reject { variant, line: p.map(|p| p.line).unwrap_or(0), col: p.map(|p| p.column).unwrap_or(0) }
        }
    }
}

enum RefOut {
    Accept(J),
    /// grammar (or lexical) error
    Syntax,
    /// grammatical, but breaks a validation rule that the crate's parse functions enforce
    Rule(&'static str),
}

fn ref_parse(doc: Doc, src: &str) -> RefOut {
    match doc {
        Doc::Exec => match rp::parse_exec(src) {
            Err(_) => RefOut::Syntax,
            Ok(d) => match canon::ref_exec(&d) {
                Ok(j) => RefOut::Accept(j),
                Err(r) => RefOut::Rule(r),
            },
        },
        Doc::Ts => match rp::parse_ts(src) {
            Err(_) => RefOut::Syntax,
            Ok(d) => match canon::ref_ts(&d) {
                Ok(j) => RefOut::Accept(j),
                Err(r) => RefOut::Rule(r),
            },
        },
    }
}

fn ref_trace(doc: Doc, src: &str) -> (Option<rp::ParseError>, Trace) {
    match doc {
        Doc::Exec => {
            let (r, t) = rp::parse_exec_traced(src);
            (r.err(), t)
        }
        Doc::Ts => {
            let (r, t) = rp::parse_ts_traced(src);
            (r.err(), t)
        }
    }
}

// ------------------------------------------------------------------ classification of a discrepancy

fn tok_label(t: &Tok) -> String {
    const WORDS: [&str; 20] = [
        "query", "mutation", "subscription", "fragment", "on", "true", "false", "null", "type", "interface", "union", "enum", "input", "scalar", "directive", "schema", "extend",
        "implements", "repeatable", "QUERY",
    ];
    match t {
        Tok::Punct(p) => p.to_string(),
        Tok::Name(n) => {
            if WORDS.contains(&n.as_str()) {
                n.clone()
            } else {
                "Name".into()
            }
        }
        Tok::Int(_) => "Int".into(),
        Tok::Float(_) => "Float".into(),
        Tok::Str(_) => "String".into(),
        Tok::BlockStr(_) => "BlockString".into(),
        Tok::Eof => "EOF".into(),
    }
}

/// Char offset whose line/column under pest's own convention (`Position::line_col`: LF and CRLF end a
/// line, a lone CR is an ordinary column) equals (line, col).
fn pest_offset(src: &str, line: usize, col: usize) -> Option<usize> {
    pest_offset_inner(src, line, col).or_else(|| {
        // a tree in which syntax errors follow the three-terminator rule (notes/fixes/C14-syntax-error-position.patch)
        let n = src.chars().count();
        (0..=n).find(|o| {
            let p = lex::pos_of(src, *o);
            (p.line as usize, p.col as usize) == (line, col)
        })
    })
}

fn pest_offset_inner(src: &str, line: usize, col: usize) -> Option<usize> {
    let cs: Vec<char> = src.chars().collect();
    let (mut l, mut c) = (1usize, 1usize);
    let mut i = 0;
    loop {
        if (l, c) == (line, col) {
            return Some(i);
        }
        if i >= cs.len() {
            return None;
        }
        match cs[i] {
            '\r' if cs.get(i + 1) == Some(&'\n') => {
                i += 1;
                l += 1;
                c = 1;
            }
            '\n' => {
                l += 1;
                c = 1;
            }
            _ => c += 1,
        }
        i += 1;
    }
}

const KEYWORDS: [&str; 19] = [
    "query", "mutation", "subscription", "fragment", "on", "true", "false", "null", "type", "interface", "union", "enum", "input", "scalar", "directive", "schema", "extend", "implements",
    "repeatable",
];

fn ref_err(doc: Doc, src: &str) -> Option<rp::ParseError> {
    match doc {
        Doc::Exec => rp::parse_exec(src).err(),
        Doc::Ts => rp::parse_ts(src).err(),
    }
}

/// Which token boundaries did the crate see that the lexical grammar does not have? Repairs the document
/// for the reference by inserting a space where it fails (inside the failing token, or at the character a
/// lexical look-ahead restriction refuses), as long as that moves the failure forward, at most 6 times.
/// Returns (detail, kind): detail = "<left>|<right>" of the first boundary, `~` appended when the repaired
/// document is grammatical but its tree is not the crate's (another defect overlaps), "none" when the
/// document cannot be repaired this way; kind = keyword | number | string | mixed | none, by the tokens
/// to the left of the invented boundaries.
fn split_diagnosis(doc: Doc, src: &str, crate_tree: &J) -> (String, String, Option<String>) {
    let mut cur: Vec<char> = src.chars().collect();
    let mut lefts: Vec<String> = Vec::new();
    let mut first = String::new();
    for _ in 0..6 {
        let text: String = cur.iter().collect();
        let Some(err) = ref_err(doc, &text) else { break };
        let mut cands = vec![err.off];
        if let Ok(toks) = lex::tokenize_spans(&text) {
            if let Some((t, end)) = toks.iter().find(|(t, e)| t.off <= err.off && err.off < *e) {
                cands.extend(t.off + 1..*end);
            }
        }
        let mut progressed = false;
        for k in cands {
            if k == 0 || k >= cur.len() {
                continue;
            }
            let mut next = cur.clone();
            next.insert(k, ' ');
            let s2: String = next.iter().collect();
            let ok = match ref_err(doc, &s2) {
                None => true,
                Some(e2) => e2.off > err.off + 1,
            };
            if ok {
                let prefix: String = next[..k].iter().collect();
                let left = lex::tokenize(&prefix).ok().and_then(|ts| ts.into_iter().rev().find(|t| t.t != Tok::Eof).map(|t| tok_label(&t.t))).unwrap_or_else(|| "?".into());
                // the crate's `name` rule is greedy: it never ends a plain name early, only literals (keywords,
                // numbers, strings) can be followed by an invented boundary
                if !(KEYWORDS.contains(&left.as_str()) || matches!(left.as_str(), "Int" | "Float" | "String" | "BlockString")) {
                    continue;
                }
                if first.is_empty() {
                    let right = lex::tokenize_spans(&s2).ok().and_then(|ts| ts.into_iter().find(|(t, _)| t.off > k).map(|(t, _)| tok_label(&t.t))).unwrap_or_else(|| "?".into());
                    first = format!("{left}|{right}");
                }
                lefts.push(left);
                cur = next;
                progressed = true;
                break;
            }
        }
        if !progressed {
            break;
        }
    }
    let text: String = cur.iter().collect();
    if lefts.is_empty() {
        return ("none".into(), "none".into(), None);
    }
    let kind = if lefts.iter().all(|l| KEYWORDS.contains(&l.as_str())) {
        "keyword"
    } else if lefts.iter().all(|l| l == "Int" || l == "Float") {
        "number"
    } else if lefts.iter().all(|l| l == "String" || l == "BlockString") {
        "string"
    } else {
        "mixed"
    };
    if ref_err(doc, &text).is_some() {
        // the invented boundaries explain only part of it: the caller classifies what is left
        return (format!("{first}+"), format!("{kind}+residual"), Some(text));
    }
    let exact = match ref_parse(doc, &text) {
        RefOut::Accept(j) => {
            let mut tol = 0;
            canon::first_diff(&j, crate_tree, "", &mut tol).is_none()
        }
        _ => false,
    };
    (if exact { first } else { format!("{first}~") }, kind.to_string(), None)
}

/// Innermost production on the reference's stack that is a definition-level construct.
fn within(stack: &[&'static str]) -> &'static str {
    const LEVELS: [&str; 30] = [
        "VariableDefinition", "FieldDefinition", "InputValueDefinition", "EnumValueDefinition", "Field", "FragmentSpread", "InlineFragment", "FragmentSpreadOrInlineFragment",
        "FragmentDefinition", "OperationDefinition", "SchemaDefinition", "SchemaExtension", "ScalarTypeDefinition", "ScalarTypeExtension", "ObjectTypeDefinition", "ObjectTypeExtension",
        "InterfaceTypeDefinition", "InterfaceTypeExtension", "UnionTypeDefinition", "UnionTypeExtension", "EnumTypeDefinition", "EnumTypeExtension", "InputObjectTypeDefinition",
        "InputObjectTypeExtension", "DirectiveDefinition", "RootOperationTypeDefinition", "ExecutableDefinition", "TypeSystemDefinition", "Extension", "Document",
    ];
    stack.iter().rev().find(|p| LEVELS.contains(p)).copied().unwrap_or("Document")
}

/// The crate's `block_string_value` as it would be with/without two suspected slips; used only to
/// name a string discrepancy.
fn block_variants(raw: &str) -> Vec<(&'static str, String)> {
    fn value(raw: &str, unescape: bool, strip_short_blank: bool) -> String {
        let raw = if unescape { raw.replace("\\\"\"\"", "\"\"\"") } else { raw.to_string() };
        let mut lines: Vec<String> = Vec::new();
        let mut cur = String::new();
        let cs: Vec<char> = raw.chars().collect();
        let mut i = 0;
        while i < cs.len() {
            match cs[i] {
                '\n' => lines.push(std::mem::take(&mut cur)),
                '\r' => {
                    if cs.get(i + 1) == Some(&'\n') {
                        i += 1;
                    }
                    lines.push(std::mem::take(&mut cur));
                }
                c => cur.push(c),
            }
            i += 1;
        }
        lines.push(cur);
        let ws = |c: char| c == ' ' || c == '\t';
        let common = lines.iter().skip(1).filter(|l| !l.chars().all(ws)).map(|l| l.chars().take_while(|c| ws(*c)).count()).min();
        if let Some(c) = common {
            for l in lines.iter_mut().skip(1) {
                let n = l.chars().count();
                if n >= c {
                    *l = l.chars().skip(c).collect();
                } else if strip_short_blank {
                    l.clear();
                }
            }
        }
        while lines.first().map(|l| l.chars().all(ws)).unwrap_or(false) {
            lines.remove(0);
        }
        while lines.last().map(|l| l.chars().all(ws)).unwrap_or(false) {
            lines.pop();
        }
        lines.join("\n")
    }
    vec![
        ("spec", value(raw, true, true)),
        ("escaped-triple-quote-kept", value(raw, false, true)),
        ("short-blank-line-keeps-its-whitespace", value(raw, true, false)),
        ("escaped-triple-quote-kept+short-blank-line-keeps-its-whitespace", value(raw, false, false)),
    ]
}

/// Raw contents of every block string token of `src`.
fn block_raws(src: &str) -> Vec<String> {
    let cs: Vec<char> = src.chars().collect();
    let mut out = Vec::new();
    if let Ok(toks) = lex::tokenize_spans(src) {
        for (t, end) in toks {
            if let Tok::BlockStr(_) = t.t {
                if end >= t.off + 6 {
                    out.push(cs[t.off + 3..end - 3].iter().collect());
                }
            }
        }
    }
    out
}

fn tree_diagnosis(src: &str, d: &canon::Diff) -> String {
    if let (Some(e), Some(g)) = (d.expected.as_str(), d.got.as_str()) {
        if d.path.ends_with(".str") || d.path.ends_with(".desc") {
            for raw in block_raws(src) {
                let vs = block_variants(&raw);
                if vs[0].1 == e {
                    for (name, v) in &vs[1..] {
                        if v == g {
                            return format!("block-string:{name}");
                        }
                    }
                }
            }
            return "string-value".into();
        }
    }
    if d.got.get("spread").and_then(|s| s.get("name")).and_then(|n| n.as_str()) == Some("on") && d.expected.get("inline").is_some() {
        return "inline-fragment-read-as-spread-named-on".into();
    }
    if let Some(e) = d.expected.get("enum").and_then(|e| e.as_str()) {
        let literal = d.got.get("bool").is_some() || d.got.as_str() == Some("null");
        if literal && ["true", "false", "null"].iter().any(|w| e.starts_with(w) && e != *w) {
            return "name-prefixed-by-true-false-null".into();
        }
    }
    if let (Some(i), Some(_)) = (d.expected.get("i").and_then(|i| i.as_str()), d.got.get("f")) {
        return if i == "0" { "int-token-as-float:negative-zero".into() } else { "int-token-as-float".into() };
    }
    if d.path.ends_with(".num.f") {
        return "float-value".into();
    }
    "structure".into()
}

/// Histogram of discrepancies by class and structural keys (written to the evidence; known or not).
static HISTOGRAM: std::sync::Mutex<std::collections::BTreeMap<String, (u64, String)>> = std::sync::Mutex::new(std::collections::BTreeMap::new());

fn report(cx: &Cx, v: Violation) {
    let keys: Vec<String> = v.keys.iter().filter(|(k, _)| !matches!(k.as_str(), "part" | "exemplar" | "edit" | "menu_item" | "levels" | "via" | "split" | "found")).map(|(k, x)| format!("{k}={x}")).collect();
    let id = format!("{} {}", v.class, keys.join(" "));
    {
        let mut h = HISTOGRAM.lock().unwrap();
        let e = h.entry(id).or_insert((0, v.case["src"].as_str().unwrap_or("").to_string()));
        e.0 += 1;
        let src = v.case["src"].as_str().unwrap_or("");
        if src.len() < e.1.len() {
            e.1 = src.to_string();
        }
    }
    cx.violation(v);
}

struct Stats {
    evals: AtomicU64,
    both_accept: AtomicU64,
    both_reject: AtomicU64,
    rule_reject: AtomicU64,
    float_tolerated: AtomicU64,
}
impl Stats {
    fn new() -> Stats {
        Stats { evals: AtomicU64::new(0), both_accept: AtomicU64::new(0), both_reject: AtomicU64::new(0), rule_reject: AtomicU64::new(0), float_tolerated: AtomicU64::new(0) }
    }
    fn json(&self) -> J {
        json!({
            "evaluations": self.evals.load(Ordering::Relaxed),
            "both_accept_equal_trees": self.both_accept.load(Ordering::Relaxed),
            "both_reject": self.both_reject.load(Ordering::Relaxed),
            "rejected_by_a_folded_in_validation_rule": self.rule_reject.load(Ordering::Relaxed),
        })
    }
}

/// Judge one document. Returns the crate's tree when both accept with equal trees.
fn judge(cx: &Cx, st: &Stats, doc: Doc, src: &str, part: &str, extra: &[(&str, String)]) -> Option<J> {
    st.evals.fetch_add(1, Ordering::Relaxed);
    let c = crate_parse(doc, src);
    let r = ref_parse(doc, src);
    let case = || json!({ "doc": doc.name(), "src": src, "part": part });
    let with_extra = |mut v: Violation| {
        for (k, val) in extra {
            v = v.key(k, val.clone());
        }
        v.key("doc", doc.name()).key("part", part)
    };
    match (c, r) {
        (CrateOut::Panic(p), _) => {
            report(cx, with_extra(Violation::new("panic", format!("{} parser panicked on {src:?}: {p}", doc.name()), case())));
            None
        }
        (CrateOut::Accept(cj), RefOut::Accept(rj)) => {
            let mut tol = 0;
            match canon::first_diff(&rj, &cj, "", &mut tol) {
                None => {
                    st.both_accept.fetch_add(1, Ordering::Relaxed);
                    if tol > 0 {
                        st.float_tolerated.fetch_add(tol, Ordering::Relaxed);
                    }
                    Some(cj)
                }
                Some(d) => {
                    let diag = tree_diagnosis(src, &d);
                    let path: String = d.path.trim_start_matches('.').to_string();
                    report(cx, with_extra(
                        Violation::new(
                            "wrong-tree",
                            format!("{} document {src:?}: both parsers accept but the trees differ at `{path}`: the grammar denotes {}, the crate built {} [{diag}]", doc.name(), d.expected, d.got),
                            case(),
                        )
                        .key("path", path.clone())
                        .key("diagnosis", diag),
                    ));
                    None
                }
            }
        }
        (CrateOut::Reject { .. }, RefOut::Syntax) => {
            st.both_reject.fetch_add(1, Ordering::Relaxed);
            None
        }
        (CrateOut::Reject { variant, .. }, RefOut::Rule(rule)) => {
            // both refuse; the crate may do so either as a syntax error (when the document is also outside its
            // grammar) or through the folded-in rule — which of the two is not judged
            let _ = (variant, rule);
            st.both_reject.fetch_add(1, Ordering::Relaxed);
            st.rule_reject.fetch_add(1, Ordering::Relaxed);
            None
        }
        (CrateOut::Accept(cj), RefOut::Rule(rule)) => {
            report(cx, with_extra(
                Violation::new("accepts-invalid", format!("{} document {src:?} accepted although it breaks the rule `{rule}` that the parse function enforces", doc.name()), case())
                    .key("production", "Document")
                    .key("reason", format!("rule:{rule}"))
                    .key("split", "none"),
            ));
            let _ = cj;
            None
        }
        (CrateOut::Accept(cj), RefOut::Syntax) => {
            let (split, split_kind, repaired) = split_diagnosis(doc, src, &cj);
            // two slips in one document (`querya{...on}`): the boundaries the crate invented are taken out first,
            // the production / reason keys then describe what is left
            let basis: &str = repaired.as_deref().unwrap_or(src);
            let (err, tr) = ref_trace(doc, basis);
            let err = err.expect("reference rejected");
            let (reason, found) = match err.msg.split_once(", found ") {
                Some((a, _)) => (a.to_string(), lex::tokenize(basis).ok().and_then(|ts| ts.into_iter().find(|t| t.off == err.off).map(|t| tok_label(&t.t))).unwrap_or_else(|| "?".into())),
                None => (err.msg.clone(), "lexical".to_string()),
            };
            let n = tr.failed_in.len();
            let production = if n >= 2 { format!("{}>{}", tr.failed_in[n - 2], tr.failed_in[n - 1]) } else { tr.failed_in.last().copied().unwrap_or("Document").to_string() };
            let inside = within(&tr.failed_in);
            report(cx, with_extra(
                Violation::new(
                    "accepts-invalid",
                    format!("{} document {src:?} is not in the grammar (reference{}: {} at {}:{}, in {production}) but the crate accepts it as {cj} [token boundary the crate invents: {split}]", doc.name(), if repaired.is_some() { format!(", after separating the glued tokens into {basis:?}") } else { String::new() }, err.msg, err.pos.line, err.pos.col),
                    case(),
                )
                .key("production", production)
                .key("reason", reason)
                .key("found", found)
                .key("within", inside)
                .key("split", split)
                .key("split_kind", split_kind),
            ));
            None
        }
        (CrateOut::Reject { variant, line, col }, RefOut::Accept(_)) => {
            let (_, tr) = ref_trace(doc, src);
            let cs: Vec<char> = src.chars().collect();
            let (mut production, mut after, mut at, mut literal) = ("-".to_string(), "-".to_string(), "-".to_string(), "-".to_string());
            if variant == "Syntax" {
                if let Some(off) = pest_offset(src, line, col) {
                    // the token the error points into or at, and the one before it
                    let idx = tr.tokens.iter().position(|u| u.end > off);
                    let u = idx.map(|i| &tr.tokens[i]);
                    production = u.map(|u| format!("{}>{}", u.outer, u.prod)).unwrap_or_else(|| "Document".into());
                    let prev = match idx {
                        Some(0) => None,
                        Some(i) => Some(&tr.tokens[i - 1]),
                        None => tr.tokens.last(),
                    };
                    after = prev.map(|u| format!("{}>{}", u.outer, u.prod)).unwrap_or_else(|| "Document".into());
                    if let Ok(ts) = lex::tokenize_spans(src) {
                        if let Some((t, e)) = ts.into_iter().find(|(t, e)| *e > off || t.t == Tok::Eof) {
                            at = tok_label(&t.t);
                            let text: String = cs[t.off..e].iter().collect();
                            literal = match &t.t {
                                Tok::Float(_) | Tok::Int(_) => {
                                    if text.parse::<f64>().map(|f| f.is_infinite()).unwrap_or(false) {
                                        "number-beyond-f64".into()
                                    } else {
                                        "number-within-f64".into()
                                    }
                                }
                                Tok::Name(n) if ["true", "false", "null"].iter().any(|w| n.starts_with(w) && n != w) => "name-prefixed-by-true-false-null".into(),
                                _ => "-".into(),
                            };
                        }
                    }
                } else {
                    production = "?".into();
                }
            }
            report(cx, with_extra(
                Violation::new(
                    "rejects-valid",
                    format!("{} document {src:?} is in the grammar but the crate rejects it ({variant} at {line}:{col}, i.e. at a `{at}` token inside {production}, after {after})", doc.name()),
                    case(),
                )
                .key("production", production)
                .key("after", after)
                .key("error", variant)
                .key("at", at)
                .key("literal", literal),
            ));
            None
        }
    }
}

// ------------------------------------------------------------------ enumerations

/// All strings of exactly `len` symbols over `alphabet`, joined by `sep`, wrapped in `pre`/`post`.
fn sweep(cx: &Cx, st: &Stats, doc: Doc, part: &str, alphabet: &[&str], len: u32, sep: &str, pre: &str, post: &str) {
    let n = alphabet.len() as u64;
    let total = n.pow(len);
    let accepted = AtomicU64::new(0);
    agv_engine::par_range(total, 4096, &|mut i| {
        let mut s = String::with_capacity(pre.len() + post.len() + 8 * len as usize);
        s.push_str(pre);
        for k in 0..len {
            if k > 0 {
                s.push_str(sep);
            }
            s.push_str(alphabet[(i % n) as usize]);
            i /= n;
        }
        s.push_str(post);
        if let Some(tree) = judge(cx, st, doc, &s, part, &[]) {
            accepted.fetch_add(1, Ordering::Relaxed);
            let h = agv_engine::hstr(&s);
            cx.sample_with(h, || json!({ "part": part, "doc": doc.name(), "src": s, "tree": tree }));
        }
    });
    cx.evals(total);
    cx.nontrivial_count(accepted.load(Ordering::Relaxed));
}

struct Exemplar {
    id: &'static str,
    doc: Doc,
    /// (separator before the token, token text)
    toks: Vec<(String, String)>,
    tail: String,
}

fn exemplar(cx: &Cx, doc: Doc, id: &'static str, src: &'static str) -> Option<Exemplar> {
    let cs: Vec<char> = src.chars().collect();
    let spans = match lex::tokenize_spans(src) {
        Ok(s) => s,
        Err(e) => {
            cx.machinery_error(format!("exemplar {id} does not lex: {e:?}"));
            return None;
        }
    };
    if !matches!(ref_parse(doc, src), RefOut::Accept(_)) {
        cx.machinery_error(format!("exemplar {id} is not accepted by the reference parser"));
        return None;
    }
    let mut toks = Vec::new();
    let mut prev = 0;
    let mut tail = String::new();
    for (t, end) in spans {
        let sep: String = cs[prev..t.off].iter().collect();
        if t.t == Tok::Eof {
            tail = sep;
        } else {
            toks.push((sep, cs[t.off..end].iter().collect()));
            prev = end;
        }
    }
    Some(Exemplar { id, doc, toks, tail })
}

/// Render with the original separators, except that `forced` boundaries (index = token that follows;
/// `toks.len()` = end of input) get the given separator.
fn render(toks: &[(String, String)], tail: &str, forced: &[(usize, &str)]) -> String {
    let mut s = String::new();
    for (i, (sep, t)) in toks.iter().enumerate() {
        match forced.iter().find(|(k, _)| *k == i) {
            Some((_, f)) => s.push_str(f),
            None => s.push_str(sep),
        }
        s.push_str(t);
    }
    match forced.iter().find(|(k, _)| *k == toks.len()) {
        Some((_, f)) => s.push_str(f),
        None => s.push_str(tail),
    }
    s
}

fn exemplar_edits(cx: &Cx, st: &Stats, ex: &Exemplar) {
    let subst: &[&str] = match ex.doc {
        Doc::Exec => &EXEC_TOKENS,
        Doc::Ts => &TS_TOKENS,
    };
    let part = "c-exemplar-edits";
    let idk = ("exemplar", ex.id.to_string());
    let base_src = render(&ex.toks, &ex.tail, &[]);
    let base = judge(cx, st, ex.doc, &base_src, part, &[idk.clone(), ("edit", "none".into())]);
    if base.is_some() {
        cx.nontrivial(agv_engine::hstr(&base_src));
    }
    let n = ex.toks.len();
    let mut cases: Vec<(String, String)> = Vec::new(); // (edit label, source)
    let sp = |t: &str| (" ".to_string(), t.to_string());
    for i in 0..n {
        // deletion: neighbours stay separated
        let mut v = ex.toks.clone();
        v.remove(i);
        if i < v.len() && v[i].0.is_empty() {
            v[i].0 = " ".into();
        }
        cases.push(("delete".into(), render(&v, &ex.tail, &[])));
        // duplication
        let mut v = ex.toks.clone();
        v.insert(i + 1, sp(&ex.toks[i].1));
        if i + 2 < v.len() && v[i + 2].0.is_empty() {
            v[i + 2].0 = " ".into();
        }
        cases.push(("duplicate".into(), render(&v, &ex.tail, &[])));
        // substitution
        for s in subst {
            if *s == ex.toks[i].1 {
                continue;
            }
            let mut v = ex.toks.clone();
            v[i] = (if i == 0 { v[i].0.clone() } else { " ".into() }, s.to_string());
            if i + 1 < v.len() && v[i + 1].0.is_empty() {
                v[i + 1].0 = " ".into();
            }
            cases.push((format!("substitute:{s}"), render(&v, &ex.tail, &[])));
        }
    }
    cases.par_iter().for_each(|(label, src)| {
        if judge(cx, st, ex.doc, src, part, &[idk.clone(), ("edit", label.clone())]).is_some() {
            cx.nontrivial(agv_engine::hstr(src));
        }
    });
    cx.evals(cases.len() as u64 + 1);

    // ignored tokens: inserted next to the existing separator, and replacing it
    let mut ins: Vec<(String, String)> = Vec::new();
    for b in 0..=n {
        let orig = if b < n { ex.toks[b].0.as_str() } else { ex.tail.as_str() };
        for (name, text) in IGNORED {
            ins.push((format!("insert-ignored:{name}"), render(&ex.toks, &ex.tail, &[(b, &format!("{orig}{text}{orig}"))])));
            // replacing: only where the two neighbours would still be two tokens (a separator is required between
            // two names / numbers); a comment always ends with its line terminator
            if b > 0 && b < n {
                ins.push((format!("separator-is:{name}"), render(&ex.toks, &ex.tail, &[(b, text)])));
            }
        }
    }
    ins.par_iter().for_each(|(label, src)| {
        let got = judge(cx, st, ex.doc, src, part, &[idk.clone(), ("edit", label.clone())]);
        if let (Some(b), Some(g)) = (&base, &got) {
            cx.nontrivial(agv_engine::hstr(src));
            if b != g {
                report(
                    cx,
                    Violation::new(
                        "ignored-token-changes-tree",
                        format!("{} exemplar {}: {label} turned the tree {b} into {g} (source {src:?})", ex.doc.name(), ex.id),
                        json!({ "doc": ex.doc.name(), "src": src, "part": part }),
                    )
                    .key("doc", ex.doc.name())
                    .key("edit", label.clone())
                    .key("exemplar", ex.id),
                );
            }
        }
    });
    cx.evals(ins.len() as u64);
}

const NUMBER_MENU: &[&str] = &[
    "0", "-0", "1", "-1", "00", "01", "-01", "007", "10", "2147483647", "2147483648", "-2147483648", "-2147483649", "9007199254740993", "9223372036854775807", "9223372036854775808",
    "-9223372036854775808", "-9223372036854775809", "18446744073709551615", "18446744073709551616", "123456789012345678901234567890", "-123456789012345678901234567890", "1.0", "-1.0",
    "0.0", "-0.0", "1e0", "1E0", "1e+1", "1E-1", "1.5e10", "1.5E+10", "1e22", "1e23", "1e308", "1.7976931348623157e308", "1.7976931348623159e308", "1e309", "1e400", "-1e400",
    "1e-400", "5e-324", "2e-324", "4.9e-324", "0.1", "0.30000000000000004", "123456789.123456789", "1.", "1.e1", ".5", "1e", "1e+", "1.0e1.0", "0x1", "1_000", "+1", "--1", "1-1",
    "1e1e1", "123abc", "1a", "1.0a", "1e1a", "1.0e1a", "1..2", "1...a", "- 1", "1 .5", "1e 5", "0e0", "00.5", "-", "-a", "1.5.5", "0.0.0", "1e5.5",
];

const STRING_MENU: &[&str] = &[
    r#""""#, r#""a""#, r#""\"""#, r#""\\""#, r#""\/""#, r#""\b""#, r#""\f""#, r#""\n""#, r#""\r""#, r#""\t""#, r#""\a""#, r#""\u""#, r#""\u12""#, r#""\u123""#, r#""\u123g""#,
    r#""\u{1F600}""#, r#""\U0041""#, r#""\x41""#, r#""\'""#, r#""\0""#, r#""\uD83D\uDE00""#, r#""\ud83d\ude00""#, "\"é\"", "\"😀\"", "\"\u{feff}\"", "\"\t\"", "\"a\nb\"", "\"a\rb\"",
    "\"a\u{2028}b\"", r#""a"#, r#"""""#, r#""""""#, r#"""""""#, r#""""""""#, r#""""a""""#, r#""""a"""""#, r#"""""a""""#, "\"\"\"\\\"\"\"\"\"\"", "\"\"\"\\\\\"\"\"\"", "\"\"\"\\n\"\"\"",
    "\"\"\"\\u0041\"\"\"", "\"\"\"é😀\"\"\"", "\"\"\"a\n  b\n \n  c\"\"\"", "\"\"\"\n\ta\n\t b\n\"\"\"", "\"\"\"\r\n a\r b\r\n\"\"\"", "\"\"\"  a\n b\"\"\"", "\"\"\"a\n\n\nb\"\"\"",
    "\"\"\"\n\n a \n\n\"\"\"", "\"\"\" \"\" \"\"\"", "\"\"\"\"a\"\"\"", "\"\"\"a\\\"\"\"",
];

/// Names that start with a literal word, literal words glued to other tokens.
const WORD_MENU: &[&str] = &[
    "true", "false", "null", "truea", "falsea", "nulla", "trueish", "nullable", "falsey", "true1", "null_", "TRUE", "True", "on", "query", "a", "_", "_1", "A_b9", "true false", "truefalse",
    "nullnull", "true,false", "$true", "$null", "$on", "$ a", "$", "$1", "E", "truE",
];

/// Small documents that show each grammar slip found so far (valid and invalid ones), so that every tier
/// re-examines every known class whatever the sweep bounds are. (doc, source)
const SLIP_MENU: &[(Doc, &str)] = &[
    (Doc::Exec, "query(){a}"),
    (Doc::Exec, "query Q ( ) { a }"),
    (Doc::Exec, "query ($a: [ Int ]) { a }"),
    (Doc::Exec, "query ($a: Int !) { a }"),
    (Doc::Exec, "query ($a: [Int] !) { a }"),
    (Doc::Exec, "query ($a: [Int ! ] = [1]) { a }"),
    (Doc::Exec, "query ($a: Int = 1 @d) { a }"),
    (Doc::Exec, "query ($a: Int @d = 1) { a }"),
    (Doc::Exec, "query ($a: Int @d) { a }"),
    (Doc::Exec, "query ($a: Int @d(x: $b)) { a }"),
    (Doc::Exec, "query ($a: Int = $b) { a }"),
    (Doc::Exec, "{ f(a: [01]) }"),
    (Doc::Exec, "{ f(a: 01) }"),
    (Doc::Exec, "{ f(a: trueish) }"),
    (Doc::Exec, "{ f(a: [trueish]) }"),
    (Doc::Exec, "{ f(a: nullable) }"),
    (Doc::Exec, "{ f(a: {b: falsey}) }"),
    (Doc::Exec, "fragment on on Q { a } { ...on }"),
    (Doc::Exec, "fragment on on Q { a } { a }"),
    (Doc::Exec, "{ ...on }"),
    (Doc::Exec, "{ ... on }"),
    (Doc::Exec, "{ ... on T }"),
    (Doc::Exec, "{ ...on T { a } }"),
    (Doc::Exec, "{ ... on#c\nT { a } }"),
    (Doc::Exec, "{ ... on #c\n T { a } }"),
    (Doc::Exec, "{ ... on,T { a } }"),
    (Doc::Exec, "fragment F on#c\nT { a } { a }"),
    (Doc::Exec, "{ f(a: \"\"\"a\\\"\"\"b\"\"\") }"),
    (Doc::Exec, "{ f(a: \"\"\"a\n \n  b\"\"\") }"),
    (Doc::Exec, "{ f(a: [\"\"\"\"]) }"),
    (Doc::Exec, "{ f(a: -0) }"),
    (Doc::Exec, "{ f(a: 1e309) }"),
    (Doc::Exec, "querya{a}"),
    (Doc::Exec, "queryA($a:Int){a}"),
    (Doc::Exec, "mutationa{a}"),
    (Doc::Exec, "subscriptiona{a}"),
    (Doc::Exec, "fragmenta on T{a}{a}"),
    (Doc::Exec, "{a}fragment a onT{a}"),
    (Doc::Exec, "{ a } { b }"),
    (Doc::Exec, "query A { a } query A { b }"),
    (Doc::Exec, "{ ...F } fragment F on T { a } fragment F on T { b }"),
    (Doc::Exec, "fragment F on T { a }"),
    (Doc::Exec, ""),
    (Doc::Exec, " "),
    (Doc::Exec, "\u{feff}{ a }"),
    (Doc::Exec, "{ a }\u{feff}"),
    (Doc::Exec, "{ a(b: {c: 1, c: 2}) }"),
    (Doc::Exec, "{ a(b: 1, b: 2) }"),
    (Doc::Ts, "\"d\" schema { query: Q }"),
    (Doc::Ts, "\"\"\"d\"\"\" schema @a { query: Q }"),
    (Doc::Ts, "extend interface I implements J"),
    (Doc::Ts, "extend interface I implements J & K type A"),
    (Doc::Ts, "extend type A implements J"),
    (Doc::Ts, "enum E { trueish nullable falsey }"),
    (Doc::Ts, "enum E { true }"),
    (Doc::Ts, "directive @d on FIELD"),
    (Doc::Ts, "directive @d repeatable on FIELD"),
    (Doc::Ts, "directive @d(a: Int) on FIELD | QUERY"),
    (Doc::Ts, "directive @d on FIELDS"),
    (Doc::Ts, "directive @d on FIELD_DEFINITIONS"),
    (Doc::Ts, "directive @d on field"),
    (Doc::Ts, "directive@d onFIELD"),
    (Doc::Ts, "scalara"),
    (Doc::Ts, "typeA{a:Int}"),
    (Doc::Ts, "inputA{a:Int}"),
    (Doc::Ts, "schema{queryQ}"),
    (Doc::Ts, "schema{query:Q}"),
    (Doc::Ts, "extendscalar A @d"),
    (Doc::Ts, "type A implementsI { a: Int }"),
    (Doc::Ts, "type A { a: [ Int ] }"),
    (Doc::Ts, "type A { a(b: Int !): Int }"),
    (Doc::Ts, "input A { a: [Int] ! = [1] }"),
    (Doc::Ts, "type A { a: Int } { a }"),
    (Doc::Ts, "query { a }"),
    (Doc::Ts, "schema { query: Q query: R }"),
    (Doc::Ts, "schema { mutation: M }"),
    (Doc::Ts, "extend schema { mutation: M }"),
    (Doc::Ts, "\"d\" extend scalar A @d"),
    (Doc::Ts, "type A {}"),
    (Doc::Ts, "enum E {}"),
    (Doc::Ts, "input I {}"),
    (Doc::Ts, "union U ="),
    (Doc::Ts, "extend type A"),
    (Doc::Ts, "extend union U"),
    (Doc::Ts, ""),
];

fn nesting_doc(levels: usize, via: &str) -> String {
    // `levels` pairs of braces in total
    let step = match via {
        "field" => "{ a ",
        "inline" => "{ ... ",
        "typed-inline" => "{ ... on T ",
        _ => "{ a ",
    };
    format!("{}{{ b {}", step.repeat(levels - 1), "} ".repeat(levels))
}

fn run_inner(cx: &Cx) {
    let quick = cx.quick();
    let tok_len = if quick { 5 } else { 6 };
    let glue_len = if quick { 5 } else { 6 };
    let lex_len = if quick { 5 } else { 6 };
    let indent_len = if quick { 7 } else { 9 };
    cx.rule(
        "case = one source text handed to parse_query / parse_schema and to the reference parser. Non-trivial = both parsers accept and the \
         canonical trees are equal (an agreement on a real tree, not an agreement to reject). Sweep cases are distinct by construction; exemplar \
         edits are counted by source hash.",
    );
    cx.assume("reference grammar = GraphQL October 2021 (agv-refgql, unit-tested on the spec's examples), with the crate's documented deviations: \\u escapes must denote Unicode scalar values; at most 64 selection sets nest below a definition's own (65 levels of braces)");
    cx.assume("parse_query / parse_schema also enforce LoneAnonymousOperation, UniqueOperationNames, UniqueFragmentNames, 'at least one operation', one root per operation type and a query root in a non-extension schema definition, because their trees are keyed by name; the reference applies the same rules and this is not judged as a grammar deviation");
    cx.assume("numbers: an integer literal within i64/u64 must come back as that integer; beyond that range, and for float literals, the tree holds a double and must be the literal's nearest double, with a difference in the last place tolerated (correct rounding of float literals is C15's finding); SourceCharacter restrictions on control characters are not exercised");
    cx.assume("not representable in the crate's tree and therefore not compared: source order of operations and fragments, repeated keys of one input object, the description of a schema definition, the query shorthand");

    let mut parts = serde_json::Map::new();

    // (a) token strings
    for (doc, alphabet, name) in [(Doc::Exec, &EXEC_TOKENS[..], "a-tokens-executable"), (Doc::Ts, &TS_TOKENS[..], "a-tokens-type-system")] {
        let st = Stats::new();
        for len in 0..=tok_len {
            sweep(cx, &st, doc, name, alphabet, len, " ", "", "");
        }
        parts.insert(name.into(), st.json());
        let st = Stats::new();
        let gname = if doc == Doc::Exec { "a-tokens-executable-no-separator" } else { "a-tokens-type-system-no-separator" };
        for len in 2..=glue_len {
            sweep(cx, &st, doc, gname, alphabet, len, "", "", "");
        }
        parts.insert(gname.into(), st.json());
    }

    // (b) lexical strings in value slots
    let stf = AtomicU64::new(0);
    for (name, alphabet, maxlen, pre, post) in [
        ("b-lexical-argument-slot", &LEX_ALPHABET[..], lex_len, "{ f(a: ", ") }"),
        ("b-lexical-list-slot", &LEX_ALPHABET[..], lex_len, "{ f(a: [", "]) }"),
        ("b-block-string", &BLOCK_ALPHABET[..], lex_len, "{ f(a: [\"\"\"", "\"\"\"]) }"),
        ("b-block-string-indentation", &INDENT_ALPHABET[..], indent_len, "{ f(a: \"\"\"", "\"\"\") }"),
    ] {
        let st = Stats::new();
        for len in 0..=maxlen {
            sweep(cx, &st, Doc::Exec, name, alphabet, len, "", pre, post);
        }
        stf.fetch_add(st.float_tolerated.load(Ordering::Relaxed), Ordering::Relaxed);
        parts.insert(name.into(), st.json());
    }
    {
        // every \uXXXX escape, both hex cases, in a string value and in a description
        let st = Stats::new();
        let acc = AtomicU64::new(0);
        agv_engine::par_range(0x10000, 1024, &|v| {
            for s in [format!("{{ f(a: \"\\u{v:04x}\") }}"), format!("{{ f(a: \"\\u{v:04X}\") }}")] {
                if judge(cx, &st, Doc::Exec, &s, "b-unicode-escapes", &[]).is_some() {
                    acc.fetch_add(1, Ordering::Relaxed);
                }
            }
            let s = format!("\"\\u{v:04x}\" scalar a");
            if judge(cx, &st, Doc::Ts, &s, "b-unicode-escapes", &[]).is_some() {
                acc.fetch_add(1, Ordering::Relaxed);
            }
        });
        cx.evals(3 * 0x10000);
        cx.nontrivial_count(acc.load(Ordering::Relaxed));
        parts.insert("b-unicode-escapes".into(), st.json());
    }
    {
        let st = Stats::new();
        let mut n = 0;
        for (menu, name) in [(NUMBER_MENU, "b-number-menu"), (STRING_MENU, "b-string-menu")] {
            for lit in menu {
                for (pre, post, doc) in [("{ f(a: ", ") }", Doc::Exec), ("{ f(a: [", " 1]) }", Doc::Exec), ("query ($v: T = ", ") { f }", Doc::Exec), ("input I { a: T = ", " }", Doc::Ts)] {
                    let s = format!("{pre}{lit}{post}");
                    n += 1;
                    if judge(cx, &st, doc, &s, name, &[("menu_item", lit.to_string())]).is_some() {
                        cx.nontrivial(agv_engine::hstr(&s));
                    }
                }
            }
        }
        for lit in WORD_MENU {
            for (pre, post, doc) in [("{ f(a: ", ") }", Doc::Exec), ("{ f(a: [", " 1]) }", Doc::Exec), ("query ($v: T = ", ") { f }", Doc::Exec), ("{ f(a: {k: ", "}) }", Doc::Exec), ("enum E { ", " }", Doc::Ts), ("{ ", " }", Doc::Exec)] {
                let s = format!("{pre}{lit}{post}");
                n += 1;
                if judge(cx, &st, doc, &s, "b-word-menu", &[("menu_item", lit.to_string())]).is_some() {
                    cx.nontrivial(agv_engine::hstr(&s));
                }
            }
        }
        for (doc, s) in SLIP_MENU {
            n += 1;
            if judge(cx, &st, *doc, s, "e-known-slips", &[]).is_some() {
                cx.nontrivial(agv_engine::hstr(s));
            }
        }
        for lit in STRING_MENU {
            let s = format!("{lit} type A {{ {lit} f: T }}");
            n += 1;
            if judge(cx, &st, Doc::Ts, &s, "b-string-menu", &[("menu_item", lit.to_string())]).is_some() {
                cx.nontrivial(agv_engine::hstr(&s));
            }
        }
        cx.evals(n);
        stf.fetch_add(st.float_tolerated.load(Ordering::Relaxed), Ordering::Relaxed);
        parts.insert("b-literal-menus".into(), st.json());
    }

    // (c) exemplar edits
    {
        let st = Stats::new();
        let mut exs = Vec::new();
        for (id, src) in exemplars::EXEC {
            exs.extend(exemplar(cx, Doc::Exec, id, src));
        }
        for (id, src) in exemplars::TS {
            exs.extend(exemplar(cx, Doc::Ts, id, src));
        }
        for ex in &exs {
            exemplar_edits(cx, &st, ex);
        }
        let mut j = st.json();
        j["exemplars"] = json!(exs.len());
        j["tokens"] = json!(exs.iter().map(|e| e.toks.len()).sum::<usize>());
        stf.fetch_add(st.float_tolerated.load(Ordering::Relaxed), Ordering::Relaxed);
        parts.insert("c-exemplar-edits".into(), j);
    }

    // (d) nesting at the documented limit
    {
        let st = Stats::new();
        let mut n = 0;
        for via in ["field", "inline", "typed-inline"] {
            for levels in 62..=68 {
                let body = nesting_doc(levels, via);
                for s in [body.clone(), format!("query Q {body}"), format!("{{ x }} fragment F on T {body}")] {
                    n += 1;
                    if judge(cx, &st, Doc::Exec, &s, "d-nesting-limit", &[("levels", levels.to_string()), ("via", via.to_string())]).is_some() {
                        cx.nontrivial(agv_engine::hstr(&s));
                    }
                }
            }
        }
        cx.evals(n);
        parts.insert("d-nesting-limit".into(), st.json());
    }

    cx.extra("parts", J::Object(parts));
    {
        let h = HISTOGRAM.lock().unwrap();
        cx.extra(
            "discrepancy_histogram",
            J::Array(h.iter().take(400).map(|(k, (n, ex))| json!({ "class_and_keys": k, "cases": n, "smallest": ex })).collect()),
        );
        if std::env::var("C13_DUMP").is_ok() {
            for (k, (n, ex)) in h.iter() {
                eprintln!("{n:>8}  {k}   e.g. {ex:?}");
            }
        }
    }
    cx.extra("float_literals_tolerated_in_the_last_place", json!(stf.load(Ordering::Relaxed)));
    cx.extra(
        "bounds_completed",
        json!({ "token_string_length": tok_len, "unseparated_token_string_length": glue_len, "lexical_string_length": lex_len, "block_string_indentation_length": indent_len,
                "executable_tokens": EXEC_TOKENS, "type_system_tokens": TS_TOKENS, "exemplar_edits": 1 }),
    );
    cx.exhaustive(true);
}

pub fn run(cx: &Cx) {
    // the pest-generated parser recurses per nesting level: give every worker a large stack
    let pool = rayon::ThreadPoolBuilder::new().stack_size(64 << 20).build().expect("thread pool");
    pool.install(|| run_inner(cx));
}

pub fn replay(case: &J) -> String {
    let src = case["src"].as_str().unwrap_or("").to_string();
    let doc = if case["doc"].as_str() == Some("type-system") { Doc::Ts } else { Doc::Exec };
    std::thread::Builder::new()
        .stack_size(64 << 20)
        .spawn(move || {
            let c = match crate_parse(doc, &src) {
                CrateOut::Accept(j) => format!("accepts, tree {j}"),
                CrateOut::Reject { variant, line, col } => format!("rejects ({variant} at {line}:{col})"),
                CrateOut::Panic(p) => format!("panics: {p}"),
            };
            let r = match ref_parse(doc, &src) {
                RefOut::Accept(j) => format!("accepts, tree {j}"),
                RefOut::Syntax => {
                    let (e, t) = ref_trace(doc, &src);
                    let e = e.unwrap();
                    format!("rejects: {} at {}:{} in {:?}", e.msg, e.pos.line, e.pos.col, t.failed_in)
                }
                RefOut::Rule(r) => format!("grammatical, but breaks the folded-in rule {r}"),
            };
            format!("{} document {src:?}\n  crate:     {c}\n  reference: {r}", doc.name())
        })
        .unwrap()
        .join()
        .unwrap_or_else(|_| "replay thread died".into())
}

fn main() {
    agv_engine::driver::main("C13", "exploration", run, Some(replay))
}
