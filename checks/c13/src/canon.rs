//! One canonical form (serde_json) for the syntax trees of both parsers.
//!
//! What is kept: operation kinds and names, variable definitions (name, type,
//! default, directives), directives with arguments, selections (fields with
//! alias/name/arguments/directives/sub-selections, spreads, inline fragments
//! with type condition), fragment definitions, every type-system definition
//! with descriptions, and values with decoded strings and number denotations.
//! What the crate's tree cannot hold is normalised on the reference side:
//! definition order of operations/fragments (hash maps → sorted by name),
//! duplicate keys of an input object (IndexMap: first position, last value),
//! the description of a schema definition (no field), the `{…}` shorthand.

use agv_refgql::ast as ra;
use async_graphql_parser::types as ct;
use async_graphql_value::{ConstValue, Number, Value as CValue};
use serde_json::{json, Value as J};

// ------------------------------------------------------------------ numbers

/// Integer denotation as decimal text, or the f64 bit pattern.
pub fn num_crate(n: &Number) -> J {
    if let Some(i) = n.as_i64() {
        json!({ "i": i.to_string() })
    } else if let Some(u) = n.as_u64() {
        json!({ "i": u.to_string() })
    } else {
        let f = n.as_f64().unwrap_or(f64::NAN);
        json!({ "f": format!("{:016x}", f.to_bits()) })
    }
}

pub fn num_ref_int(text: &str) -> J {
    match text.parse::<i128>() {
        Ok(v) if v >= i64::MIN as i128 && v <= u64::MAX as i128 => json!({ "i": v.to_string() }),
        // beyond what serde_json::Number holds as an integer: the nearest double is the best possible denotation
        _ => num_ref_float(text),
    }
}

pub fn num_ref_float(text: &str) -> J {
    let f: f64 = text.parse().unwrap_or(f64::NAN);
    json!({ "f": format!("{:016x}", f.to_bits()) })
}

// ------------------------------------------------------------------ crate side

fn c_const(v: &ConstValue) -> J {
    match v {
        ConstValue::Null => json!("null"),
        ConstValue::Number(n) => json!({ "num": num_crate(n) }),
        ConstValue::String(s) => json!({ "str": s }),
        ConstValue::Boolean(b) => json!({ "bool": b }),
        ConstValue::Binary(b) => json!({ "binary": b.to_vec() }),
        ConstValue::Enum(n) => json!({ "enum": n.as_str() }),
        ConstValue::List(l) => json!({ "list": l.iter().map(c_const).collect::<Vec<_>>() }),
        ConstValue::Object(o) => json!({ "obj": o.iter().map(|(k, v)| json!([k.as_str(), c_const(v)])).collect::<Vec<_>>() }),
    }
}

fn c_value(v: &CValue) -> J {
    match v {
        CValue::Variable(n) => json!({ "var": n.as_str() }),
        CValue::Null => json!("null"),
        CValue::Number(n) => json!({ "num": num_crate(n) }),
        CValue::String(s) => json!({ "str": s }),
        CValue::Boolean(b) => json!({ "bool": b }),
        CValue::Binary(b) => json!({ "binary": b.to_vec() }),
        CValue::Enum(n) => json!({ "enum": n.as_str() }),
        CValue::List(l) => json!({ "list": l.iter().map(c_value).collect::<Vec<_>>() }),
        CValue::Object(o) => json!({ "obj": o.iter().map(|(k, v)| json!([k.as_str(), c_value(v)])).collect::<Vec<_>>() }),
    }
}

fn c_dirs(ds: &[async_graphql_parser::Positioned<ct::Directive>]) -> J {
    J::Array(
        ds.iter()
            .map(|d| json!({ "name": d.node.name.node.as_str(), "args": d.node.arguments.iter().map(|(k, v)| json!([k.node.as_str(), c_value(&v.node)])).collect::<Vec<_>>() }))
            .collect(),
    )
}

fn c_const_dirs(ds: &[async_graphql_parser::Positioned<ct::ConstDirective>]) -> J {
    J::Array(
        ds.iter()
            .map(|d| json!({ "name": d.node.name.node.as_str(), "args": d.node.arguments.iter().map(|(k, v)| json!([k.node.as_str(), c_const(&v.node)])).collect::<Vec<_>>() }))
            .collect(),
    )
}

fn c_selset(s: &ct::SelectionSet) -> J {
    J::Array(
        s.items
            .iter()
            .map(|it| match &it.node {
                ct::Selection::Field(f) => {
                    let f = &f.node;
                    json!({ "field": {
                        "alias": f.alias.as_ref().map(|a| a.node.as_str().to_string()),
                        "name": f.name.node.as_str(),
                        "args": f.arguments.iter().map(|(k, v)| json!([k.node.as_str(), c_value(&v.node)])).collect::<Vec<_>>(),
                        "dirs": c_dirs(&f.directives),
                        "sel": c_selset(&f.selection_set.node),
                    }})
                }
                ct::Selection::FragmentSpread(s) => json!({ "spread": { "name": s.node.fragment_name.node.as_str(), "dirs": c_dirs(&s.node.directives) } }),
                ct::Selection::InlineFragment(i) => json!({ "inline": {
                    "on": i.node.type_condition.as_ref().map(|t| t.node.on.node.as_str().to_string()),
                    "dirs": c_dirs(&i.node.directives),
                    "sel": c_selset(&i.node.selection_set.node),
                }}),
            })
            .collect(),
    )
}

fn c_op(name: Option<&str>, op: &ct::OperationDefinition) -> J {
    json!({
        "kind": op.ty.to_string(),
        "name": name,
        "vars": op.variable_definitions.iter().map(|v| json!({
            "name": v.node.name.node.as_str(),
            "type": v.node.var_type.node.to_string(),
            "default": v.node.default_value.as_ref().map(|d| c_const(&d.node)),
            "dirs": c_dirs(&v.node.directives),
        })).collect::<Vec<_>>(),
        "dirs": c_dirs(&op.directives),
        "sel": c_selset(&op.selection_set.node),
    })
}

pub fn crate_exec(d: &ct::ExecutableDocument) -> J {
    let mut ops: Vec<(Option<String>, J)> = match &d.operations {
        ct::DocumentOperations::Single(op) => vec![(None, c_op(None, &op.node))],
        ct::DocumentOperations::Multiple(m) => m.iter().map(|(n, op)| (Some(n.to_string()), c_op(Some(n.as_str()), &op.node))).collect(),
    };
    ops.sort_by(|a, b| a.0.cmp(&b.0));
    let mut frags: Vec<(String, J)> = d
        .fragments
        .iter()
        .map(|(n, f)| {
            (
                n.to_string(),
                json!({ "name": n.as_str(), "on": f.node.type_condition.node.on.node.as_str(), "dirs": c_dirs(&f.node.directives), "sel": c_selset(&f.node.selection_set.node) }),
            )
        })
        .collect();
    frags.sort_by(|a, b| a.0.cmp(&b.0));
    json!({ "ops": ops.into_iter().map(|x| x.1).collect::<Vec<_>>(), "frags": frags.into_iter().map(|x| x.1).collect::<Vec<_>>() })
}

fn screaming(debug_name: &str) -> String {
    let mut o = String::new();
    for (i, c) in debug_name.chars().enumerate() {
        if c.is_ascii_uppercase() && i > 0 {
            o.push('_');
        }
        o.push(c.to_ascii_uppercase());
    }
    o
}

fn c_desc(d: &Option<async_graphql_parser::Positioned<String>>) -> J {
    match d {
        Some(s) => json!(s.node),
        None => J::Null,
    }
}

fn c_ivd(v: &ct::InputValueDefinition) -> J {
    json!({
        "desc": c_desc(&v.description),
        "name": v.name.node.as_str(),
        "type": v.ty.node.to_string(),
        "default": v.default_value.as_ref().map(|d| c_const(&d.node)),
        "dirs": c_const_dirs(&v.directives),
    })
}

fn c_fields(fs: &[async_graphql_parser::Positioned<ct::FieldDefinition>]) -> J {
    J::Array(
        fs.iter()
            .map(|f| {
                json!({
                    "desc": c_desc(&f.node.description),
                    "name": f.node.name.node.as_str(),
                    "args": f.node.arguments.iter().map(|a| c_ivd(&a.node)).collect::<Vec<_>>(),
                    "type": f.node.ty.node.to_string(),
                    "dirs": c_const_dirs(&f.node.directives),
                })
            })
            .collect(),
    )
}

pub fn crate_ts(d: &ct::ServiceDocument) -> J {
    let names = |v: &[async_graphql_parser::Positioned<async_graphql_value::Name>]| J::Array(v.iter().map(|n| json!(n.node.as_str())).collect());
    let defs: Vec<J> = d
        .definitions
        .iter()
        .map(|def| match def {
            ct::TypeSystemDefinition::Schema(s) => json!({ "schema": {
                "extend": s.node.extend,
                "dirs": c_const_dirs(&s.node.directives),
                "query": s.node.query.as_ref().map(|n| n.node.to_string()),
                "mutation": s.node.mutation.as_ref().map(|n| n.node.to_string()),
                "subscription": s.node.subscription.as_ref().map(|n| n.node.to_string()),
            }}),
            ct::TypeSystemDefinition::Type(t) => {
                let t = &t.node;
                let (kind, body) = match &t.kind {
                    ct::TypeKind::Scalar => ("scalar", json!({})),
                    ct::TypeKind::Object(o) => ("object", json!({ "implements": names(&o.implements), "fields": c_fields(&o.fields) })),
                    ct::TypeKind::Interface(o) => ("interface", json!({ "implements": names(&o.implements), "fields": c_fields(&o.fields) })),
                    ct::TypeKind::Union(u) => ("union", json!({ "members": names(&u.members) })),
                    ct::TypeKind::Enum(e) => (
                        "enum",
                        json!({ "values": e.values.iter().map(|v| json!({ "desc": c_desc(&v.node.description), "name": v.node.value.node.as_str(), "dirs": c_const_dirs(&v.node.directives) })).collect::<Vec<_>>() }),
                    ),
                    ct::TypeKind::InputObject(i) => ("input", json!({ "input_fields": i.fields.iter().map(|f| c_ivd(&f.node)).collect::<Vec<_>>() })),
                };
                json!({ "type": { "extend": t.extend, "desc": c_desc(&t.description), "name": t.name.node.as_str(), "dirs": c_const_dirs(&t.directives), "kind": kind, "body": body } })
            }
            ct::TypeSystemDefinition::Directive(d) => {
                let d = &d.node;
                json!({ "directive": {
                    "desc": c_desc(&d.description),
                    "name": d.name.node.as_str(),
                    "args": d.arguments.iter().map(|a| c_ivd(&a.node)).collect::<Vec<_>>(),
                    "repeatable": d.is_repeatable,
                    "locations": d.locations.iter().map(|l| screaming(&format!("{:?}", l.node))).collect::<Vec<_>>(),
                }})
            }
        })
        .collect();
    json!({ "defs": defs })
}

// -------------------------------------------------------------- reference side

fn r_value(v: &ra::Value) -> J {
    match v {
        ra::Value::Var(n) => json!({ "var": n }),
        ra::Value::Int(t) => json!({ "num": num_ref_int(t) }),
        ra::Value::Float(t) => json!({ "num": num_ref_float(t) }),
        ra::Value::Str(s) => json!({ "str": s }),
        ra::Value::Bool(b) => json!({ "bool": b }),
        ra::Value::Null => json!("null"),
        ra::Value::Enum(e) => json!({ "enum": e }),
        ra::Value::List(l) => json!({ "list": l.iter().map(|x| r_value(&x.v)).collect::<Vec<_>>() }),
        ra::Value::Object(o) => {
            // the crate's tree holds an IndexMap: a repeated key keeps its first position and its last value
            let mut out: Vec<(String, J)> = Vec::new();
            for (k, x) in o {
                let val = r_value(&x.v);
                match out.iter_mut().find(|(n, _)| *n == k.s) {
                    Some(e) => e.1 = val,
                    None => out.push((k.s.clone(), val)),
                }
            }
            json!({ "obj": out.into_iter().map(|(k, v)| json!([k, v])).collect::<Vec<_>>() })
        }
    }
}

fn r_args(a: &[(ra::PName, ra::PValue)]) -> Vec<J> {
    a.iter().map(|(k, v)| json!([k.s, r_value(&v.v)])).collect()
}

fn r_dirs(ds: &[ra::Directive]) -> J {
    J::Array(ds.iter().map(|d| json!({ "name": d.name.s, "args": r_args(&d.args) })).collect())
}

fn r_sel(sel: &[ra::Selection]) -> J {
    J::Array(
        sel.iter()
            .map(|s| match s {
                ra::Selection::Field(f) => json!({ "field": {
                    "alias": f.alias.as_ref().map(|a| a.s.clone()),
                    "name": f.name.s,
                    "args": r_args(&f.args),
                    "dirs": r_dirs(&f.directives),
                    "sel": r_sel(&f.sel),
                }}),
                ra::Selection::Spread(s) => json!({ "spread": { "name": s.name.s, "dirs": r_dirs(&s.directives) } }),
                ra::Selection::Inline(i) => json!({ "inline": { "on": i.cond.as_ref().map(|c| c.s.clone()), "dirs": r_dirs(&i.directives), "sel": r_sel(&i.sel) } }),
            })
            .collect(),
    )
}

/// Canonical form, or the validation rule `parse_query` folds into parsing that the document breaks.
pub fn ref_exec(d: &ra::ExecDoc) -> Result<J, &'static str> {
    let ops: Vec<&ra::Operation> = d.ops().collect();
    if ops.is_empty() {
        return Err("no-operation");
    }
    if ops.iter().any(|o| o.name.is_none()) && ops.len() > 1 {
        return Err("LoneAnonymousOperation");
    }
    let mut names: Vec<&str> = ops.iter().filter_map(|o| o.name.as_ref().map(|n| n.s.as_str())).collect();
    names.sort();
    if names.windows(2).any(|w| w[0] == w[1]) {
        return Err("UniqueOperationNames");
    }
    let mut fnames: Vec<&str> = d.frags().map(|f| f.name.s.as_str()).collect();
    fnames.sort();
    if fnames.windows(2).any(|w| w[0] == w[1]) {
        return Err("UniqueFragmentNames");
    }
    let mut o: Vec<(Option<String>, J)> = ops
        .iter()
        .map(|op| {
            (
                op.name.as_ref().map(|n| n.s.clone()),
                json!({
                    "kind": op.kind.word(),
                    "name": op.name.as_ref().map(|n| n.s.clone()),
                    "vars": op.vars.iter().map(|v| json!({
                        "name": v.name.s,
                        "type": v.ty.to_string(),
                        "default": v.default.as_ref().map(|d| r_value(&d.v)),
                        "dirs": r_dirs(&v.directives),
                    })).collect::<Vec<_>>(),
                    "dirs": r_dirs(&op.directives),
                    "sel": r_sel(&op.sel),
                }),
            )
        })
        .collect();
    o.sort_by(|a, b| a.0.cmp(&b.0));
    let mut f: Vec<(String, J)> = d.frags().map(|f| (f.name.s.clone(), json!({ "name": f.name.s, "on": f.cond.s, "dirs": r_dirs(&f.directives), "sel": r_sel(&f.sel) }))).collect();
    f.sort_by(|a, b| a.0.cmp(&b.0));
    Ok(json!({ "ops": o.into_iter().map(|x| x.1).collect::<Vec<_>>(), "frags": f.into_iter().map(|x| x.1).collect::<Vec<_>>() }))
}

fn r_ivd(v: &ra::InputValueDef) -> J {
    json!({ "desc": v.desc, "name": v.name.s, "type": v.ty.to_string(), "default": v.default.as_ref().map(|d| r_value(&d.v)), "dirs": r_dirs(&v.directives) })
}

fn r_fields(fs: &[ra::FieldDef]) -> J {
    J::Array(
        fs.iter()
            .map(|f| json!({ "desc": f.desc, "name": f.name.s, "args": f.args.iter().map(r_ivd).collect::<Vec<_>>(), "type": f.ty.to_string(), "dirs": r_dirs(&f.directives) }))
            .collect(),
    )
}

/// Canonical form, or the schema-validation rule `parse_schema` folds into parsing that the document breaks.
pub fn ref_ts(d: &ra::TsDoc) -> Result<J, &'static str> {
    let names = |v: &[ra::PName]| J::Array(v.iter().map(|n| json!(n.s)).collect());
    let mut defs = Vec::new();
    for def in &d.defs {
        defs.push(match def {
            ra::TsDef::Schema(s) => {
                let get = |k: ra::OpKind| -> Result<Option<String>, &'static str> {
                    let v: Vec<&ra::PName> = s.roots.iter().filter(|(kk, _)| *kk == k).map(|(_, n)| n).collect();
                    if v.len() > 1 {
                        return Err("MultipleRoots");
                    }
                    Ok(v.first().map(|n| n.s.clone()))
                };
                let (q, m, su) = (get(ra::OpKind::Query)?, get(ra::OpKind::Mutation)?, get(ra::OpKind::Subscription)?);
                if !s.extend && q.is_none() {
                    return Err("MissingQueryRoot");
                }
                json!({ "schema": { "extend": s.extend, "dirs": r_dirs(&s.directives), "query": q, "mutation": m, "subscription": su } })
            }
            ra::TsDef::Type(t) => {
                let (kind, body) = match &t.kind {
                    ra::TypeDefKind::Scalar => ("scalar", json!({})),
                    ra::TypeDefKind::Object { interfaces, fields } => ("object", json!({ "implements": names(interfaces), "fields": r_fields(fields) })),
                    ra::TypeDefKind::Interface { interfaces, fields } => ("interface", json!({ "implements": names(interfaces), "fields": r_fields(fields) })),
                    ra::TypeDefKind::Union { members } => ("union", json!({ "members": names(members) })),
                    ra::TypeDefKind::Enum { values } => ("enum", json!({ "values": values.iter().map(|v| json!({ "desc": v.desc, "name": v.name.s, "dirs": r_dirs(&v.directives) })).collect::<Vec<_>>() })),
                    ra::TypeDefKind::Input { fields } => ("input", json!({ "input_fields": fields.iter().map(r_ivd).collect::<Vec<_>>() })),
                };
                json!({ "type": { "extend": t.extend, "desc": t.desc, "name": t.name.s, "dirs": r_dirs(&t.directives), "kind": kind, "body": body } })
            }
            ra::TsDef::Directive(d) => json!({ "directive": {
                "desc": d.desc,
                "name": d.name.s,
                "args": d.args.iter().map(r_ivd).collect::<Vec<_>>(),
                "repeatable": d.repeatable,
                "locations": d.locations.iter().map(|l| l.s.clone()).collect::<Vec<_>>(),
            }}),
        });
    }
    Ok(json!({ "defs": defs }))
}

// ------------------------------------------------------------------ comparison

/// Distance in representable doubles (u64::MAX when signs/NaN make it meaningless).
fn ulps(a: u64, b: u64) -> u64 {
    let (fa, fb) = (f64::from_bits(a), f64::from_bits(b));
    if fa.is_nan() || fb.is_nan() || (fa.is_sign_negative() != fb.is_sign_negative()) {
        return if fa == fb { 0 } else { u64::MAX };
    }
    a.abs_diff(b)
}

pub struct Diff {
    /// path with list indices removed, e.g. `ops.sel.field.args.num`
    pub path: String,
    pub expected: J,
    pub got: J,
}

/// First difference between the reference's and the crate's canonical tree.
/// `tolerated` counts float literals that differ in the last place only.
pub fn first_diff(expected: &J, got: &J, path: &str, tolerated: &mut u64) -> Option<Diff> {
    match (expected, got) {
        (J::Object(a), J::Object(b)) => {
            if let (Some(J::String(x)), Some(J::String(y))) = (a.get("f"), b.get("f")) {
                if a.len() == 1 && b.len() == 1 {
                    if x == y {
                        return None;
                    }
                    let (xa, yb) = (u64::from_str_radix(x, 16).unwrap_or(0), u64::from_str_radix(y, 16).unwrap_or(1 << 63));
                    if ulps(xa, yb) <= 1 {
                        *tolerated += 1;
                        return None;
                    }
                    return Some(Diff { path: format!("{path}.f"), expected: expected.clone(), got: got.clone() });
                }
            }
            if a.len() == 1 && b.len() == 1 && a.keys().next() != b.keys().next() {
                return Some(Diff { path: format!("{path}.{}", a.keys().next().unwrap()), expected: expected.clone(), got: got.clone() });
            }
            for (k, va) in a {
                match b.get(k) {
                    Some(vb) => {
                        if let Some(d) = first_diff(va, vb, &format!("{path}.{k}"), tolerated) {
                            return Some(d);
                        }
                    }
                    None => return Some(Diff { path: format!("{path}.{k}"), expected: va.clone(), got: J::Null }),
                }
            }
            for (k, vb) in b {
                if !a.contains_key(k) {
                    return Some(Diff { path: format!("{path}.{k}"), expected: J::Null, got: vb.clone() });
                }
            }
            None
        }
        (J::Array(a), J::Array(b)) => {
            for (x, y) in a.iter().zip(b.iter()) {
                if let Some(d) = first_diff(x, y, path, tolerated) {
                    return Some(d);
                }
            }
            if a.len() != b.len() {
                return Some(Diff { path: format!("{path}.#len"), expected: json!(a.len()), got: json!(b.len()) });
            }
            None
        }
        (a, b) => {
            if a == b {
                None
            } else {
                Some(Diff { path: path.to_string(), expected: a.clone(), got: b.clone() })
            }
        }
    }
}
