//! Exemplar documents shared by C13 (single-token edits) and C14 (separator
//! assignments). Shapes follow /repo/parser/tests/{executables,services}/*.graphql
//! plus documents chosen so that every production of the October 2021 grammar
//! occurs at least once. Every exemplar is accepted by the reference parser
//! (asserted at start-up by both checks).

/// (id, source). Executable documents.
pub const EXEC: &[(&str, &str)] = &[
    ("minimal", "{ a }"),
    ("minimal_query", "query { a b }"),
    ("minimal_mutation", "mutation M { a(x: 1) }"),
    ("subscription_directive", "subscription S @d { a }"),
    ("query_vars", "query Q($v: Int) { a(x: $v) }"),
    ("query_var_defaults", "query Q($v: [Int!]! = [1, 2], $w: T = {k: \"s\"}, $x: Int! @d(a: 1)) { a }"),
    ("query_aliases_args_directives", "{ x: a y: b(p: 1.5e3, q: -0.5) @skip(if: true) @include(if: false) { c } }"),
    ("nested_selection", "{ a { b { c } } d }"),
    ("fragments_inline", "{ ...F ... on T { a } ... @d { b } ... { c } }"),
    ("fragment_defs", "query A { ...F } fragment F on T @d { a ...G } fragment G on T { b }"),
    ("multiple_operations", "query A { a } query B { b } mutation C { c }"),
    ("string_literals", "{ a(s: \"x\\n\\u00e9\\\"\\\\\\/\", b: \"\"\"blo\"ck\"\"\", e: ENUM, n: null, t: true, f: false) }"),
    ("list_object_values", "{ a(l: [], o: {}, ll: [[1], [2, 3]], oo: {a: {b: [1, {c: $v}]}}) }"),
    ("keywords_as_names", "{ on query: fragment mutation(on: on) @on { subscription type } }"),
    ("literal_words_as_fields", "{ true false null }"),
    ("type_named_on", "fragment f on on { a } { ...f ... on on { b } }"),
    ("variables_everywhere", "{ a(x: $on, y: [$a, $b]) @d(v: $c) }"),
    ("anonymous_query_vars", "query ($a: A, $b: [B], $c: [[C!]]!) @a @b(c: 1) { a }"),
    ("numbers", "{ a(i: 0, j: -1, k: 123, f: 1.0, g: -0.5e-3, h: 1E2) }"),
    ("strings_edge", "{ a(s: \"\", t: \" \", u: \"#not,comment\", b: \"\"\"\"\"\", c: \"\"\" a\n b \"\"\") }"),
    ("comments_commas", "# comment\n{ a, b,,, c }"),
    ("directive_object_arg", "{ a @d(x: {y: [E, \"s\", 1, 1.5, true, null, $v]}) }"),
    ("every_default_kind", "query Q($a: Int = 1, $b: String = \"s\", $c: E = V, $d: [Int] = [], $e: I = {a: 1}, $f: Boolean = true, $g: Int = null) { a }"),
    ("alias_only", "{ a: b }"),
    ("deep", "{ a { b { c { d { e { f } } } } } }"),
    ("kitchen_sink", "query queryName($foo: ComplexType, $site: Site = MOBILE) { whoever123is: node(id: [123, 456]) { id ... on User @defer { field2 { id alias: field1(first: 10, after: $foo) @include(if: $foo) { id ...frag } } } ... @skip(unless: $foo) { id } ... { id } } } fragment frag on Friend { foo(size: $size, bar: $b, obj: {key: \"value\", block: \"\"\"\n    block string uses quotes\n  \"\"\"}) }"),
    // exemplars that exercise one confirmed grammar slip each (kept apart so they do not mask the others)
    ("slip_var_default_then_directive", "query ($a: Int = 1 @d) { a }"),
    ("slip_enum_prefixed_by_literal", "{ a(e: trueish, f: nullable, g: falsey) }"),
    ("slip_block_string_escaped_quotes", "{ a(b: \"\"\"x\\\"\"\"y\"\"\") }"),
];

/// (id, source). Type-system documents.
pub const TS: &[(&str, &str)] = &[
    ("scalar_type", "scalar Date"),
    ("scalar_described", "\"desc\" scalar Url @specifiedBy(url: \"x\")"),
    ("minimal_type", "type Query { a: Int }"),
    (
        "object_full",
        "\"\"\"T\"\"\" type A implements I & J @d(a: 1) { \"f\" a(x: Int = 1 @e, \"y\" y: [String!]!): [A!]! @deprecated(reason: \"r\") b: B }",
    ),
    ("interface", "interface I { a: Int } interface K implements I & J @d { a(b: Int): Int }"),
    ("union", "union U = A | B union V @d = | A | B union W"),
    ("enum", "enum E { A B @d \"c\" C } enum F @d { A }"),
    ("input_type", "input In { a: Int = 1 @d \"b\" b: [In!] } input Empty @d"),
    ("directive", "directive @d(a: Int = 1, \"b\" b: String) repeatable on FIELD | QUERY \"doc\" directive @e on | ENUM_VALUE"),
    ("schema", "schema { query: Q mutation: M subscription: S }"),
    ("schema_directive", "schema @d { query: Q }"),
    ("extend_schema", "extend schema @d extend schema { mutation: M } extend schema @d { subscription: S }"),
    ("extend_types", "extend scalar Date @d extend type A implements I extend type A @d extend type A { x: Int } extend interface I @d { y: Int }"),
    ("extend_more", "extend union U = C extend union U @d extend enum E { D } extend enum E @d extend input In { c: Int } extend input In @d"),
    ("no_fields", "type A type B implements I type C @d interface Z"),
    ("implements_amp", "type A implements & I & J { a: Int }"),
    ("all_locations", "directive @a on QUERY | MUTATION | SUBSCRIPTION | FIELD | FRAGMENT_DEFINITION | FRAGMENT_SPREAD | INLINE_FRAGMENT | VARIABLE_DEFINITION | SCHEMA | SCALAR | OBJECT | FIELD_DEFINITION | ARGUMENT_DEFINITION | INTERFACE | UNION | ENUM | ENUM_VALUE | INPUT_OBJECT | INPUT_FIELD_DEFINITION"),
    ("multi", "schema { query: Q } type Q { a: A } type A { b: Int } enum E { X }"),
    ("default_values", "input I { a: [Int] = [1, 2] b: O = {k: V, s: \"s\"} c: Float = -1.5e3 d: Boolean = false e: E = null }"),
    ("keywords_as_names", "type type implements interface { input: enum union(scalar: extend = on): directive } enum on { on schema }"),
    // one confirmed grammar slip each
    ("slip_schema_description", "\"desc\" schema { query: Q }"),
    ("slip_extend_interface_implements", "extend interface I implements J"),
    ("slip_enum_value_prefixed_by_literal", "enum E { trueish nullable }"),
];

/// Documents over the tiny C14 execution schema (`Query { a: A, n: Int, fail: Int }`, `A { a: A, n: Int, fail: Int }`),
/// used for validation-error and execution-error locations.
#[allow(dead_code)]
pub const SCHEMA_DOCS: &[(&str, &str)] = &[
    ("flat", "{ n x: n a { n } }"),
    ("nested", "query Q { a { a { n y: n } n } n }"),
    ("fragments", "{ ...F a { ... on A { n } ... { n } } } fragment F on Query { n a { n } }"),
];
