//! C09 — strict validation rejects exactly the documents the GraphQL specification calls invalid.
//!
//! Seam: `Schema::execute` / `execute_stream` in `ValidationMode::Strict` (the default) on the
//! derive-built schemas S1 (agv-common) and S3 (this crate) and on their `async_graphql::dynamic`
//! twins, with an observing extension (stage verdicts) and the resolver invocation log.
//! Space (i): every document ≤ N nodes over an alphabet with one of each kind of wrong material (S1).
//! Space (ii): valid exemplars × every single (quick) / pair (thorough) of rule-targeted edit
//! operators at every applicable site (S3).
//! Oracle: the validation stage turns the request down (no resolver ran, data null) ⇔ the reference
//! validator (agv-refgql, §5 of the October 2021 specification) reports ≥ 1 error; every rejection
//! carries ≥ 1 error with ≥ 1 location; what both accept executes without errors.

mod dynb;
mod edits;
mod obs;
mod s3;
mod small;

use agv_engine::explore::{explore, Chooser, ExploreCfg};
use agv_engine::record::{Cx, Violation};
use agv_refgql::ast::{ExecDoc, OpKind, Operation, Type};
use agv_refgql::schema::{Kind, Schema};
use agv_refgql::validate::{validate_clauses, VError};
use obs::{observe, Observed, Runner, Stage};
use rayon::prelude::*;
use serde_json::{json, Map, Value as J};
use std::collections::{BTreeMap, BTreeSet, HashSet};
use std::sync::atomic::{AtomicU64, Ordering};
use std::sync::Mutex;

struct World {
    ir1: Schema,
    ir3: Schema,
    s1: agv_common::s1::S1,
    d1: async_graphql::dynamic::Schema,
    s3: s3::S3,
    d3: async_graphql::dynamic::Schema,
}

fn defaults_signature(ir: &Schema) -> BTreeSet<String> {
    // which arguments / input fields carry a default (sdl_equiv compares names and types only)
    let mut out = BTreeSet::new();
    for (n, t) in &ir.types {
        if n.starts_with("__") {
            continue;
        }
        match &t.kind {
            Kind::Object { fields, .. } | Kind::Interface { fields, .. } => {
                for f in fields {
                    for a in &f.args {
                        if a.default.is_some() {
                            out.insert(format!("{n}.{}({})", f.name, a.name));
                        }
                    }
                }
            }
            Kind::Input { fields, .. } => {
                for a in fields {
                    if a.default.is_some() {
                        out.insert(format!("{n}.{}", a.name));
                    }
                }
            }
            _ => {}
        }
    }
    out
}

fn directives_signature(ir: &Schema) -> BTreeSet<String> {
    ir.directives
        .values()
        .filter(|d| !["deprecated", "specifiedBy", "oneOf"].contains(&d.name.as_str()))
        .map(|d| {
            let mut l = d.locations.clone();
            l.sort();
            format!("@{}({}){} on {}", d.name, d.args.iter().map(|a| format!("{}:{}", a.name, a.ty)).collect::<Vec<_>>().join(","), if d.repeatable { " repeatable" } else { "" }, l.join("|"))
        })
        .collect()
}

fn build_world() -> Result<World, String> {
    let ir1 = Schema::from_sdl(agv_common::s1::SDL).map_err(|e| format!("S1 reference SDL: {e}"))?;
    let ir3 = Schema::from_sdl(s3::SDL).map_err(|e| format!("S3 reference SDL: {e}"))?;
    let s1 = agv_common::s1::builder().extension(obs::VObs).finish();
    let s3 = s3::builder().extension(obs::VObs).finish();
    let d1 = dynb::build(&ir1)?;
    let d3 = dynb::build(&ir3)?;
    for (what, reference, ir, got, with_directives) in [
        ("S1 (derive)", agv_common::s1::SDL, &ir1, s1.sdl(), true),
        ("S3 (derive)", s3::SDL, &ir3, s3.sdl(), true),
        ("S1 (dynamic twin)", agv_common::s1::SDL, &ir1, d1.sdl(), false),
        ("S3 (dynamic twin)", s3::SDL, &ir3, d3.sdl(), false),
    ] {
        agv_common::glue::sdl_equiv(reference, &got).map_err(|e| format!("{what}: reference SDL and Schema::sdl() disagree: {e}"))?;
        let got_ir = Schema::from_sdl(&got).map_err(|e| format!("{what}: exported SDL: {e}"))?;
        if defaults_signature(ir) != defaults_signature(&got_ir) {
            return Err(format!("{what}: default values differ: reference {:?} vs exported {:?}", defaults_signature(ir), defaults_signature(&got_ir)));
        }
        if with_directives && directives_signature(ir) != directives_signature(&got_ir) {
            return Err(format!("{what}: directives differ: reference {:?} vs exported {:?}", directives_signature(ir), directives_signature(&got_ir)));
        }
    }
    Ok(World { ir1, ir3, s1, d1, s3, d3 })
}

// ---------------------------------------------------------------------------------------------
// variables "as the document needs"

fn default_json(ir: &Schema, ty: &Type) -> Option<J> {
    match ty {
        Type::NonNull(t) => default_json(ir, t),
        Type::List(t) => Some(J::Array(vec![default_json(ir, t)?])),
        Type::Named(n) => match &ir.ty(n)?.kind {
            Kind::Scalar => Some(match n.as_str() {
                "Int" => json!(1),
                "Float" => json!(1.5),
                "Boolean" => json!(true),
                "String" | "ID" => json!("x"),
                _ => J::Null, // Upload / custom scalars: no value can be made up
            }),
            Kind::Enum { values } => Some(J::String(values[0].0.clone())),
            Kind::Input { fields, one_of } => {
                let mut o = Map::new();
                if *one_of {
                    let f = &fields[0];
                    o.insert(f.name.clone(), default_json(ir, &f.ty)?);
                } else {
                    for f in fields {
                        if f.ty.is_non_null() && f.default.is_none() {
                            o.insert(f.name.clone(), default_json(ir, &f.ty)?);
                        }
                    }
                }
                Some(J::Object(o))
            }
            _ => None,
        },
    }
}

/// A value for every declared variable whose type is an input type of the schema (so that a rejection
/// is about the document, never about missing variable values). `omit_defaulted`: leave out the
/// variables that declare a default value (the request then relies on the defaults).
fn supply(ir: &Schema, op: Option<&Operation>, omit_defaulted: bool) -> Map<String, J> {
    let mut m = Map::new();
    let Some(op) = op else { return m };
    for v in &op.vars {
        if m.contains_key(&v.name.s) || (omit_defaulted && v.default.is_some()) {
            continue;
        }
        if let Some(j) = default_json(ir, &v.ty) {
            if j.is_null() && v.ty.is_non_null() {
                continue;
            }
            m.insert(v.name.s.clone(), j);
        }
    }
    m
}

// ---------------------------------------------------------------------------------------------
// statistics

#[derive(Default)]
struct Stats {
    /// operator group → [valid agreed, invalid agreed, accepts-invalid, rejects-valid, documented extra]
    groups: Mutex<BTreeMap<String, [u64; 5]>>,
    /// reference rule → [rejected by the implementation too, accepted by the implementation]
    rules: Mutex<BTreeMap<String, [u64; 2]>>,
    /// accepted-invalid (rule, clause) → (cases, shortest witness)
    gaps: Mutex<BTreeMap<String, (u64, String)>>,
    agree_valid: AtomicU64,
    agree_invalid: AtomicU64,
    docs: AtomicU64,
    skipped_custom_scalar_literal: AtomicU64,
}

struct CaseIn<'a> {
    schema: &'static str,
    text: String,
    doc: ExecDoc,
    groups: Vec<&'static str>,
    /// operator blamed for a reference error: `attr` for the (rule, clause) pairs listed, else `operator`
    operator: String,
    attr: Option<(&'a BTreeSet<(String, String)>, String)>,
}

fn impl_rule_of(message: &str, stage: Stage) -> &'static str {
    if stage == Stage::ParseRejected {
        return "parser";
    }
    const T: &[(&str, &str)] = &[
        ("Unknown field", "FieldsOnCorrectType"),
        ("Unknown argument", "KnownArgumentNames"),
        ("Invalid value for argument", "ArgumentsOfCorrectType"),
        ("Invalid default value", "DefaultValuesOfCorrectType"),
        ("Unknown type", "KnownTypeNames"),
        ("Unknown fragment", "KnownFragmentNames"),
        ("Unknown directive", "KnownDirectives"),
        ("may not be used on", "KnownDirectives"),
        ("Duplicate directive", "DirectivesUnique"),
        ("cannot condition non composite", "FragmentsOnCompositeTypes"),
        ("Cannot spread fragment", "NoFragmentCycles"),
        ("is not defined", "NoUndefinedVariables"),
        ("is never used", "NoUnusedFragments"),
        ("is not used", "NoUnusedVariables"),
        ("conflict because", "OverlappingFieldsCanBeMerged"),
        ("cannot be spread here", "PossibleFragmentSpreads"),
        ("is required but not provided", "ProvidedNonNullArguments"),
        ("must not have a selection", "ScalarLeafs"),
        ("must have a selection", "ScalarLeafs"),
        ("only be one argument", "UniqueArgumentNames"),
        ("only be one variable", "UniqueVariableNames"),
        ("cannot be of non-input type", "VariablesAreInputTypes"),
        ("used in position expecting", "VariableInAllowedPosition"),
        ("Upload type is only allowed", "UploadFile"),
        ("is not configured for", "OperationTypeExistence"),
    ];
    T.iter().find(|(k, _)| message.contains(k)).map(|(_, r)| *r).unwrap_or("unknown")
}

/// A literal written for the custom scalar `Upload` (as a variable default or as an argument of the
/// two Upload-taking fields). What literals a custom scalar accepts is the scalar's own input coercion
/// (§3.5), which the reference does not model — such documents are not judged.
fn custom_scalar_literal(doc: &ExecDoc) -> bool {
    use agv_refgql::ast::{ExecDef, Selection, Value};
    fn lit(v: &Value) -> bool {
        !matches!(v, Value::Var(_) | Value::Null)
    }
    fn sel(s: &[Selection]) -> bool {
        s.iter().any(|x| match x {
            Selection::Field(f) => (["up", "upq"].contains(&f.name.s.as_str()) && f.args.iter().any(|(k, v)| k.s == "f" && lit(&v.v))) || sel(&f.sel),
            Selection::Inline(i) => sel(&i.sel),
            Selection::Spread(_) => false,
        })
    }
    doc.defs.iter().any(|d| match d {
        ExecDef::Op(o) => o.vars.iter().any(|v| v.ty.base() == "Upload" && v.default.as_ref().map(|d| lit(&d.v)).unwrap_or(false)) || sel(&o.sel),
        ExecDef::Frag(f) => sel(&f.sel),
    })
}

fn upload_outside_mutation(doc: &ExecDoc) -> bool {
    doc.ops().any(|o| o.kind != OpKind::Mutation && o.vars.iter().any(|v| v.ty.base() == "Upload"))
}

#[allow(clippy::too_many_arguments)]
fn judge(cx: &Cx, st: &Stats, case: &CaseIn, flavour: &str, vars_policy: &str, vars: &Map<String, J>, op_name: Option<&str>, stream: bool, refs: &[(VError, String)], ref_exec_clean: bool, o: &Observed) {
    let case_json = || json!({"schema": case.schema, "flavour": flavour, "query": case.text, "variables": J::Object(vars.clone()), "operation_name": op_name, "stream": stream});
    let ref_rules: BTreeSet<(String, String)> = refs.iter().map(|(e, c)| (e.rule.to_string(), c.clone())).collect();
    let ref_invalid = !refs.is_empty();
    let rejected = o.stage != Stage::Accepted;
    let blame = |rc: &(String, String)| -> String {
        match &case.attr {
            Some((parent, op1)) if parent.contains(rc) => op1.clone(),
            _ => case.operator.clone(),
        }
    };
    let rules_joined = || ref_rules.iter().map(|(r, _)| r.as_str()).collect::<BTreeSet<_>>().into_iter().collect::<Vec<_>>().join("+");
    if rejected {
        // every rejection: ≥ 1 error with ≥ 1 location; nothing ran; data null
        if o.errors.is_empty() || !o.errors.iter().any(|e| !e.locs.is_empty()) {
            cx.violation(
                Violation::new(
                    "rejection-without-location",
                    format!("the request was turned down at the {:?} stage but no error carries a source location: {:?}\n query: {}", o.stage, o.errors.iter().map(|e| (&e.message, &e.locs)).collect::<Vec<_>>(), case.text),
                    case_json(),
                )
                .key("stage", format!("{:?}", o.stage))
                .key("flavour", flavour)
                .key("operator", case.operator.clone())
                .key("rule", if ref_invalid { rules_joined() } else { "none".into() }),
            );
        }
        if !o.resolvers.is_empty() || o.data != "null" {
            cx.violation(
                Violation::new("rejected-but-executed", format!("rejected at the {:?} stage, yet resolvers ran {:?} / data = {}\n query: {}", o.stage, o.resolvers, o.data, case.text), case_json())
                    .key("flavour", flavour)
                    .key("operator", case.operator.clone()),
            );
        }
    }
    let slot: usize;
    match (ref_invalid, rejected) {
        (true, true) => {
            slot = 1;
            st.agree_invalid.fetch_add(1, Ordering::Relaxed);
            let mut g = st.rules.lock().unwrap();
            for r in ref_rules.iter().map(|(r, _)| r).collect::<BTreeSet<_>>() {
                g.entry(r.clone()).or_default()[0] += 1;
            }
        }
        (false, false) => {
            slot = 0;
            st.agree_valid.fetch_add(1, Ordering::Relaxed);
            // the reference executor (same variables, all-default world) says whether execution itself
            // may raise an error (e.g. §6.4.1: a null variable value at a non-null argument)
            if ref_exec_clean && (!o.errors.is_empty() || o.more_errors > 0) {
                cx.violation(
                    Violation::new(
                        "valid-accepted-then-fails",
                        format!("the reference finds the document valid, validation accepted it, execution (all-default world) reported {:?}\n query: {} variables: {}", o.errors.iter().map(|e| &e.message).collect::<Vec<_>>(), case.text, J::Object(vars.clone())),
                        case_json(),
                    )
                    .key("flavour", flavour)
                    .key("operator", case.operator.clone())
                    .key("vars", vars_policy),
                );
            }
        }
        (true, false) => {
            slot = 2;
            {
                let mut g = st.rules.lock().unwrap();
                for r in ref_rules.iter().map(|(r, _)| r).collect::<BTreeSet<_>>() {
                    g.entry(r.clone()).or_default()[1] += 1;
                }
            }
            let later = if o.errors.is_empty() { format!("executed without errors (resolvers run: {})", o.resolvers.len()) } else { format!("failed later, during execution: {:?}", o.errors.iter().map(|e| &e.message).collect::<Vec<_>>()) };
            for rc in &ref_rules {
                {
                    let mut g = st.gaps.lock().unwrap();
                    let e = g.entry(format!("{}[{}] vars={vars_policy}", rc.0, rc.1)).or_insert((0, String::new()));
                    e.0 += 1;
                    if e.1.is_empty() || (case.text.len(), &case.text) < (e.1.len(), &e.1) {
                        e.1 = case.text.clone();
                    }
                }
                let msg = refs.iter().find(|(e, c)| e.rule == rc.0 && *c == rc.1).map(|(e, _)| e.msg.clone()).unwrap_or_default();
                cx.violation(
                    Violation::new(
                        format!("accepts-invalid/{}", rc.0),
                        format!("spec-invalid document accepted by validation: {} [{}] ({msg}); it then {later}\n query: {} variables: {}", rc.0, rc.1, case.text, J::Object(vars.clone())),
                        case_json(),
                    )
                    .key("rule", rc.0.clone())
                    .key("clause", rc.1.rsplit_once('@').map(|(c, _)| c).unwrap_or(&rc.1).to_string())
                    .key("context", rc.1.rsplit_once('@').map(|(_, x)| x).unwrap_or("plain").to_string())
                    .key("operator", blame(rc))
                    .key("flavour", flavour)
                    .key("vars", vars_policy),
                );
            }
        }
        (false, true) => {
            if upload_outside_mutation(&case.doc) {
                // documented restriction: "The Upload type is only allowed to be defined on a mutation"
                slot = 4;
            } else {
                slot = 3;
                let r = o.errors.first().map(|e| impl_rule_of(&e.message, o.stage)).unwrap_or("unknown");
                cx.violation(
                    Violation::new(
                        format!("rejects-valid/{r}"),
                        format!("spec-valid document rejected at the {:?} stage: {:?}\n query: {} variables: {}", o.stage, o.errors.iter().map(|e| &e.message).collect::<Vec<_>>(), case.text, J::Object(vars.clone())),
                        case_json(),
                    )
                    .key("rule", r)
                    .key("operator", case.operator.clone())
                    .key("flavour", flavour)
                    .key("vars", vars_policy),
                );
            }
        }
    }
    let mut g = st.groups.lock().unwrap();
    for grp in &case.groups {
        g.entry(grp.to_string()).or_default()[slot] += 1;
    }
}

/// Evaluate one document on both flavours of its schema; returns (reference verdict invalid?, rule set).
fn evaluate(cx: &Cx, w: &World, st: &Stats, case: &CaseIn) -> BTreeSet<(String, String)> {
    let (ir, stat, dynm): (&Schema, &dyn Runner, &dyn Runner) = if case.schema == "S1" { (&w.ir1, &w.s1, &w.d1) } else { (&w.ir3, &w.s3, &w.d3) };
    if custom_scalar_literal(&case.doc) {
        st.skipped_custom_scalar_literal.fetch_add(1, Ordering::Relaxed);
        return validate_clauses(ir, &case.doc).into_iter().map(|(e, c)| (e.rule.to_string(), c)).collect();
    }
    let refs = validate_clauses(ir, &case.doc);
    st.docs.fetch_add(1, Ordering::Relaxed);
    let op = case.doc.ops().next();
    let op_name = op.and_then(|o| o.name.as_ref()).map(|n| n.s.clone());
    let stream = op.map(|o| o.kind == OpKind::Subscription).unwrap_or(false);
    let has_defaulted = op.map(|o| o.vars.iter().any(|v| v.default.is_some())).unwrap_or(false);
    let custom_directives = case.text.contains("@cd") || case.text.contains("@rp");
    for (flavour, runner) in [("static", stat), ("dynamic", dynm)] {
        if flavour == "dynamic" && custom_directives {
            continue; // the dynamic API has no executable custom directives
        }
        for omit in [false, true] {
            if omit && !has_defaulted {
                continue;
            }
            let vars = supply(ir, op, omit);
            let policy = if omit { "defaulted-omitted" } else { "all-supplied" };
            let ref_exec_clean = refs.is_empty() && {
                let tw = agv_refgql::exec::TableWorld::default();
                let r = agv_refgql::exec::execute(ir, &case.doc, op_name.as_deref(), &vars, &mut agv_refgql::exec::TableWorldRef { s: ir, w: &tw });
                r.request_error.is_none() && r.errors.is_empty()
            };
            cx.eval();
            match observe(runner, &case.text, op_name.as_deref(), &vars, stream) {
                Ok(o) => judge(cx, st, case, flavour, policy, &vars, op_name.as_deref(), stream, &refs, ref_exec_clean, &o),
                Err(e) if e.starts_with("panic: ") => cx.violation(
                    Violation::new("panic", format!("{e}\n query: {}", case.text), json!({"schema": case.schema, "flavour": flavour, "query": case.text, "variables": J::Object(vars.clone()), "operation_name": op_name, "stream": stream}))
                        .key("flavour", flavour)
                        .key("operator", case.operator.clone()),
                ),
                Err(e) => cx.machinery_error(format!("{e}: {}", case.text)),
            }
        }
    }
    if !refs.is_empty() {
        cx.nontrivial(agv_engine::hstr(&case.text));
    }
    let h = agv_engine::hstr(&case.text);
    cx.sample_with(h, || json!({"schema": case.schema, "operator": case.operator, "query": case.text, "reference": refs.iter().map(|(e, c)| format!("{}[{}]", e.rule, c)).collect::<Vec<_>>()}));
    refs.into_iter().map(|(e, c)| (e.rule.to_string(), c)).collect()
}

// ---------------------------------------------------------------------------------------------
// space (i)

fn small_scope(cx: &Cx, w: &World, st: &Stats) {
    let (nodes, deco, alias) = if cx.quick() { (3, 1, 2) } else { (4, 1, 2) };
    let mut total = 0u64;
    for kind in [OpKind::Query, OpKind::Mutation, OpKind::Subscription] {
        let cfg = small::SmallCfg { max_nodes: nodes, max_depth: 3, kind, named_fragments: 1 };
        let ecfg = ExploreCfg { bounds: [deco, alias, 0, 0], ..Default::default() };
        let stx = explore(
            &ecfg,
            &|ch: &mut Chooser| {
                let Some(doc) = small::gen(&w.ir1, &cfg, ch) else { return };
                let text = agv_refgql::print::exec_doc(&doc);
                let doc = match agv_refgql::parse::parse_exec(&text) {
                    Ok(d) => d,
                    Err(e) => return cx.machinery_error(format!("generator printed an unparsable document {text:?}: {}", e.msg)),
                };
                evaluate(cx, w, st, &CaseIn { schema: "S1", text, doc, groups: vec!["small-scope"], operator: "small-scope".into(), attr: None });
            },
            &|_, _| {},
        );
        if let Some(d) = stx.diverged {
            cx.machinery_error(d);
        }
        if stx.capped {
            cx.exhaustive(false);
        }
        total += stx.executions;
        cx.extra(&format!("small_scope_choice_sequences_{}", kind.word()), json!(stx.executions));
    }
    cx.extra("small_scope_bounds", json!({"nodes": nodes, "directive_decorations": deco, "alias_decorations": alias, "choice_sequences": total}));
}

// ---------------------------------------------------------------------------------------------
// space (ii)

struct Seen {
    shards: Vec<Mutex<HashSet<u64>>>,
}
impl Seen {
    fn new() -> Seen {
        Seen { shards: (0..64).map(|_| Mutex::new(HashSet::new())).collect() }
    }
    fn first(&self, h: u64) -> bool {
        self.shards[(h % 64) as usize].lock().unwrap().insert(h)
    }
}

fn reparse(cx: &Cx, d: &ExecDoc) -> Option<(String, ExecDoc)> {
    let text = agv_refgql::print::exec_doc(d);
    match agv_refgql::parse::parse_exec(&text) {
        Ok(doc) => Some((text, doc)),
        Err(e) => {
            cx.machinery_error(format!("an edit operator produced an unparsable document {text:?}: {}", e.msg));
            None
        }
    }
}

fn exemplar_edits(cx: &Cx, w: &World, st: &Stats) {
    let seen = Seen::new();
    let mut bases: Vec<(&'static str, ExecDoc)> = Vec::new();
    for (name, src) in edits::EXEMPLARS {
        let doc = match agv_refgql::parse::parse_exec(src) {
            Ok(d) => d,
            Err(e) => return cx.machinery_error(format!("exemplar {name} does not parse: {}", e.msg)),
        };
        let errs = validate_clauses(&w.ir3, &doc);
        if !errs.is_empty() {
            return cx.machinery_error(format!("exemplar {name} is not valid for the reference: {errs:?}"));
        }
        if let Some((text, d)) = reparse(cx, &doc) {
            seen.first(agv_engine::hstr(&text));
            evaluate(cx, w, st, &CaseIn { schema: "S3", text, doc: d, groups: vec!["exemplars"], operator: "exemplar".into(), attr: None });
        }
        bases.push((name, doc));
    }
    // tasks = (exemplar, operator, site)
    let mut tasks: Vec<(usize, edits::Op, usize)> = Vec::new();
    let mut op_names: BTreeSet<String> = BTreeSet::new();
    for (bi, (_, base)) in bases.iter().enumerate() {
        for op in edits::ops_for(base, false) {
            let n = op.sites(base, &w.ir3);
            if n > 0 {
                op_names.insert(op.name());
            }
            for s in 0..n {
                tasks.push((bi, op.clone(), s));
            }
        }
    }
    let pairs = !cx.quick();
    let singles = AtomicU64::new(0);
    let pair_docs = AtomicU64::new(0);
    tasks.par_iter().for_each(|(bi, op, site)| {
        let base = &bases[*bi].1;
        let d1 = op.at(base, &w.ir3, *site);
        let Some((text1, doc1)) = reparse(cx, &d1) else { return };
        let core_first = edits::ops_for(base, true).contains(op);
        let mut rules1: Option<BTreeSet<(String, String)>> = None;
        if seen.first(agv_engine::hstr(&text1)) {
            singles.fetch_add(1, Ordering::Relaxed);
            rules1 = Some(evaluate(cx, w, st, &CaseIn { schema: "S3", text: text1.clone(), doc: doc1.clone(), groups: vec![op.group()], operator: op.name(), attr: None }));
        }
        if pairs && core_first {
            let rules1 = rules1.unwrap_or_else(|| validate_clauses(&w.ir3, &doc1).into_iter().map(|(e, c)| (e.rule.to_string(), c)).collect());
            for op2 in edits::ops_for(&d1, true) {
                let n2 = op2.sites(&d1, &w.ir3);
                for s2 in 0..n2 {
                    let d2 = op2.at(&d1, &w.ir3, s2);
                    let Some((text2, doc2)) = reparse(cx, &d2) else { continue };
                    if !seen.first(agv_engine::hstr(&text2)) {
                        continue;
                    }
                    pair_docs.fetch_add(1, Ordering::Relaxed);
                    let mut groups = vec![op.group()];
                    if op2.group() != op.group() {
                        groups.push(op2.group());
                    }
                    evaluate(cx, w, st, &CaseIn { schema: "S3", text: text2, doc: doc2, groups, operator: op2.name(), attr: Some((&rules1, op.name())) });
                }
            }
        }
    });
    cx.extra(
        "exemplar_edits",
        json!({"exemplars": bases.len(), "operator_instances": op_names.len(), "single_edit_sites": tasks.len(), "distinct_single_edit_documents": singles.load(Ordering::Relaxed), "distinct_pair_documents": pair_docs.load(Ordering::Relaxed), "pairs": pairs}),
    );
}

// ---------------------------------------------------------------------------------------------

fn run(cx: &Cx) {
    let w = match build_world() {
        Ok(w) => w,
        Err(e) => return cx.machinery_error(e),
    };
    cx.exhaustive(true);
    let st = Stats::default();
    let only = std::env::var("C09_ONLY").unwrap_or_default();
    if only != "edits" {
        small_scope(cx, &w, &st);
    }
    if only != "small" {
        exemplar_edits(cx, &w, &st);
    }
    let (av, ai) = (st.agree_valid.load(Ordering::Relaxed), st.agree_invalid.load(Ordering::Relaxed));
    if av == 0 || ai == 0 {
        cx.machinery_error(format!("reference and implementation never agreed on a valid ({av}) or on an invalid ({ai}) document: vacuous or systematically wrong"));
    }
    let groups = st.groups.lock().unwrap();
    cx.extra(
        "by_operator_group",
        J::Object(groups.iter().map(|(k, v)| (k.clone(), json!({"valid_agreed": v[0], "invalid_agreed": v[1], "accepts_invalid": v[2], "rejects_valid": v[3], "documented_extra": v[4]}))).collect()),
    );
    cx.extra("by_reference_rule", J::Object(st.rules.lock().unwrap().iter().map(|(k, v)| (k.clone(), json!({"rejected_by_both": v[0], "accepted_by_implementation": v[1]}))).collect()));
    cx.extra("accepted_invalid_by_rule_clause", J::Object(st.gaps.lock().unwrap().iter().map(|(k, v)| (k.clone(), json!({"cases": v.0, "smallest": v.1}))).collect()));
    cx.extra("documents", json!(st.docs.load(Ordering::Relaxed)));
    cx.extra("not_judged_custom_scalar_literal", json!(st.skipped_custom_scalar_literal.load(Ordering::Relaxed)));
    cx.extra("evaluations_agreed_valid", json!(av));
    cx.extra("evaluations_agreed_invalid", json!(ai));
    cx.rule("case = (document, supplied variables, schema flavour). (i) every document with ≤ N selection nodes over S1's alphabet {valid fields per type, unknown field zz, __typename, inline fragments on none/A/B/I/U/Query/E(non-composite)/Zz(unknown), spreads of F0 (defined with every condition) and Fx (never defined), leaf-with-selection, composite-without-selection}, query/mutation/subscription, ≤ k directive decorations from {@include(if:true), @nope, @deprecated, @skip, @skip(if:1), repeated @include; on the operation @skip/@nope; on the fragment definition @include/@nope} and ≤ 2 aliases; (ii) 14 valid exemplars over S3 × every operator instance at every applicable site (thorough: every pair of the ~50 core operators). Variables: a value of the declared type for every declared variable (second run with the defaulted ones omitted). Non-trivial = distinct documents on which the reference validator reports ≥ 1 error.");
    cx.assume("the reference validator agv-refgql (October 2021 §5 + the OneOf input object rule; bound to the spec by unit tests of the spec's examples) is the oracle; error messages and error order are never compared");
    cx.assume("stage verdicts are observed through the public Extension API (parse_query / validation hooks); resolver invocations through the harness schemas' log");
    cx.assume("documented restriction allowed: Upload variables outside mutations may be rejected; introspection entry points, complexity/depth limits are not exercised");
    cx.assume("documents that write a literal for the custom scalar Upload are not judged (a custom scalar defines its own literal coercion)");
    cx.assume("'what both accept executes without errors' is demanded only where the reference executor (same variables, all-default world) raises no error itself");
    cx.assume("the dynamic twins have no executable custom directives; documents using @cd/@rp run on the derive-built flavour only");
}

fn replay(case: &J) -> String {
    let w = match build_world() {
        Ok(w) => w,
        Err(e) => return e,
    };
    let text = case["query"].as_str().unwrap_or("");
    let s1 = case["schema"].as_str() == Some("S1");
    let dynamic = case["flavour"].as_str() == Some("dynamic");
    let ir = if s1 { &w.ir1 } else { &w.ir3 };
    let runner: &dyn Runner = match (s1, dynamic) {
        (true, false) => &w.s1,
        (true, true) => &w.d1,
        (false, false) => &w.s3,
        (false, true) => &w.d3,
    };
    let doc = match agv_refgql::parse::parse_exec(text) {
        Ok(d) => d,
        Err(e) => return format!("document does not parse (reference): {}", e.msg),
    };
    let refs = validate_clauses(ir, &doc);
    let vars = case["variables"].as_object().cloned().unwrap_or_default();
    let o = observe(runner, text, case["operation_name"].as_str(), &vars, case["stream"].as_bool().unwrap_or(false));
    format!(
        "\n query: {text}\n variables: {}\n reference: {}\n implementation: {}",
        J::Object(vars.clone()),
        if refs.is_empty() { "valid".to_string() } else { refs.iter().map(|(e, c)| format!("{}[{}] {} at {}:{}", e.rule, c, e.msg, e.pos.line, e.pos.col)).collect::<Vec<_>>().join("; ") },
        match o {
            Ok(o) => o.to_json().to_string(),
            Err(e) => e,
        }
    )
}

fn main() {
    agv_engine::driver::main("C09", "exploration", run, Some(replay))
}
