//! S3 "args": the derive-built harness schema with argument-taking fields (every argument shape the
//! §5.4–§5.8 rules distinguish: nullable / required / required-with-default, every built-in scalar,
//! enum, lists at two depths, input objects incl. a recursive one, a @oneOf input object, two custom
//! field directives, an Upload argument on a query and on a mutation field), plus an interface and a
//! union over two object types whose same-named and differently-shaped fields feed the field-merging
//! operators. Every resolver logs `S:<path>` into the request's `Wd` and returns its default.

use agv_common::s1::{enter, W};
use async_graphql::*;
use futures_util::stream::{self, Stream};

pub const SDL: &str = r#"
directive @cd(p: Int!) on FIELD
directive @rp repeatable on FIELD
scalar Upload
type Query {
  i(x: Int): Int
  nn(n: Int!): Int
  d(n: Int! = 5): Int
  s(x: String): Int
  f(x: Float): Int
  b(x: Boolean): Int
  id(x: ID): Int
  e(x: E): Int
  l(x: [Int]): Int
  lnn(x: [Int!]!): Int
  ll(x: [[Int]]): Int
  io(x: In): Int
  lio(x: [In!]): Int
  one(x: One): Int
  two(a: Int, b: Int): Int
  upq(f: Upload): Int
  num: Int
  nnum: Int!
  str: String
  nums: [Int]
  t: T
  n: N
  u: TU
}
interface N { i(x: Int): Int  num: Int  t: T }
type T implements N { i(x: Int): Int  num: Int  t: T  s(x: String): Int  str: String  nnum: Int!  nums: [Int]  ts: [T] }
type V implements N { i(x: Int): Int  num: Int  t: T  s(x: String): Int  str: String  v: V }
union TU = T | V
enum E { X Y }
input In { r: Int!  n: Int  d: Int! = 7  sub: In  l: [Int!]  e: E }
input One @oneOf { a: Int  b: String }
type Mutation { set(x: Int): Int  up(f: Upload): Int }
type Subscription { tick(n: Int): Int  tock: Int }
"#;

#[derive(Enum, Copy, Clone, Eq, PartialEq, Debug)]
#[graphql(name = "E")]
pub enum E3 {
    X,
    Y,
}

#[derive(InputObject)]
#[graphql(name = "In")]
pub struct In3 {
    pub r: i32,
    pub n: Option<i32>,
    #[graphql(default = 7)]
    pub d: i32,
    pub sub: Option<Box<In3>>,
    pub l: Option<Vec<i32>>,
    pub e: Option<E3>,
}

#[derive(OneofObject)]
#[graphql(name = "One")]
pub enum One3 {
    A(i32),
    B(String),
}

pub struct Pass;
#[async_trait::async_trait]
impl CustomDirective for Pass {}

#[Directive(location = "Field")]
pub fn cd(p: i32) -> impl CustomDirective {
    let _ = p;
    Pass
}

#[Directive(location = "Field", repeatable)]
pub fn rp() -> impl CustomDirective {
    Pass
}

async fn one(ctx: &Context<'_>) -> Option<i32> {
    enter(ctx).await;
    Some(1)
}

pub struct T3;
pub struct V3;

#[derive(Interface)]
#[graphql(name = "N", field(name = "i", ty = "Option<i32>", arg(name = "x", ty = "Option<i32>")), field(name = "num", ty = "Option<i32>"), field(name = "t", ty = "Option<T3>"))]
pub enum N3 {
    T(T3),
    V(V3),
}

#[derive(Union)]
#[graphql(name = "TU")]
pub enum TU3 {
    T(T3),
    V(V3),
}

#[Object(name = "T")]
impl T3 {
    async fn i(&self, ctx: &Context<'_>, x: Option<i32>) -> Option<i32> {
        let _ = x;
        one(ctx).await
    }
    async fn num(&self, ctx: &Context<'_>) -> Option<i32> {
        one(ctx).await
    }
    async fn t(&self, ctx: &Context<'_>) -> Option<T3> {
        enter(ctx).await;
        Some(T3)
    }
    async fn s(&self, ctx: &Context<'_>, x: Option<String>) -> Option<i32> {
        let _ = x;
        one(ctx).await
    }
    async fn str(&self, ctx: &Context<'_>) -> Option<String> {
        enter(ctx).await;
        Some("x".into())
    }
    async fn nnum(&self, ctx: &Context<'_>) -> i32 {
        enter(ctx).await;
        1
    }
    async fn nums(&self, ctx: &Context<'_>) -> Option<Vec<Option<i32>>> {
        enter(ctx).await;
        Some(vec![Some(1)])
    }
    async fn ts(&self, ctx: &Context<'_>) -> Option<Vec<Option<T3>>> {
        enter(ctx).await;
        Some(vec![Some(T3)])
    }
}

#[Object(name = "V")]
impl V3 {
    async fn i(&self, ctx: &Context<'_>, x: Option<i32>) -> Option<i32> {
        let _ = x;
        one(ctx).await
    }
    async fn num(&self, ctx: &Context<'_>) -> Option<i32> {
        one(ctx).await
    }
    async fn t(&self, ctx: &Context<'_>) -> Option<T3> {
        enter(ctx).await;
        Some(T3)
    }
    async fn s(&self, ctx: &Context<'_>, x: Option<String>) -> Option<i32> {
        let _ = x;
        one(ctx).await
    }
    async fn str(&self, ctx: &Context<'_>) -> Option<String> {
        enter(ctx).await;
        Some("x".into())
    }
    async fn v(&self, ctx: &Context<'_>) -> Option<V3> {
        enter(ctx).await;
        Some(V3)
    }
}

pub struct Query3;

#[Object(name = "Query")]
impl Query3 {
    async fn i(&self, ctx: &Context<'_>, x: Option<i32>) -> Option<i32> {
        let _ = x;
        one(ctx).await
    }
    async fn nn(&self, ctx: &Context<'_>, n: i32) -> Option<i32> {
        let _ = n;
        one(ctx).await
    }
    async fn d(&self, ctx: &Context<'_>, #[graphql(default = 5)] n: i32) -> Option<i32> {
        let _ = n;
        one(ctx).await
    }
    async fn s(&self, ctx: &Context<'_>, x: Option<String>) -> Option<i32> {
        let _ = x;
        one(ctx).await
    }
    async fn f(&self, ctx: &Context<'_>, x: Option<f64>) -> Option<i32> {
        let _ = x;
        one(ctx).await
    }
    async fn b(&self, ctx: &Context<'_>, x: Option<bool>) -> Option<i32> {
        let _ = x;
        one(ctx).await
    }
    async fn id(&self, ctx: &Context<'_>, x: Option<ID>) -> Option<i32> {
        let _ = x;
        one(ctx).await
    }
    async fn e(&self, ctx: &Context<'_>, x: Option<E3>) -> Option<i32> {
        let _ = x;
        one(ctx).await
    }
    async fn l(&self, ctx: &Context<'_>, x: Option<Vec<Option<i32>>>) -> Option<i32> {
        let _ = x;
        one(ctx).await
    }
    async fn lnn(&self, ctx: &Context<'_>, x: Vec<i32>) -> Option<i32> {
        let _ = x;
        one(ctx).await
    }
    async fn ll(&self, ctx: &Context<'_>, x: Option<Vec<Option<Vec<Option<i32>>>>>) -> Option<i32> {
        let _ = x;
        one(ctx).await
    }
    async fn io(&self, ctx: &Context<'_>, x: Option<In3>) -> Option<i32> {
        let _ = x;
        one(ctx).await
    }
    async fn lio(&self, ctx: &Context<'_>, x: Option<Vec<In3>>) -> Option<i32> {
        let _ = x;
        one(ctx).await
    }
    async fn one(&self, ctx: &Context<'_>, x: Option<One3>) -> Option<i32> {
        let _ = x;
        one(ctx).await
    }
    async fn two(&self, ctx: &Context<'_>, a: Option<i32>, b: Option<i32>) -> Option<i32> {
        let _ = (a, b);
        one(ctx).await
    }
    async fn upq(&self, ctx: &Context<'_>, f: Option<Upload>) -> Option<i32> {
        let _ = f;
        one(ctx).await
    }
    async fn num(&self, ctx: &Context<'_>) -> Option<i32> {
        one(ctx).await
    }
    async fn nnum(&self, ctx: &Context<'_>) -> i32 {
        enter(ctx).await;
        1
    }
    async fn str(&self, ctx: &Context<'_>) -> Option<String> {
        enter(ctx).await;
        Some("x".into())
    }
    async fn nums(&self, ctx: &Context<'_>) -> Option<Vec<Option<i32>>> {
        enter(ctx).await;
        Some(vec![Some(1)])
    }
    async fn t(&self, ctx: &Context<'_>) -> Option<T3> {
        enter(ctx).await;
        Some(T3)
    }
    async fn n(&self, ctx: &Context<'_>) -> Option<N3> {
        enter(ctx).await;
        Some(N3::T(T3))
    }
    async fn u(&self, ctx: &Context<'_>) -> Option<TU3> {
        enter(ctx).await;
        Some(TU3::T(T3))
    }
}

pub struct Mutation3;

#[Object(name = "Mutation")]
impl Mutation3 {
    async fn set(&self, ctx: &Context<'_>, x: Option<i32>) -> Option<i32> {
        let _ = x;
        one(ctx).await
    }
    async fn up(&self, ctx: &Context<'_>, f: Option<Upload>) -> Option<i32> {
        let _ = f;
        one(ctx).await
    }
}

pub struct Subscription3;

#[Subscription(name = "Subscription")]
impl Subscription3 {
    async fn tick(&self, ctx: &Context<'_>, n: Option<i32>) -> impl Stream<Item = Option<i32>> {
        let _ = n;
        ctx.data_unchecked::<W>().log("S:tick".to_string());
        stream::iter(vec![Some(1)])
    }
    async fn tock(&self, ctx: &Context<'_>) -> impl Stream<Item = Option<i32>> {
        ctx.data_unchecked::<W>().log("S:tock".to_string());
        stream::iter(vec![Some(1)])
    }
}

pub type S3 = Schema<Query3, Mutation3, Subscription3>;

pub fn builder() -> SchemaBuilder<Query3, Mutation3, Subscription3> {
    Schema::build(Query3, Mutation3, Subscription3).directive(cd).directive(rp)
}
