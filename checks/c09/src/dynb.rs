//! D(ir): turns a reference IR into an `async_graphql::dynamic::Schema` with logging resolvers that
//! answer the default value of their type — the dynamic twin of a derive-built harness schema.

use agv_common::s1::W;
use agv_refgql::ast::{Type, Value as RV};
use agv_refgql::schema::{Arg, FieldT, Kind, Schema};
use async_graphql::dynamic as dy;
use async_graphql::{Name, Value};
use futures_util::stream;

#[derive(Clone, Debug)]
enum Dv {
    Int,
    Float,
    Str,
    Bool,
    Enum(String),
    Obj(Option<String>),
    List(Box<Dv>),
}

fn dv(ir: &Schema, ty: &Type) -> Dv {
    match ty {
        Type::NonNull(t) => dv(ir, t),
        Type::List(t) => Dv::List(Box::new(dv(ir, t))),
        Type::Named(n) => match ir.ty(n).map(|t| &t.kind) {
            Some(Kind::Scalar) => match n.as_str() {
                "Int" => Dv::Int,
                "Float" => Dv::Float,
                "Boolean" => Dv::Bool,
                _ => Dv::Str,
            },
            Some(Kind::Enum { values }) => Dv::Enum(values[0].0.clone()),
            Some(Kind::Object { .. }) => Dv::Obj(None),
            Some(Kind::Interface { .. } | Kind::Union { .. }) => Dv::Obj(ir.possible_types(n).first().cloned()),
            _ => Dv::Str,
        },
    }
}

fn fv(d: &Dv) -> dy::FieldValue<'static> {
    match d {
        Dv::Int => dy::FieldValue::value(1),
        Dv::Float => dy::FieldValue::value(1.5),
        Dv::Str => dy::FieldValue::value("x"),
        Dv::Bool => dy::FieldValue::value(true),
        Dv::Enum(e) => dy::FieldValue::value(Value::Enum(Name::new(e))),
        Dv::Obj(None) => dy::FieldValue::owned_any(0u8),
        Dv::Obj(Some(t)) => dy::FieldValue::owned_any(0u8).with_type(t.clone()),
        Dv::List(i) => dy::FieldValue::list(vec![fv(i)]),
    }
}

fn tref(t: &Type) -> dy::TypeRef {
    match t {
        Type::Named(n) => dy::TypeRef::Named(n.clone().into()),
        Type::List(t) => dy::TypeRef::List(Box::new(tref(t))),
        Type::NonNull(t) => dy::TypeRef::NonNull(Box::new(tref(t))),
    }
}

fn cval(v: &RV) -> Value {
    match v {
        RV::Var(_) | RV::Null => Value::Null,
        RV::Int(t) => t.parse::<i64>().map(Value::from).unwrap_or(Value::Null),
        RV::Float(t) => t.parse::<f64>().map(Value::from).unwrap_or(Value::Null),
        RV::Str(s) => Value::String(s.clone()),
        RV::Bool(b) => Value::Boolean(*b),
        RV::Enum(e) => Value::Enum(Name::new(e)),
        RV::List(l) => Value::List(l.iter().map(|x| cval(&x.v)).collect()),
        RV::Object(o) => Value::Object(o.iter().map(|(k, x)| (Name::new(&k.s), cval(&x.v))).collect()),
    }
}

fn input_value(a: &Arg) -> dy::InputValue {
    let iv = dy::InputValue::new(a.name.clone(), tref(&a.ty));
    match &a.default {
        Some(d) => iv.default_value(cval(d)),
        None => iv,
    }
}

fn field(ir: &Schema, f: &FieldT) -> dy::Field {
    let d = dv(ir, &f.ty);
    let mut fld = dy::Field::new(f.name.clone(), tref(&f.ty), move |ctx| {
        let d = d.clone();
        dy::FieldFuture::new(async move {
            if let Some(w) = ctx.data_opt::<W>() {
                w.log(format!("S:{}", ctx.path_node.map(|p| p.to_string()).unwrap_or_default()));
            }
            Ok(Some(fv(&d)))
        })
    });
    for a in &f.args {
        fld = fld.argument(input_value(a));
    }
    fld
}

pub fn build(ir: &Schema) -> Result<dy::Schema, String> {
    let sub_root = ir.subscription.clone();
    let mut b = dy::Schema::build(&ir.query, ir.mutation.as_deref(), ir.subscription.as_deref()).extension(crate::obs::VObs);
    for (name, t) in &ir.types {
        if agv_refgql::schema::BUILTIN_SCALARS.contains(&name.as_str()) {
            continue;
        }
        match &t.kind {
            Kind::Scalar => {
                if name == "Upload" {
                    b = b.enable_uploading();
                } else {
                    b = b.register(dy::Scalar::new(name.clone()));
                }
            }
            Kind::Enum { values } => {
                let mut e = dy::Enum::new(name.clone());
                for (v, _, _) in values {
                    e = e.item(dy::EnumItem::new(v.clone()));
                }
                b = b.register(e);
            }
            Kind::Input { fields, one_of } => {
                let mut io = dy::InputObject::new(name.clone());
                for f in fields {
                    io = io.field(input_value(f));
                }
                if *one_of {
                    io = io.oneof();
                }
                b = b.register(io);
            }
            Kind::Union { members } => {
                let mut u = dy::Union::new(name.clone());
                for m in members {
                    u = u.possible_type(m.clone());
                }
                b = b.register(u);
            }
            Kind::Interface { interfaces, fields } => {
                let mut i = dy::Interface::new(name.clone());
                for f in fields {
                    let mut ifd = dy::InterfaceField::new(f.name.clone(), tref(&f.ty));
                    for a in &f.args {
                        ifd = ifd.argument(input_value(a));
                    }
                    i = i.field(ifd);
                }
                for x in interfaces {
                    i = i.implement(x.clone());
                }
                b = b.register(i);
            }
            Kind::Object { interfaces, fields } => {
                if Some(name) == sub_root.as_ref() {
                    let mut s = dy::Subscription::new(name.clone());
                    for f in fields {
                        let d = dv(ir, &f.ty);
                        let fname = f.name.clone();
                        let mut sf = dy::SubscriptionField::new(f.name.clone(), tref(&f.ty), move |ctx| {
                            let d = d.clone();
                            let fname = fname.clone();
                            dy::SubscriptionFieldFuture::new(async move {
                                if let Some(w) = ctx.data_opt::<W>() {
                                    w.log(format!("S:{fname}"));
                                }
                                Ok(stream::iter(vec![Ok(fv(&d))]))
                            })
                        });
                        for a in &f.args {
                            sf = sf.argument(input_value(a));
                        }
                        s = s.field(sf);
                    }
                    b = b.register(s);
                } else {
                    let mut o = dy::Object::new(name.clone());
                    for f in fields {
                        o = o.field(field(ir, f));
                    }
                    for x in interfaces {
                        o = o.implement(x.clone());
                    }
                    b = b.register(o);
                }
            }
        }
    }
    b.finish().map_err(|e| format!("dynamic twin does not build: {e}"))
}
