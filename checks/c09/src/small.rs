//! Space (i): every document — valid or not — with at most N selection nodes over an alphabet of S1
//! that contains, besides valid material, one unknown field (`zz`), one unknown type condition (`Zz`),
//! one non-composite type condition (`E`), one never-defined fragment (`Fx`), one unknown directive
//! (`@nope`), one misplaced directive (`@deprecated` on selections, `@skip` on the operation,
//! `@include` on a fragment definition), leaf fields with a selection set and composite fields
//! without one. Structure is exhaustive; aliases and directives are bounded deviations.

use agv_engine::explore::{Chooser, Class};
use agv_refgql::ast::*;
use agv_refgql::schema::Schema;

pub struct SmallCfg {
    pub max_nodes: usize,
    pub max_depth: usize,
    pub kind: OpKind,
    pub named_fragments: usize,
}

pub const CONDS: &[&str] = &["A", "B", "I", "U", "Query", "E", "Zz"];

fn alphabet(ctx: Option<&str>) -> &'static [&'static str] {
    match ctx {
        Some("Query") => &["a", "n", "o", "i", "u", "zz"],
        Some("Mutation") => &["inc", "mn", "m", "zz"],
        Some("Subscription") => &["evn", "evnn", "ev", "zz"],
        Some("A") => &["a", "pa", "o"],
        Some("B") => &["a", "pb"],
        Some("C") => &["a", "pc"],
        Some("I") => &["a", "n", "pa"],
        Some("J") => &["a"],
        Some("U") => &["a"],
        _ => &["a"],
    }
}

fn pn(s: &str) -> PName {
    PName::new(s)
}
fn dir(name: &str, args: Vec<(&str, Value)>) -> Directive {
    Directive { name: pn(name), args: args.into_iter().map(|(k, v)| (pn(k), PValue::new(v))).collect(), pos: Pos::default() }
}

struct G<'a, 'c> {
    ir: &'a Schema,
    cfg: &'a SmallCfg,
    ch: &'c mut Chooser,
    budget: usize,
    frags_used: Vec<usize>,
}

impl<'a, 'c> G<'a, 'c> {
    fn sel_directive(&mut self) -> Vec<Directive> {
        match self.ch.pick(Class::Dev(0), "directive", 7) {
            1 => vec![dir("include", vec![("if", Value::Bool(true))])],
            2 => vec![dir("nope", vec![])],
            3 => vec![dir("deprecated", vec![])],
            4 => vec![dir("skip", vec![])],
            5 => vec![dir("skip", vec![("if", Value::Int("1".into()))])],
            6 => vec![dir("include", vec![("if", Value::Bool(true))]), dir("include", vec![("if", Value::Bool(true))])],
            _ => vec![],
        }
    }

    fn sel(&mut self, ctx: Option<&str>, depth: usize) -> Vec<Selection> {
        #[derive(Clone)]
        enum M {
            Stop,
            Field(&'static str),
            Typename,
            Inline(Option<&'static str>),
            Spread(usize),
            SpreadUnknown,
        }
        let mut out: Vec<Selection> = Vec::new();
        while self.budget > 0 {
            let mut menu: Vec<M> = Vec::new();
            if !out.is_empty() {
                menu.push(M::Stop);
            }
            for f in alphabet(ctx) {
                menu.push(M::Field(f));
            }
            menu.push(M::Typename);
            let can_nest = self.budget >= 2 && depth < self.cfg.max_depth;
            if can_nest {
                menu.push(M::Inline(None));
                for c in CONDS {
                    menu.push(M::Inline(Some(c)));
                }
            }
            for k in 0..self.cfg.named_fragments {
                menu.push(M::Spread(k));
            }
            menu.push(M::SpreadUnknown);
            let k = self.ch.any("node", menu.len());
            match menu[k].clone() {
                M::Stop => break,
                M::Field(f) => {
                    self.budget -= 1;
                    let fd = ctx.and_then(|c| self.ir.field(c, f)).cloned();
                    let composite = fd.as_ref().map(|fd| self.ir.is_composite(fd.ty.base())).unwrap_or(false);
                    let alias = match self.ch.pick(Class::Dev(1), "alias", 3) {
                        1 => Some(pn("k")),
                        2 => Some(pn(alphabet(ctx).iter().find(|x| **x != f).copied().unwrap_or("k"))),
                        _ => None,
                    };
                    let directives = self.sel_directive();
                    let can_sub = self.budget >= 1 && depth < self.cfg.max_depth;
                    // natural = a composite field has a selection set, a leaf (or unknown) field has none;
                    // the other way round is part of the alphabet
                    let with_sel = if can_sub { (self.ch.any("flip-selection", 2) == 1) != composite } else { false };
                    let sub = if with_sel {
                        let child = if composite { fd.as_ref().map(|fd| fd.ty.base().to_string()) } else { None };
                        self.sel(child.as_deref(), depth + 1)
                    } else {
                        vec![]
                    };
                    out.push(Selection::Field(Field { alias, name: pn(f), args: vec![], directives, sel: sub, pos: Pos::default() }));
                }
                M::Typename => {
                    self.budget -= 1;
                    let alias = if self.ch.pick(Class::Dev(1), "alias", 2) == 1 { Some(pn("a")) } else { None };
                    let directives = self.sel_directive();
                    let can_sub = self.budget >= 1 && depth < self.cfg.max_depth;
                    let sub = if can_sub && self.ch.any("flip-selection", 2) == 1 { self.sel(None, depth + 1) } else { vec![] };
                    out.push(Selection::Field(Field { alias, name: pn("__typename"), args: vec![], directives, sel: sub, pos: Pos::default() }));
                }
                M::Inline(cond) => {
                    self.budget -= 1;
                    let directives = self.sel_directive();
                    let inner: Option<String> = match cond {
                        Some(c) => {
                            if self.ir.is_composite(c) {
                                Some(c.to_string())
                            } else {
                                None
                            }
                        }
                        None => ctx.map(|c| c.to_string()),
                    };
                    let sub = self.sel(inner.as_deref(), depth + 1);
                    out.push(Selection::Inline(Inline { cond: cond.map(pn), directives, sel: sub, pos: Pos::default() }));
                }
                M::Spread(k) => {
                    self.budget -= 1;
                    if !self.frags_used.contains(&k) {
                        self.frags_used.push(k);
                    }
                    let directives = self.sel_directive();
                    out.push(Selection::Spread(Spread { name: pn(&format!("F{k}")), directives, pos: Pos::default() }));
                }
                M::SpreadUnknown => {
                    self.budget -= 1;
                    out.push(Selection::Spread(Spread { name: pn("Fx"), directives: vec![], pos: Pos::default() }));
                }
            }
        }
        out
    }
}

/// One document from the chooser; `None` = the node budget ran out before the document was complete.
pub fn gen(ir: &Schema, cfg: &SmallCfg, ch: &mut Chooser) -> Option<ExecDoc> {
    let root = ir.root(cfg.kind)?.to_string();
    let mut g = G { ir, cfg, ch, budget: cfg.max_nodes, frags_used: vec![] };
    let op_directives = match g.ch.pick(Class::Dev(0), "op-directive", 3) {
        1 => vec![dir("skip", vec![("if", Value::Bool(true))])],
        2 => vec![dir("nope", vec![])],
        _ => vec![],
    };
    let sel = g.sel(Some(&root), 0);
    if sel.is_empty() {
        return None;
    }
    let mut frag_defs = Vec::new();
    let mut i = 0;
    while i < g.frags_used.len() {
        let k = g.frags_used[i];
        i += 1;
        if g.budget == 0 {
            return None;
        }
        let c = CONDS[g.ch.any("fragment-cond", CONDS.len())];
        let directives = match g.ch.pick(Class::Dev(0), "fragment-directive", 3) {
            1 => vec![dir("include", vec![("if", Value::Bool(true))])],
            2 => vec![dir("nope", vec![])],
            _ => vec![],
        };
        let inner = if ir.is_composite(c) { Some(c) } else { None };
        let body = g.sel(inner, 1);
        if body.is_empty() {
            return None;
        }
        frag_defs.push(ExecDef::Frag(Fragment { name: pn(&format!("F{k}")), cond: pn(c), directives, sel: body, pos: Pos::default() }));
    }
    // an inline fragment or nested field that was promised a selection but got none is not a document
    fn has_empty_inline(sel: &[Selection]) -> bool {
        sel.iter().any(|s| match s {
            Selection::Inline(i) => i.sel.is_empty() || has_empty_inline(&i.sel),
            Selection::Field(f) => has_empty_inline(&f.sel),
            Selection::Spread(_) => false,
        })
    }
    if has_empty_inline(&sel) || frag_defs.iter().any(|d| matches!(d, ExecDef::Frag(f) if has_empty_inline(&f.sel))) {
        return None;
    }
    let shorthand = cfg.kind == OpKind::Query && op_directives.is_empty();
    let mut defs = vec![ExecDef::Op(Operation { kind: cfg.kind, shorthand, name: None, vars: vec![], directives: op_directives, sel, pos: Pos::default() })];
    defs.extend(frag_defs);
    Some(ExecDoc { defs })
}
