//! Space (ii): valid exemplar documents over S3 and the rule-targeted edit operators, each applicable
//! at every site of its kind (a site is addressed by its ordinal in document order).

use agv_refgql::ast::*;
use agv_refgql::parse::{parse_exec, parse_value};
use agv_refgql::schema::Schema;

/// (name, document, operation to run) — all valid for S3 by construction (asserted at start-up).
pub const EXEMPLARS: &[(&str, &str)] = &[
    ("args-scalars", r#"{ i(x: 1) nn(n: 1) d s(x: "a") f(x: 1.5) b(x: true) id(x: "a") e(x: X) two(a: 1, b: 2) }"#),
    ("args-lists-objects", r#"{ l(x: [1, 2]) lnn(x: [1]) ll(x: [[1], [2]]) io(x: {r: 1, n: 2, sub: {r: 3, l: [4]}, e: Y}) lio(x: [{r: 1}, {r: 2, l: [5]}]) one(x: {a: 1}) }"#),
    ("variables", r#"query Q($i: Int, $n: Int!, $s: String, $li: [Int], $lnn: [Int!]!, $in: In, $e: E) { i(x: $i) nn(n: $n) s(x: $s) l(x: $li) l2: l(x: [$i, 1]) lnn(x: $lnn) l3: lnn(x: [$n]) io(x: $in) io2: io(x: {r: $n, n: $i, l: [$n]}) e(x: $e) }"#),
    ("variable-defaults", r#"query Q($a: Int = 1, $b: Int, $c: Int! = 2, $o: One, $m: Int!) { nn(n: $a) d(n: $b) i(x: $c) one(x: {a: $m}) o2: one(x: $o) lio(x: {r: $m}) l(x: [$a, 1]) io(x: {r: $c, n: 1}) }"#),
    ("fragments", r#"query Q { t { ...F } n { ...G ... on V { v { num } } } u { ... on T { num } ...G } } fragment F on T { num t { ...H } } fragment H on T { str } fragment G on N { num i(x: 1) }"#),
    ("merge-direct", r#"{ num num k: num k: num i(x: 1) i(x: 1) t { num } t { num str } }"#),
    ("merge-conditions", r#"{ n { num ... on T { num k: str } ... on V { num k: str } ... on N { num } ... { num } } u { ... on T { k: num j: i(x: 1) t { num } } ... on V { k: num j: i(x: 2) t { str } } } }"#),
    ("directives", r#"query Q($b: Boolean!) { num @skip(if: true) str @include(if: $b) t @cd(p: 1) { num @rp @rp } ... @include(if: true) { nnum } ...F @skip(if: false) } fragment F on Query { nums }"#),
    ("subscription", r#"subscription S($n: Int) { tick(n: $n) }"#),
    ("mutation", r#"mutation M($x: Int) { set(x: $x) }"#),
    ("two-operations", r#"query A { num } query B { str }"#),
    ("typename", r#"{ __typename t { __typename num } u { __typename } }"#),
    ("upload-mutation", r#"mutation M($f: Upload) { up(f: $f) }"#),
    ("upload-query", r#"query Q($f: Upload) { upq(f: $f) }"#),
];

pub const LITS: &[&str] = &[r#""x""#, "2", "1.5", "true", "Y", "Z", "null", "[2]", "[]", "[null]", "[[2]]", "{}", "{r: 2}", "{a: 2}", "2147483648", r#""X""#];
pub const VAR_TYPES: &[&str] =
    &["Int", "Int!", "[Int]", "[Int!]", "[Int]!", "[Int!]!", "[[Int]]", "String", "Boolean", "Boolean!", "Float", "ID", "E", "In", "In!", "One", "[In!]", "T", "[T]", "Zz", "N", "TU", "Upload"];
pub const VAR_DEFAULTS: &[&str] = &["1", r#""x""#, "null", "[1]", "{}", "true", "X", "{r: 1}", "{a: 1}"];
pub const DIRS: &[&str] = &["@nope", "@deprecated", "@skip(if: true)", "@cd(p: 1)", "@rp", "@skip", "@skip(if: 1)", "@include(if: null)"];
pub const CONDS: &[&str] = &["E", "Int", "In", "Zz", "T", "V", "N", "TU", "Query"];
pub const FIELD_MENU: &[&str] = &["num", "str", "nnum", "nums", "i", "t"];

pub struct Counter {
    pub target: usize,
    pub seen: usize,
}
impl Counter {
    fn hit(&mut self) -> bool {
        let h = self.seen == self.target;
        self.seen += 1;
        h
    }
}

#[derive(Clone, Debug, PartialEq)]
pub enum Op {
    OpAddAnonymous,
    OpDuplicate,
    OpAddNamed,
    SubAddRoot(&'static str),
    FieldRename,
    FieldWrapInline(Option<&'static str>),
    LeafAddSelection,
    CompositeDropSelection,
    SetAdd(&'static str),
    Retarget(&'static str),
    DupSibling(&'static str),
    DupBehind(&'static str, &'static str),
    DupChangeArgs(&'static str),
    NestedSplit(&'static str),
    ArgRename,
    ArgDuplicate,
    ArgDrop,
    ArgAdd,
    InFieldRename,
    InFieldDrop,
    InFieldDuplicate,
    InFieldAdd(&'static str, &'static str),
    Lit(usize),
    LitVar(String),
    SpreadRename,
    FragAddUnused,
    FragDuplicate,
    SetAddSpread(String),
    CondChange(&'static str),
    InlineDropCond,
    FragmentsOnly,
    VarDrop,
    VarAddUnused,
    VarDuplicate,
    VarType(&'static str),
    VarDefault(&'static str),
    VarDropDefault,
    DirAdd(&'static str),
    DirDuplicate,
}

impl Op {
    pub fn name(&self) -> String {
        match self {
            Op::OpAddAnonymous => "op-add-anonymous".into(),
            Op::OpDuplicate => "op-duplicate".into(),
            Op::OpAddNamed => "op-add-named".into(),
            Op::SubAddRoot(x) => format!("sub-add-root({x})"),
            Op::FieldRename => "field-rename-unknown".into(),
            Op::FieldWrapInline(c) => format!("field-wrap-inline({})", c.unwrap_or("untyped")),
            Op::LeafAddSelection => "leaf-add-selection".into(),
            Op::CompositeDropSelection => "composite-drop-selection".into(),
            Op::SetAdd(x) => format!("set-add-field({x})"),
            Op::Retarget(f) => format!("retarget-keeping-key({f})"),
            Op::DupSibling(f) => format!("dup-sibling({f})"),
            Op::DupBehind(c, f) => format!("dup-behind({c},{f})"),
            Op::DupChangeArgs(h) => format!("dup-change-args({h})"),
            Op::NestedSplit(f) => format!("nested-split({f})"),
            Op::ArgRename => "arg-rename-unknown".into(),
            Op::ArgDuplicate => "arg-duplicate".into(),
            Op::ArgDrop => "arg-drop".into(),
            Op::ArgAdd => "arg-add-unknown".into(),
            Op::InFieldRename => "input-field-rename-unknown".into(),
            Op::InFieldDrop => "input-field-drop".into(),
            Op::InFieldDuplicate => "input-field-duplicate".into(),
            Op::InFieldAdd(n, v) => format!("input-field-add({n}: {v})"),
            Op::Lit(k) => format!("literal-replace({})", LITS[*k]),
            Op::LitVar(v) => format!("literal-replace(${v})"),
            Op::SpreadRename => "spread-rename-unknown".into(),
            Op::FragAddUnused => "fragment-add-unused".into(),
            Op::FragDuplicate => "fragment-duplicate".into(),
            Op::SetAddSpread(f) => format!("set-add-spread({f})"),
            Op::CondChange(c) => format!("type-condition-change({c})"),
            Op::InlineDropCond => "inline-drop-condition".into(),
            Op::FragmentsOnly => "fragments-only".into(),
            Op::VarDrop => "variable-drop-definition".into(),
            Op::VarAddUnused => "variable-add-unused".into(),
            Op::VarDuplicate => "variable-duplicate".into(),
            Op::VarType(t) => format!("variable-type({t})"),
            Op::VarDefault(d) => format!("variable-default({d})"),
            Op::VarDropDefault => "variable-drop-default".into(),
            Op::DirAdd(d) => format!("directive-add({d})"),
            Op::DirDuplicate => "directive-duplicate".into(),
        }
    }

    /// the §5 rule family the operator is aimed at (rows of the report table)
    pub fn group(&self) -> &'static str {
        match self {
            Op::OpAddAnonymous | Op::OpDuplicate | Op::OpAddNamed | Op::SubAddRoot(_) => "5.2 operations",
            Op::FieldRename | Op::FieldWrapInline(_) | Op::LeafAddSelection | Op::CompositeDropSelection | Op::SetAdd(_) => "5.3.1/5.3.3 fields",
            Op::Retarget(_) | Op::DupSibling(_) | Op::DupBehind(..) | Op::DupChangeArgs(_) | Op::NestedSplit(_) => "5.3.2 field merging",
            Op::ArgRename | Op::ArgDuplicate | Op::ArgDrop | Op::ArgAdd => "5.4 arguments",
            Op::InFieldRename | Op::InFieldDrop | Op::InFieldDuplicate | Op::InFieldAdd(..) => "5.6.2-5.6.4 input objects",
            Op::Lit(_) => "5.6.1 values",
            Op::LitVar(_) | Op::VarDrop | Op::VarAddUnused | Op::VarDuplicate | Op::VarType(_) | Op::VarDefault(_) | Op::VarDropDefault => "5.8 variables",
            Op::SpreadRename | Op::FragAddUnused | Op::FragDuplicate | Op::SetAddSpread(_) | Op::CondChange(_) | Op::InlineDropCond | Op::FragmentsOnly => "5.5 fragments",
            Op::DirAdd(_) | Op::DirDuplicate => "5.7 directives",
        }
    }
}

// ---------------------------------------------------------------------------------------------
// snippet parsing through the reference parser

pub fn p_sel(src: &str) -> Vec<Selection> {
    match parse_exec(src).expect("snippet").defs.remove(0) {
        ExecDef::Op(o) => o.sel,
        _ => unreachable!(),
    }
}
fn p_val(src: &str) -> PValue {
    parse_value(src, false).expect("literal")
}
fn p_type(src: &str) -> Type {
    match parse_exec(&format!("query($v: {src}) {{ a }}")).expect("type").defs.remove(0) {
        ExecDef::Op(mut o) => o.vars.remove(0).ty,
        _ => unreachable!(),
    }
}
fn p_dir(src: &str) -> Directive {
    match p_sel(&format!("{{ a {src} }}")).remove(0) {
        Selection::Field(mut f) => f.directives.remove(0),
        _ => unreachable!(),
    }
}
fn pn(s: &str) -> PName {
    PName::new(s)
}

/// a fresh field node answering under `key`
fn make_field(key: &str, f: &str) -> Field {
    Field {
        alias: if key != f { Some(pn(key)) } else { None },
        name: pn(f),
        args: if f == "i" { vec![(pn("x"), p_val("1"))] } else { vec![] },
        directives: vec![],
        sel: if f == "t" { p_sel("{ num }") } else { vec![] },
        pos: Pos::default(),
    }
}

struct Ed<'a> {
    op: &'a Op,
    c: &'a mut Counter,
    ir: &'a Schema,
    done: bool,
}

impl<'a> Ed<'a> {
    fn hit(&mut self) -> bool {
        let h = self.c.hit();
        if h {
            self.done = true;
        }
        h
    }

    fn set(&mut self, sel: &mut Vec<Selection>, _parent: Option<&str>) {
        match self.op {
            Op::SetAdd(x) => {
                if self.hit() {
                    sel.push(Selection::Field(make_field(x, x)));
                }
            }
            Op::SetAddSpread(f) => {
                if self.hit() {
                    sel.push(Selection::Spread(Spread { name: pn(f), directives: vec![], pos: Pos::default() }));
                }
            }
            _ => {}
        }
    }

    /// hook for the field node at `sel[i]`
    fn field(&mut self, sel: &mut Vec<Selection>, i: usize, parent: Option<&str>) {
        let Selection::Field(f) = &sel[i] else { return };
        let key = f.key().to_string();
        match self.op {
            Op::FieldRename => {
                if self.hit() {
                    if let Selection::Field(f) = &mut sel[i] {
                        if f.alias.is_none() {
                            f.alias = Some(pn(&key));
                        }
                        f.name = pn("zz");
                    }
                }
            }
            Op::FieldWrapInline(c) => {
                if self.hit() {
                    let old = sel[i].clone();
                    sel[i] = Selection::Inline(Inline { cond: c.map(pn), directives: vec![], sel: vec![old], pos: Pos::default() });
                }
            }
            Op::LeafAddSelection => {
                if f.sel.is_empty() && self.hit() {
                    if let Selection::Field(f) = &mut sel[i] {
                        f.sel = p_sel("{ num }");
                    }
                }
            }
            Op::CompositeDropSelection => {
                if !f.sel.is_empty() && self.hit() {
                    if let Selection::Field(f) = &mut sel[i] {
                        f.sel.clear();
                    }
                }
            }
            Op::Retarget(t) => {
                if f.name.s != *t && self.hit() {
                    let mut nf = make_field(&key, t);
                    nf.directives = f.directives.clone();
                    sel[i] = Selection::Field(nf);
                }
            }
            Op::DupSibling(t) => {
                if self.hit() {
                    let n = if *t == "=" { sel[i].clone() } else { Selection::Field(make_field(&key, t)) };
                    sel.insert(i + 1, n);
                }
            }
            Op::DupBehind(c, t) => {
                let cond = match *c {
                    "untyped" => Some(None),
                    "=parent" => parent.map(|p| Some(pn(p))),
                    other => Some(Some(pn(other))),
                };
                if let Some(cond) = cond {
                    if self.hit() {
                        let n = if *t == "=" { sel[i].clone() } else { Selection::Field(make_field(&key, t)) };
                        sel.insert(i + 1, Selection::Inline(Inline { cond, directives: vec![], sel: vec![n], pos: Pos::default() }));
                    }
                }
            }
            Op::DupChangeArgs(how) => {
                if !f.args.is_empty() && self.hit() {
                    let mut n = f.clone();
                    match *how {
                        "drop" => n.args.clear(),
                        _ => {
                            let v = &mut n.args[0].1;
                            v.v = match &v.v {
                                Value::Int(_) => Value::Int("7".into()),
                                Value::Str(_) => Value::Str("zz".into()),
                                Value::Bool(b) => Value::Bool(!*b),
                                Value::Enum(e) => Value::Enum(if e == "X" { "Y".into() } else { "X".into() }),
                                Value::Float(_) => Value::Float("7.5".into()),
                                _ => Value::Null,
                            };
                        }
                    }
                    sel.insert(i + 1, Selection::Field(n));
                }
            }
            Op::NestedSplit(t) => {
                if let Some(Selection::Field(first)) = f.sel.first() {
                    if first.name.s != *t && self.hit() {
                        let mut n = f.clone();
                        n.sel = vec![Selection::Field(make_field(first.key(), t))];
                        sel.insert(i + 1, Selection::Field(n));
                    }
                }
            }
            _ => {}
        }
    }

    fn args(&mut self, args: &mut Vec<(PName, PValue)>) {
        match self.op {
            Op::ArgRename => {
                for i in 0..args.len() {
                    if self.hit() {
                        args[i].0 = pn("zz");
                        return;
                    }
                }
            }
            Op::ArgDuplicate => {
                for i in 0..args.len() {
                    if self.hit() {
                        let c = args[i].clone();
                        args.insert(i + 1, c);
                        return;
                    }
                }
            }
            Op::ArgDrop => {
                for i in 0..args.len() {
                    if self.hit() {
                        args.remove(i);
                        return;
                    }
                }
            }
            Op::ArgAdd => {
                if self.hit() {
                    args.push((pn("zz"), p_val("1")));
                }
            }
            Op::Lit(_) | Op::LitVar(_) | Op::InFieldRename | Op::InFieldDrop | Op::InFieldDuplicate | Op::InFieldAdd(..) => {
                for (_, v) in args.iter_mut() {
                    self.value(v);
                    if self.done {
                        return;
                    }
                }
            }
            _ => {}
        }
    }

    fn value(&mut self, v: &mut PValue) {
        match self.op {
            Op::Lit(k) => {
                let n = p_val(LITS[*k]);
                if agv_refgql::print::value(&n.v) != agv_refgql::print::value(&v.v) && self.hit() {
                    *v = n;
                    return;
                }
            }
            Op::LitVar(name) => {
                if v.v != Value::Var(name.clone()) && self.hit() {
                    v.v = Value::Var(name.clone());
                    return;
                }
            }
            _ => {}
        }
        match &mut v.v {
            Value::List(items) => {
                for it in items.iter_mut() {
                    self.value(it);
                    if self.done {
                        return;
                    }
                }
            }
            Value::Object(o) => {
                match self.op {
                    Op::InFieldRename => {
                        for i in 0..o.len() {
                            if self.hit() {
                                o[i].0 = pn("zz");
                                return;
                            }
                        }
                    }
                    Op::InFieldDrop => {
                        for i in 0..o.len() {
                            if self.hit() {
                                o.remove(i);
                                return;
                            }
                        }
                    }
                    Op::InFieldDuplicate => {
                        for i in 0..o.len() {
                            if self.hit() {
                                let c = o[i].clone();
                                o.insert(i + 1, c);
                                return;
                            }
                        }
                    }
                    Op::InFieldAdd(n, lit) => {
                        if self.hit() {
                            o.push((pn(n), p_val(lit)));
                            return;
                        }
                    }
                    _ => {}
                }
                for (_, x) in o.iter_mut() {
                    self.value(x);
                    if self.done {
                        return;
                    }
                }
            }
            _ => {}
        }
    }

    fn dirs(&mut self, ds: &mut Vec<Directive>) {
        match self.op {
            Op::DirAdd(d) => {
                if self.hit() {
                    ds.push(p_dir(d));
                }
            }
            Op::DirDuplicate => {
                for i in 0..ds.len() {
                    if self.hit() {
                        let c = ds[i].clone();
                        ds.insert(i + 1, c);
                        return;
                    }
                }
            }
            _ => {
                for d in ds.iter_mut() {
                    self.args(&mut d.args);
                    if self.done {
                        return;
                    }
                }
            }
        }
    }

    fn cond(&mut self, c: &mut PName) {
        if let Op::CondChange(n) = self.op {
            if c.s != *n && self.hit() {
                *c = pn(n);
            }
        }
    }

    fn walk_set(&mut self, sel: &mut Vec<Selection>, parent: Option<&str>) {
        if self.done {
            return;
        }
        self.set(sel, parent);
        let mut i = 0;
        while i < sel.len() && !self.done {
            if matches!(sel[i], Selection::Field(_)) {
                self.field(sel, i, parent);
                if self.done {
                    return;
                }
            }
            match &mut sel[i] {
                Selection::Field(f) => {
                    self.args(&mut f.args);
                    if self.done {
                        return;
                    }
                    self.dirs(&mut f.directives);
                    if self.done {
                        return;
                    }
                    let child = if f.name.s == "__typename" { None } else { parent.and_then(|p| self.ir.field(p, &f.name.s)).map(|fd| fd.ty.base().to_string()).filter(|b| self.ir.is_composite(b)) };
                    if !f.sel.is_empty() {
                        self.walk_set(&mut f.sel, child.as_deref());
                    }
                }
                Selection::Inline(inl) => {
                    if let Some(c) = &mut inl.cond {
                        self.cond(c);
                        if self.done {
                            return;
                        }
                    }
                    if self.op == &Op::InlineDropCond && inl.cond.is_some() && self.hit() {
                        inl.cond = None;
                        return;
                    }
                    self.dirs(&mut inl.directives);
                    if self.done {
                        return;
                    }
                    let inner: Option<String> = match &inl.cond {
                        Some(c) => {
                            if self.ir.is_composite(&c.s) {
                                Some(c.s.clone())
                            } else {
                                None
                            }
                        }
                        None => parent.map(|p| p.to_string()),
                    };
                    self.walk_set(&mut inl.sel, inner.as_deref());
                }
                Selection::Spread(sp) => {
                    if self.op == &Op::SpreadRename && sp.name.s != "Fx" && self.hit() {
                        sp.name = pn("Fx");
                        return;
                    }
                    self.dirs(&mut sp.directives);
                }
            }
            i += 1;
        }
    }
}

impl Op {
    /// Apply at site `c.target` (if it exists); afterwards `c.seen` = number of sites passed.
    pub fn apply(&self, doc: &mut ExecDoc, ir: &Schema, c: &mut Counter) {
        let mut ed = Ed { op: self, c, ir, done: false };
        // document-level operators
        match self {
            Op::OpAddAnonymous => {
                if ed.hit() {
                    doc.defs.push(parse_exec("{ num }").unwrap().defs.remove(0));
                }
                return;
            }
            Op::OpAddNamed => {
                if ed.hit() {
                    doc.defs.push(parse_exec("query Zq { num }").unwrap().defs.remove(0));
                }
                return;
            }
            Op::OpDuplicate => {
                if ed.hit() {
                    let first = doc.defs.iter().find(|d| matches!(d, ExecDef::Op(_))).cloned();
                    if let Some(f) = first {
                        doc.defs.push(f);
                    }
                }
                return;
            }
            Op::FragAddUnused => {
                if ed.hit() {
                    doc.defs.push(parse_exec("fragment Unused on Query { num }").unwrap().defs.remove(0));
                }
                return;
            }
            Op::FragDuplicate => {
                for i in 0..doc.defs.len() {
                    if matches!(doc.defs[i], ExecDef::Frag(_)) && ed.hit() {
                        let c = doc.defs[i].clone();
                        doc.defs.push(c);
                        return;
                    }
                }
                return;
            }
            Op::FragmentsOnly => {
                if doc.frags().next().is_some() && ed.hit() {
                    doc.defs.retain(|d| matches!(d, ExecDef::Frag(_)));
                }
                return;
            }
            _ => {}
        }
        for def in doc.defs.iter_mut() {
            if ed.done {
                return;
            }
            match def {
                ExecDef::Op(o) => {
                    match self {
                        Op::SubAddRoot(x) if o.kind == OpKind::Subscription => {
                            if ed.hit() {
                                let add = match *x {
                                    "tick-copy" => o.sel[0].clone(),
                                    other => p_sel(&format!("{{ {other} }}")).remove(0),
                                };
                                o.sel.push(add);
                                return;
                            }
                        }
                        Op::VarDrop => {
                            for i in 0..o.vars.len() {
                                if ed.hit() {
                                    o.vars.remove(i);
                                    return;
                                }
                            }
                        }
                        Op::VarAddUnused => {
                            if ed.hit() {
                                o.shorthand = false;
                                o.vars.push(VarDef { name: pn("unused"), ty: Type::named("Int"), ty_pos: Pos::default(), default: None, directives: vec![], pos: Pos::default() });
                                return;
                            }
                        }
                        Op::VarDuplicate => {
                            for i in 0..o.vars.len() {
                                if ed.hit() {
                                    let c = o.vars[i].clone();
                                    o.vars.insert(i + 1, c);
                                    return;
                                }
                            }
                        }
                        Op::VarType(t) => {
                            let nt = p_type(t);
                            for v in o.vars.iter_mut() {
                                if v.ty != nt && ed.hit() {
                                    v.ty = nt;
                                    return;
                                }
                            }
                        }
                        Op::VarDefault(d) => {
                            let nd = p_val(d);
                            for v in o.vars.iter_mut() {
                                if v.default.as_ref().map(|x| &x.v) != Some(&nd.v) && ed.hit() {
                                    v.default = Some(nd);
                                    return;
                                }
                            }
                        }
                        Op::VarDropDefault => {
                            for v in o.vars.iter_mut() {
                                if v.default.is_some() && ed.hit() {
                                    v.default = None;
                                    return;
                                }
                            }
                        }
                        _ => {}
                    }
                    for v in o.vars.iter_mut() {
                        ed.dirs(&mut v.directives);
                        if ed.done {
                            return;
                        }
                    }
                    if matches!(self, Op::DirAdd(_)) && o.shorthand {
                        // a directive on the operation needs the long form
                        let before = ed.c.seen;
                        ed.dirs(&mut o.directives);
                        if ed.done && ed.c.seen == before + 1 {
                            o.shorthand = false;
                        }
                    } else {
                        ed.dirs(&mut o.directives);
                    }
                    if ed.done {
                        return;
                    }
                    let root = ir.root(o.kind).map(|s| s.to_string());
                    ed.walk_set(&mut o.sel, root.as_deref());
                }
                ExecDef::Frag(f) => {
                    ed.cond(&mut f.cond);
                    if ed.done {
                        return;
                    }
                    ed.dirs(&mut f.directives);
                    if ed.done {
                        return;
                    }
                    let cond = if ir.is_composite(&f.cond.s) { Some(f.cond.s.clone()) } else { None };
                    ed.walk_set(&mut f.sel, cond.as_deref());
                }
            }
        }
    }

    pub fn sites(&self, doc: &ExecDoc, ir: &Schema) -> usize {
        let mut c = Counter { target: usize::MAX, seen: 0 };
        self.apply(&mut doc.clone(), ir, &mut c);
        c.seen
    }

    pub fn at(&self, doc: &ExecDoc, ir: &Schema, site: usize) -> ExecDoc {
        let mut d = doc.clone();
        let mut c = Counter { target: site, seen: 0 };
        self.apply(&mut d, ir, &mut c);
        d
    }
}

/// Every operator instance applicable to documents shaped like `doc` (fragment and variable names
/// are taken from it). `core` = one representative per family, used for pairs.
pub fn ops_for(doc: &ExecDoc, core: bool) -> Vec<Op> {
    let frags: Vec<String> = doc.frags().map(|f| f.name.s.clone()).collect();
    let vars: Vec<String> = doc.ops().next().map(|o| o.vars.iter().map(|v| v.name.s.clone()).collect()).unwrap_or_default();
    let mut v = vec![Op::OpAddAnonymous, Op::OpDuplicate, Op::SubAddRoot("tock"), Op::SubAddRoot("__typename"), Op::FieldRename, Op::FieldWrapInline(Some("V")), Op::LeafAddSelection, Op::CompositeDropSelection];
    v.extend([Op::Retarget("str"), Op::Retarget("num"), Op::DupSibling("str"), Op::DupBehind("=parent", "str"), Op::DupBehind("untyped", "str"), Op::DupBehind("T", "str"), Op::DupChangeArgs("other"), Op::NestedSplit("str")]);
    v.extend([Op::ArgRename, Op::ArgDuplicate, Op::ArgDrop, Op::ArgAdd, Op::InFieldRename, Op::InFieldDrop, Op::InFieldDuplicate, Op::InFieldAdd("b", "\"x\"")]);
    v.extend([Op::Lit(0), Op::Lit(1), Op::Lit(6), Op::Lit(7), Op::Lit(11), Op::LitVar("zz".into())]);
    if let Some(x) = vars.first() {
        v.push(Op::LitVar(x.clone()));
    }
    v.extend([Op::SpreadRename, Op::FragAddUnused, Op::FragDuplicate, Op::CondChange("E"), Op::CondChange("Zz"), Op::CondChange("V")]);
    if let Some(f) = frags.first() {
        v.push(Op::SetAddSpread(f.clone()));
    }
    v.extend([Op::VarDrop, Op::VarAddUnused, Op::VarDuplicate, Op::VarType("T"), Op::VarType("Int"), Op::VarType("[Int]"), Op::VarDefault("\"x\""), Op::VarDropDefault]);
    v.extend([Op::DirAdd("@nope"), Op::DirAdd("@deprecated"), Op::DirAdd("@skip"), Op::DirDuplicate]);
    if core {
        return v;
    }
    v.extend([Op::OpAddNamed, Op::SubAddRoot("t2: tick"), Op::SubAddRoot("... on Subscription { tock }"), Op::SubAddRoot("tick-copy")]);
    v.extend([Op::FieldWrapInline(None), Op::FieldWrapInline(Some("T")), Op::FieldWrapInline(Some("N")), Op::FieldWrapInline(Some("TU")), Op::FieldWrapInline(Some("Query")), Op::SetAdd("zz"), Op::SetAdd("__typename")]);
    for f in FIELD_MENU {
        if !["str", "num"].contains(f) {
            v.push(Op::Retarget(f));
        }
        if *f != "str" {
            v.push(Op::DupSibling(f));
        }
        if *f != "str" {
            v.push(Op::NestedSplit(f));
        }
    }
    v.push(Op::DupSibling("="));
    for c in ["=parent", "untyped", "T", "V", "N"] {
        for f in ["num", "str", "="] {
            if !(f == "str" && ["=parent", "untyped", "T"].contains(&c)) {
                v.push(Op::DupBehind(c, f));
            }
        }
    }
    v.push(Op::DupChangeArgs("drop"));
    v.extend([Op::InFieldAdd("zz", "1"), Op::InFieldAdd("n", "2"), Op::InFieldAdd("a", "2")]);
    for k in 0..LITS.len() {
        if ![0, 1, 6, 7, 11].contains(&k) {
            v.push(Op::Lit(k));
        }
    }
    for x in vars.iter().skip(1) {
        v.push(Op::LitVar(x.clone()));
    }
    for f in frags.iter().skip(1) {
        v.push(Op::SetAddSpread(f.clone()));
    }
    for c in CONDS {
        if !["E", "Zz", "V"].contains(c) {
            v.push(Op::CondChange(c));
        }
    }
    v.extend([Op::InlineDropCond, Op::FragmentsOnly]);
    for t in VAR_TYPES {
        if !["T", "Int", "[Int]"].contains(t) {
            v.push(Op::VarType(t));
        }
    }
    for d in VAR_DEFAULTS {
        if *d != "\"x\"" {
            v.push(Op::VarDefault(d));
        }
    }
    for d in DIRS {
        if !["@nope", "@deprecated", "@skip"].contains(d) {
            v.push(Op::DirAdd(d));
        }
    }
    v
}
