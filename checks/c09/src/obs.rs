//! Observation of one request: which stage turned it down (parse / validation / none), the errors
//! with their locations, whether `data` is null, and the resolver invocation log.
//!
//! The stage is observed through the public extension API: an `Extension` whose `parse_query` and
//! `validation` hooks record the verdict of the stage they wrap (`P+`/`P-`, `V+`/`V-`) into the same
//! per-request log the resolvers write `S:<path>` into. "Rejected before any resolver runs" is then
//! directly visible: the request has errors, no `V+` was recorded, and no `S:` entry exists.

use agv_common::s1::{Wd, W};
use agv_engine::sched::drive;
use async_graphql::extensions::{Extension, ExtensionContext, ExtensionFactory, NextParseQuery, NextValidation};
use async_graphql::parser::types::ExecutableDocument;
use async_graphql::{Request, Response, ServerError, ServerResult, ValidationResult, Variables};
use serde_json::{json, Map, Value as J};
use std::sync::Arc;

pub struct VObs;
impl ExtensionFactory for VObs {
    fn create(&self) -> Arc<dyn Extension> {
        Arc::new(VObsExt)
    }
}
struct VObsExt;

fn note(ctx: &ExtensionContext<'_>, s: &str) {
    if let Some(w) = ctx.data_opt::<W>() {
        w.log(s.to_string());
    }
}

#[async_trait::async_trait]
impl Extension for VObsExt {
    async fn parse_query(&self, ctx: &ExtensionContext<'_>, query: &str, variables: &Variables, next: NextParseQuery<'_>) -> ServerResult<ExecutableDocument> {
        let r = next.run(ctx, query, variables).await;
        note(ctx, if r.is_ok() { "P+" } else { "P-" });
        r
    }
    async fn validation(&self, ctx: &ExtensionContext<'_>, next: NextValidation<'_>) -> Result<ValidationResult, Vec<ServerError>> {
        let r = next.run(ctx).await;
        note(ctx, if r.is_ok() { "V+" } else { "V-" });
        r
    }
}

#[derive(Clone, Copy, Debug, PartialEq, Eq)]
pub enum Stage {
    /// the parser (or the recursion-depth pre-check) turned the request down
    ParseRejected,
    /// the validation stage returned errors
    ValidationRejected,
    /// validation passed; whatever follows is execution
    Accepted,
}

#[derive(Clone, Debug)]
pub struct ObsErr {
    pub message: String,
    pub locs: Vec<(u32, u32)>,
    pub has_path: bool,
}

#[derive(Clone, Debug)]
pub struct Observed {
    pub stage: Stage,
    pub errors: Vec<ObsErr>,
    pub data: String,
    /// `S:` entries of the log (resolver invocations)
    pub resolvers: Vec<String>,
    /// further responses of a subscription stream
    pub more_errors: usize,
}

impl Observed {
    pub fn to_json(&self) -> J {
        json!({
            "stage": format!("{:?}", self.stage),
            "data": self.data,
            "errors": self.errors.iter().map(|e| json!({"message": e.message, "locations": e.locs, "has_path": e.has_path})).collect::<Vec<_>>(),
            "resolvers_run": self.resolvers,
        })
    }
}

pub trait Runner: Sync {
    fn exec(&self, req: Request) -> Option<Response>;
    fn exec_stream(&self, req: Request) -> Option<Vec<Response>>;
}

impl Runner for agv_common::s1::S1 {
    fn exec(&self, req: Request) -> Option<Response> {
        drive(self.execute(req))
    }
    fn exec_stream(&self, req: Request) -> Option<Vec<Response>> {
        use futures_util::StreamExt;
        drive(self.execute_stream(req).collect::<Vec<_>>())
    }
}
impl Runner for crate::s3::S3 {
    fn exec(&self, req: Request) -> Option<Response> {
        drive(self.execute(req))
    }
    fn exec_stream(&self, req: Request) -> Option<Vec<Response>> {
        use futures_util::StreamExt;
        drive(self.execute_stream(req).collect::<Vec<_>>())
    }
}
impl Runner for async_graphql::dynamic::Schema {
    fn exec(&self, req: Request) -> Option<Response> {
        drive(self.execute(req))
    }
    fn exec_stream(&self, req: Request) -> Option<Vec<Response>> {
        use futures_util::StreamExt;
        drive(self.execute_stream(req).collect::<Vec<_>>())
    }
}

/// Run one request; `Err` = harness problem (future parked, panic is returned as `Err("panic: …")`).
pub fn observe(schema: &dyn Runner, query: &str, op_name: Option<&str>, vars: &Map<String, J>, stream: bool) -> Result<Observed, String> {
    let wd: W = Arc::new(Wd::new(Default::default()));
    let mut req = Request::new(query).variables(Variables::from_json(J::Object(vars.clone()))).data(wd.clone());
    if let Some(o) = op_name {
        req = req.operation_name(o);
    }
    let resps: Vec<Response> = match agv_engine::catch_quiet(|| if stream { schema.exec_stream(req) } else { schema.exec(req).map(|r| vec![r]) }) {
        Ok(Some(v)) => v,
        Ok(None) => return Err("execute future parked without a waker".into()),
        Err(p) => return Err(format!("panic: {p}")),
    };
    let log = wd.take_log();
    let stage = if log.iter().any(|l| l == "V+") {
        Stage::Accepted
    } else if log.iter().any(|l| l == "V-") {
        Stage::ValidationRejected
    } else if log.iter().any(|l| l == "P-") {
        Stage::ParseRejected
    } else {
        return Err(format!("no stage verdict recorded (log {log:?})"));
    };
    // a subscription stream may end without a single response (observed for root fields inside a
    // condition-less inline fragment); that is "no errors, no data"
    let Some(first) = resps.first() else { return Ok(Observed { stage, errors: vec![], data: "<no response>".into(), resolvers: log.into_iter().filter(|l| l.starts_with("S:")).collect(), more_errors: 0 }) };
    Ok(Observed {
        stage,
        errors: first
            .errors
            .iter()
            .map(|e| ObsErr { message: e.message.clone(), locs: e.locations.iter().map(|p| (p.line as u32, p.column as u32)).collect(), has_path: !e.path.is_empty() })
            .collect(),
        data: serde_json::to_string(&first.data).unwrap_or_else(|e| format!("<unserializable: {e}>")),
        resolvers: log.into_iter().filter(|l| l.starts_with("S:")).collect(),
        more_errors: resps.iter().skip(1).map(|r| r.errors.len()).sum(),
    })
}
