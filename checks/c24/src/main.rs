//! C24 — multipart uploads bind files exactly as mapped and respect limits.
//!
//! Seam: `async_graphql::http::receive_batch_body` with `multipart/form-data; boundary=…`
//! over an in-memory `AsyncRead` whose chunking (split offsets, one injected
//! `Poll::Pending`) the explorer chooses, with `MultipartOptions` limits.
//!
//! Every decision of a case is a `Chooser` pick (see `build_case`): single operation or
//! batch of 2, 1–3 mapped files with 1–2 variable paths each (batch paths `0.variables.a`),
//! which slots they take, all files present / one missing / one extra unmapped file part,
//! the permutation of the parts, the limits, the file sizes relative to the size limit,
//! the content flavour (plain / boundary look-alike), and the read plan.
//!
//! Oracle = the reference binder in `judge`: a map entry without a file part, a file part
//! larger than `max_file_size`, or more file parts than `max_num_files` ⇒ the call must
//! return `Err`; otherwise it must return `Ok` and every mapped variable path must hold an
//! upload marker that `Upload::parse` resolves to an entry of `request.uploads` with the
//! filename, content type and content of exactly the file the map assigned; unmapped slots
//! stay `null`; no other uploads are attached.

use agv_engine::explore::{explore, Chooser, Class, ExploreCfg};
use agv_engine::record::{Cx, Violation};
use async_graphql::http::{receive_batch_body, MultipartOptions};
use async_graphql::{BatchRequest, InputType, Request, Upload};
use futures_util::io::AsyncRead;
use serde_json::{json, Value};
use std::future::Future;
use std::pin::Pin;
use std::sync::atomic::{AtomicBool, AtomicU64, Ordering};
use std::sync::Arc;
use std::task::{Context, Poll, Wake, Waker};

const BOUNDARY: &str = "XBOUNDX";
/// The "large" size limit: larger than every `operations` / `map` part the check generates.
const BIG: usize = 200;

// ---------------------------------------------------------------------------------------------
// a thread-parking block_on (the tempfile path hands file I/O to the `blocking` thread pool,
// so the future really parks; results do not depend on timing)

struct ThreadWaker {
    t: std::thread::Thread,
    woken: AtomicBool,
}
impl Wake for ThreadWaker {
    fn wake(self: Arc<Self>) {
        self.woken.store(true, Ordering::SeqCst);
        self.t.unpark();
    }
    fn wake_by_ref(self: &Arc<Self>) {
        self.woken.store(true, Ordering::SeqCst);
        self.t.unpark();
    }
}

/// `None` = no wake-up for 20 s (reported as a hang; only a guard, never a verdict input).
fn block_on<T>(fut: impl Future<Output = T>) -> Option<T> {
    let tw = Arc::new(ThreadWaker { t: std::thread::current(), woken: AtomicBool::new(true) });
    let waker = Waker::from(tw.clone());
    let mut cx = Context::from_waker(&waker);
    let mut fut = std::pin::pin!(fut);
    loop {
        tw.woken.store(false, Ordering::SeqCst);
        if let Poll::Ready(v) = fut.as_mut().poll(&mut cx) {
            return Some(v);
        }
        let start = std::time::Instant::now();
        while !tw.woken.load(Ordering::SeqCst) {
            std::thread::park_timeout(std::time::Duration::from_millis(500));
            if start.elapsed().as_secs() >= 20 {
                return None;
            }
        }
    }
}

// ---------------------------------------------------------------------------------------------
// the body reader whose chunking the explorer owns

struct ChunkReader {
    data: Vec<u8>,
    pos: usize,
    cuts: Vec<usize>,
    calls: usize,
    pend_at: Option<usize>,
    pended: bool,
}

impl AsyncRead for ChunkReader {
    fn poll_read(mut self: Pin<&mut Self>, cx: &mut Context<'_>, buf: &mut [u8]) -> Poll<std::io::Result<usize>> {
        let this = &mut *self;
        if this.pend_at == Some(this.calls) && !this.pended {
            this.pended = true;
            cx.waker().wake_by_ref();
            return Poll::Pending;
        }
        this.calls += 1;
        let stop = this.cuts.iter().copied().find(|c| *c > this.pos).unwrap_or(this.data.len());
        let n = buf.len().min(stop - this.pos);
        buf[..n].copy_from_slice(&this.data[this.pos..this.pos + n]);
        this.pos += n;
        Poll::Ready(Ok(n))
    }
}

/// number of `poll_read` calls that return data or EOF for this plan (buffer = 2048 as in ReaderStream)
fn count_reads(len: usize, cuts: &[usize]) -> usize {
    let mut pos = 0;
    let mut n = 0;
    while pos < len {
        let stop = cuts.iter().copied().find(|c| *c > pos).unwrap_or(len);
        pos += 2048.min(stop - pos);
        n += 1;
    }
    n + 1
}

// ---------------------------------------------------------------------------------------------
// cases

#[derive(Clone, Debug)]
struct FilePart {
    name: String,
    filename: String,
    ctype: Option<&'static str>,
    content: Vec<u8>,
}

#[derive(Clone, Debug)]
struct Case {
    batch: bool,
    nreq: usize,
    ops: String,
    map_text: String,
    /// every upload slot of the variables: (request index, path inside the request, full map path)
    slots: Vec<(usize, String, String)>,
    /// map entries in map order: (file part name, full paths)
    map_entries: Vec<(String, Vec<String>)>,
    /// file parts present in the body (mapped ones and possibly the extra one)
    files: Vec<FilePart>,
    /// permutation of the parts: 0 = operations, 1 = map, 2.. = files[i-2]
    order: Vec<usize>,
    max_file_size: Option<usize>,
    max_num_files: Option<usize>,
    body: Vec<u8>,
    cuts: Vec<usize>,
    pend_at: Option<usize>,
    /// description of the structural answers (for reports)
    desc: Value,
}

#[derive(Clone, Copy)]
struct Plan {
    /// class of the structural picks (Exhaustive in the structure sweeps, Dev(2) in the read sweeps)
    sc: Class,
    /// class of the content flavour pick
    fc: Class,
    /// permutations are complete when parts! ≤ perm_cap, otherwise the fixed subset `perm_subset`
    perm_cap: usize,
    /// vary the number of paths per file and the slot assignment (else: defaults)
    ask_paths: bool,
    /// vary max_file_size / max_num_files / sizes relative to the limit (else: no limits)
    ask_limits: bool,
}

fn factorial(n: usize) -> usize {
    (1..=n).product()
}

/// k-th permutation of 0..n in lexicographic order (k = 0 is the identity)
fn nth_permutation(n: usize, mut k: usize) -> Vec<usize> {
    let mut items: Vec<usize> = (0..n).collect();
    let mut out = Vec::new();
    for i in (1..=n).rev() {
        let f = factorial(i - 1);
        out.push(items.remove(k / f));
        k %= f;
    }
    out
}

/// For part counts whose factorial exceeds the cap: identity, reversal, every rotation, every
/// adjacent transposition, every "one part moved to the front / to the back".
fn perm_subset(n: usize) -> Vec<Vec<usize>> {
    let id: Vec<usize> = (0..n).collect();
    let mut v = vec![id.clone(), id.iter().rev().cloned().collect()];
    for r in 1..n {
        let mut p = id.clone();
        p.rotate_left(r);
        v.push(p);
    }
    for i in 0..n - 1 {
        let mut p = id.clone();
        p.swap(i, i + 1);
        v.push(p);
    }
    for i in 0..n {
        let mut p = id.clone();
        let x = p.remove(i);
        p.insert(0, x);
        v.push(p.clone());
        let mut q = id.clone();
        let y = q.remove(i);
        q.push(y);
        v.push(q);
    }
    let mut seen = std::collections::BTreeSet::new();
    v.retain(|p| seen.insert(p.clone()));
    v
}

fn file_content(idx: usize, size: usize, lookalike: bool) -> Vec<u8> {
    if lookalike {
        // starts like the delimiter `\r\n--XBOUNDX` but never completes it; tagged with the file index
        let pat = format!("\r\n--XBOUND{idx}");
        pat.bytes().cycle().take(size).collect()
    } else {
        (0..size).map(|k| b'A' + ((idx * 7 + k * 3) % 26) as u8).collect()
    }
}

fn part_bytes(name: &str, filename: Option<&str>, ctype: Option<&str>, content: &[u8]) -> Vec<u8> {
    let mut s = format!("--{BOUNDARY}\r\nContent-Disposition: form-data; name=\"{name}\"");
    if let Some(f) = filename {
        s.push_str(&format!("; filename=\"{f}\""));
    }
    s.push_str("\r\n");
    if let Some(c) = ctype {
        s.push_str(&format!("Content-Type: {c}\r\n"));
    }
    s.push_str("\r\n");
    let mut b = s.into_bytes();
    b.extend_from_slice(content);
    b.extend_from_slice(b"\r\n");
    b
}

fn build_case(ch: &mut Chooser, plan: &Plan) -> Case {
    let sc = plan.sc;
    let batch = ch.pick(sc, "ops", 2) == 0;
    let nfiles = [2usize, 1, 3][ch.pick(sc, "nfiles", 3)];
    let mut npaths = Vec::new();
    for i in 0..nfiles {
        let opts = if i == 0 { [2usize, 1] } else { [1, 2] };
        npaths.push(opts[if plan.ask_paths { ch.pick(sc, &format!("npaths{i}"), 2) } else { 0 }]);
    }
    // upload slots
    let (nreq, vars, mut slots): (usize, Value, Vec<(usize, String)>) = if batch {
        (
            2,
            json!({"a": null, "b": [null, null], "c": {"d": null}}),
            vec![(0, "variables.a"), (1, "variables.a"), (0, "variables.b.1"), (1, "variables.c.d"), (1, "variables.b.0"), (0, "variables.c.d")].into_iter().map(|(r, p)| (r, p.to_string())).collect(),
        )
    } else {
        (
            1,
            json!({"a": null, "b": [null, null], "c": {"d": null}, "e": null, "g": null}),
            vec!["variables.a", "variables.b.0", "variables.b.1", "variables.c.d", "variables.e", "variables.g"].into_iter().map(|p| (0, p.to_string())).collect(),
        )
    };
    match if plan.ask_paths { ch.pick(sc, "slot-order", 3) } else { 0 } {
        1 => slots.reverse(),
        2 => slots.rotate_left(2),
        _ => {}
    }
    let slots: Vec<(usize, String, String)> = slots.into_iter().map(|(r, p)| if batch { (r, p.clone(), format!("{r}.{p}")) } else { (r, p.clone(), p) }).collect();
    let one = json!({"query": "mutation { u }", "variables": vars});
    let ops = if batch { serde_json::to_string(&json!([one, one])).unwrap() } else { serde_json::to_string(&one).unwrap() };
    // map: file i takes the next npaths[i] slots
    let mut map_entries = Vec::new();
    let mut next = 0;
    for (i, n) in npaths.iter().enumerate() {
        map_entries.push((i.to_string(), slots[next..next + n].iter().map(|s| s.2.clone()).collect::<Vec<_>>()));
        next += n;
    }
    let map_text = {
        let mut m = serde_json::Map::new();
        for (k, v) in &map_entries {
            m.insert(k.clone(), json!(v));
        }
        serde_json::to_string(&Value::Object(m)).unwrap()
    };
    // presence: 0 all present, 1 extra unmapped file part, 2+j file j missing,
    // 2+nfiles+j (nfiles ≥ 2) file j missing while another mapped file part is sent twice (what a repeated part name
    // means is not stated, but the missing file stays missing whatever else is sent)
    let presence_raw = ch.pick(sc, "presence", if nfiles >= 2 { 2 + 2 * nfiles } else { 2 + nfiles });
    let duplicate_other = presence_raw >= 2 + nfiles;
    let presence = if duplicate_other { presence_raw - nfiles } else { presence_raw };
    let max_file_size = [None, Some(4usize), Some(BIG)][if plan.ask_limits { ch.pick(sc, "max_file_size", 3) } else { 0 }];
    let max_num_files = [None, Some(1usize), Some(2)][if plan.ask_limits { ch.pick(sc, "max_num_files", 3) } else { 0 }];
    let mut file_ids: Vec<usize> = (0..nfiles).filter(|j| presence < 2 || *j != presence - 2).collect();
    if presence == 1 {
        file_ids.push(9);
    }
    if duplicate_other {
        let first = file_ids[0];
        file_ids.push(first);
    }
    let nfp = file_ids.len();
    // sizes relative to the limit L
    let l = max_file_size.unwrap_or(4);
    let sizes: Vec<usize> = if max_file_size.is_none() {
        match ch.pick(sc, "sizes", 2) {
            0 => vec![3; nfp],
            _ => (0..nfp).map(|i| 3 + i % 3).collect(),
        }
    } else {
        match ch.pick(sc, "sizes", 2 + nfp) {
            0 => vec![l - 1; nfp],
            1 => vec![l; nfp],
            k => (0..nfp).map(|i| if i == k - 2 { l + 1 } else { l - 1 }).collect(),
        }
    };
    let lookalike = ch.pick(plan.fc, "flavor", 2) == 1;
    let files: Vec<FilePart> = file_ids
        .iter()
        .enumerate()
        .map(|(i, id)| FilePart {
            name: id.to_string(),
            filename: format!("file{id}.{}", ["txt", "bin", "dat"][id % 3]),
            ctype: [Some("text/plain"), None, Some("application/octet-stream")][id % 3],
            content: file_content(*id, sizes[i], lookalike),
        })
        .collect();
    let nparts = 2 + nfp;
    let order = if factorial(nparts) <= plan.perm_cap {
        nth_permutation(nparts, ch.pick(sc, "perm", factorial(nparts)))
    } else {
        let sub = perm_subset(nparts);
        sub[ch.pick(sc, "perm-subset", sub.len())].clone()
    };
    let mut body = Vec::new();
    for p in &order {
        match *p {
            0 => body.extend(part_bytes("operations", None, None, ops.as_bytes())),
            1 => body.extend(part_bytes("map", None, None, map_text.as_bytes())),
            k => {
                let f = &files[k - 2];
                body.extend(part_bytes(&f.name, Some(&f.filename), f.ctype, &f.content));
            }
        }
    }
    body.extend_from_slice(format!("--{BOUNDARY}--\r\n").as_bytes());
    // read plan
    let mut cuts = Vec::new();
    let c1 = ch.dev(0, "cut1", body.len());
    if c1 > 0 {
        cuts.push(c1);
        let c2 = ch.dev(0, "cut2", body.len() - c1);
        if c2 > 0 {
            cuts.push(c1 + c2);
        }
    }
    let reads = count_reads(body.len(), &cuts);
    let pend = ch.dev(1, "pending", reads + 1);
    let pend_at = if pend > 0 { Some(pend - 1) } else { None };
    let desc = json!({
        "operations": if batch { "batch of 2" } else { "single" },
        "map": map_entries.iter().map(|(k, v)| json!({k.as_str(): v})).collect::<Vec<_>>(),
        "file_parts": files.iter().map(|f| json!({"name": f.name, "filename": f.filename, "size": f.content.len()})).collect::<Vec<_>>(),
        "presence": match presence { 0 => "all present".to_string(), 1 => "extra unmapped file part".to_string(), k => format!("file {} missing{}", k - 2, if duplicate_other { ", another mapped part sent twice" } else { "" }) },
        "part_order": order.iter().map(|p| match *p { 0 => "operations".to_string(), 1 => "map".to_string(), k => format!("file:{}", files[k - 2].name) }).collect::<Vec<_>>(),
        "max_file_size": max_file_size, "max_num_files": max_num_files,
        "content": if lookalike { "boundary look-alike" } else { "plain" },
        "cuts": cuts, "pending_before_read": pend_at, "body_len": body.len(),
    });
    Case { batch, nreq, ops, map_text, slots, map_entries, files, order, max_file_size, max_num_files, body, cuts, pend_at, desc }
}

// ---------------------------------------------------------------------------------------------
// executing the real code and observing its result

#[derive(Debug)]
struct UpObs {
    filename: String,
    content_type: Option<String>,
    /// content read position-independently (pread from 0)
    content: Vec<u8>,
    /// content read sequentially from the descriptor's current position, in (request, upload) order
    sequential: Vec<u8>,
}
#[derive(Debug)]
struct ReqObs {
    vars: Value,
    uploads: Vec<UpObs>,
}
#[derive(Debug)]
enum Outcome {
    Panic(String),
    Hang,
    Err(String),
    Ok { batch: bool, reqs: Vec<ReqObs> },
}

fn read_upload(u: &async_graphql::UploadValue) -> UpObs {
    use std::io::Read;
    use std::os::unix::fs::FileExt;
    let mut sequential = Vec::new();
    let _ = (&u.content).read_to_end(&mut sequential);
    let len = u.size().unwrap_or(0) as usize;
    let mut content = vec![0u8; len];
    let mut got = 0;
    while got < len {
        match u.content.read_at(&mut content[got..], got as u64) {
            Ok(0) | Err(_) => break,
            Ok(n) => got += n,
        }
    }
    content.truncate(got);
    UpObs { filename: u.filename.clone(), content_type: u.content_type.clone(), content, sequential }
}

fn observe(req: &Request) -> ReqObs {
    ReqObs { vars: serde_json::to_value(&req.variables).unwrap_or(Value::Null), uploads: req.uploads.iter().map(read_upload).collect() }
}

fn execute(case: &Case) -> Outcome {
    let mut opts = MultipartOptions::default();
    if let Some(m) = case.max_file_size {
        opts = opts.max_file_size(m);
    }
    if let Some(n) = case.max_num_files {
        opts = opts.max_num_files(n);
    }
    let reader = ChunkReader { data: case.body.clone(), pos: 0, cuts: case.cuts.clone(), calls: 0, pend_at: case.pend_at, pended: false };
    let ct = format!("multipart/form-data; boundary={BOUNDARY}");
    let r = agv_engine::catch_quiet(|| {
        block_on(receive_batch_body(Some(ct.as_str()), reader, opts)).map(|r| {
            r.map(|b| match &b {
                BatchRequest::Single(r) => (false, vec![observe(r)]),
                BatchRequest::Batch(v) => (true, v.iter().map(observe).collect()),
            })
            // `b` (and with it every temp file) is dropped here
        })
    });
    match r {
        Err(p) => Outcome::Panic(p),
        Ok(None) => Outcome::Hang,
        Ok(Some(Err(e))) => Outcome::Err(format!("{e:?}").chars().take(120).collect()),
        Ok(Some(Ok((batch, reqs)))) => Outcome::Ok { batch, reqs },
    }
}

// ---------------------------------------------------------------------------------------------
// the reference binder / oracle

fn at_path<'a>(vars: &'a Value, path: &str) -> Option<&'a Value> {
    let mut cur = vars;
    for part in path.strip_prefix("variables.")?.split('.') {
        cur = match cur {
            Value::Object(m) => m.get(part)?,
            Value::Array(a) => a.get(part.parse::<usize>().ok()?)?,
            _ => return None,
        };
    }
    Some(cur)
}

struct Stats {
    bound_ok: AtomicU64,
    rejected_as_expected: AtomicU64,
    later_clone_sequential_empty: AtomicU64,
    later_clone_sequential_full: AtomicU64,
    nonspec_order_rejected: AtomicU64,
    nonspec_order_cases: AtomicU64,
    rejected_by_cause: std::sync::Mutex<std::collections::BTreeMap<&'static str, u64>>,
}

fn spec_order(case: &Case) -> bool {
    // GraphQL multipart request spec: operations, then map, then the files
    case.order[0] == 0 && case.order[1] == 1
}

fn judge(cx: &Cx, sweep: &str, case: &Case, choices: Vec<u32>, out: Outcome, st: &Stats) {
    cx.eval();
    let ops_kind = if case.batch { "batch" } else { "single" };
    let mk_case = || json!({"sweep": sweep, "choices": choices, "case": case.desc, "body": String::from_utf8_lossy(&case.body)});
    let id = agv_engine::h64(&(sweep, &choices));
    if !spec_order(case) {
        st.nonspec_order_cases.fetch_add(1, Ordering::Relaxed);
    }
    // generator guard: with the BIG limit no non-file part may exceed it (else the accept side would be vacuous)
    if case.max_file_size == Some(BIG) && (case.ops.len() > BIG || case.map_text.len() > BIG) {
        cx.machinery_error("operations/map part larger than BIG");
    }
    // expectations
    let mut reasons: Vec<&str> = Vec::new();
    if case.map_entries.iter().any(|(name, _)| !case.files.iter().any(|f| f.name == *name)) {
        reasons.push("missing-file");
    }
    if let Some(m) = case.max_file_size {
        if case.files.iter().any(|f| f.content.len() > m) {
            reasons.push("file-too-large");
        }
    }
    if let Some(n) = case.max_num_files {
        if case.files.len() > n {
            reasons.push("too-many-files");
        }
    }
    let lim = |o: Option<usize>| o.map(|x| x.to_string()).unwrap_or_else(|| "none".into());
    match out {
        Outcome::Panic(p) => cx.violation(Violation::new("panic", format!("receive_batch_body panicked: {p}"), mk_case()).key("ops", ops_kind)),
        Outcome::Hang => cx.violation(Violation::new("hang", "receive_batch_body did not complete (no wake-up for 20 s)", mk_case()).key("ops", ops_kind)),
        Outcome::Err(e) => {
            if !reasons.is_empty() {
                st.rejected_as_expected.fetch_add(1, Ordering::Relaxed);
                cx.nontrivial(id);
                cx.sample_with(id, || json!({"case": case.desc, "expected": format!("Err ({})", reasons.join("+")), "observed": format!("Err({e})")}));
                return;
            }
            // a request inside every limit with every mapped file present was rejected
            // bytes handed over before the injected Pending (everything else then arrives, up to EOF, without another Pending)
            let before_pending: Option<usize> = case.pend_at.map(|k| {
                let mut pos = 0;
                for _ in 0..k {
                    let stop = case.cuts.iter().copied().find(|c| *c > pos).unwrap_or(case.body.len());
                    pos += 2048.min(stop - pos);
                }
                pos
            });
            // the multer defect shows as IncompleteStream (a size limit would show as PayloadTooLarge), so it is
            // recognised first: a request whose operations part is longer than max_file_size can hit it too
            let incomplete = e.to_string().contains("incomplete multipart stream");
            let cause = if incomplete && before_pending.is_some_and(|b| b < 2 + BOUNDARY.len()) {
                "pending-before-first-boundary-then-rest-to-eof"
            } else if case.max_file_size.is_some_and(|m| case.ops.len() > m || case.map_text.len() > m) {
                "non-file-part-over-max-file-size"
            } else if matches!((case.max_file_size, case.max_num_files), (Some(m), Some(n)) if case.body.len() > m * n) {
                "whole-stream-budget"
            } else if before_pending.is_some_and(|b| b < 2 + BOUNDARY.len()) {
                "pending-before-first-boundary-then-rest-to-eof"
            } else {
                "unexplained"
            };
            *st.rejected_by_cause.lock().unwrap().entry(cause).or_insert(0) += 1;
            if cause == "unexplained" && !spec_order(case) {
                // the multipart request spec fixes the order operations, map, files; rejecting another order is not judged
                if st.nonspec_order_rejected.fetch_add(1, Ordering::Relaxed) < 5 && std::env::var("AGV_C24_DEBUG").is_ok() {
                    eprintln!("nonspec rejected: {e} {}", case.desc);
                }
                return;
            }
            cx.violation(
                Violation::new(
                    "within-limits-rejected",
                    format!(
                        "every mapped file is present, every file ≤ max_file_size ({}) and the file count {} ≤ max_num_files ({}), yet the request was rejected: {e} [operations part {} B, map part {} B, body {} B]",
                        lim(case.max_file_size),
                        case.files.len(),
                        lim(case.max_num_files),
                        case.ops.len(),
                        case.map_text.len(),
                        case.body.len()
                    ),
                    mk_case(),
                )
                .key("cause", cause)
                .key("ops", ops_kind),
            );
        }
        Outcome::Ok { batch, reqs } => {
            if !reasons.is_empty() {
                let class = match reasons.as_slice() {
                    ["missing-file"] => "missing-file-accepted".to_string(),
                    ["file-too-large"] => "max-file-size-not-enforced".to_string(),
                    ["too-many-files"] => "max-num-files-not-enforced".to_string(),
                    more => format!("accepted-despite-{}", more.join("+")),
                };
                cx.violation(
                    Violation::new(
                        class,
                        format!(
                            "expected Err ({}) but the request was accepted: {} file part(s) of sizes {:?}, max_file_size={}, max_num_files={}",
                            reasons.join("+"),
                            case.files.len(),
                            case.files.iter().map(|f| f.content.len()).collect::<Vec<_>>(),
                            lim(case.max_file_size),
                            lim(case.max_num_files)
                        ),
                        mk_case(),
                    )
                    .key("max_file_size", if case.max_file_size.is_some() { "set" } else { "none" })
                    .key("max_num_files", if case.max_num_files.is_some() { "set" } else { "none" })
                    .key("ops", ops_kind),
                );
                return;
            }
            // binding
            let wrong = |what: &str, detail: String| {
                cx.violation(Violation::new("wrong-binding", detail, mk_case()).key("ops", ops_kind).key("what", what));
            };
            if batch != case.batch || reqs.len() != case.nreq {
                return wrong("shape", format!("expected {} request(s) ({ops_kind}), decoded {} (batch={batch})", case.nreq, reqs.len()));
            }
            let mut used: Vec<Vec<bool>> = reqs.iter().map(|r| vec![false; r.uploads.len()]).collect();
            let mut first_seen = vec![false; case.files.len()];
            // slots in (request, upload index) order of the real result so that "first clone" is well defined
            let mut bound: Vec<(usize, usize, usize, String)> = Vec::new(); // (request, upload idx, file idx, path)
            for (r, path, full) in &case.slots {
                let want = case.map_entries.iter().find(|(_, paths)| paths.contains(full)).map(|(name, _)| case.files.iter().position(|f| f.name == *name).expect("present"));
                let Some(val) = at_path(&reqs[*r].vars, path) else {
                    return wrong("variables-changed-shape", format!("request {r}: variable path {path} no longer exists: {}", reqs[*r].vars));
                };
                match want {
                    None => {
                        if !val.is_null() {
                            return wrong("unmapped-slot-changed", format!("request {r}: {path} is not mapped but holds {val}"));
                        }
                    }
                    Some(fi) => {
                        let Some(s) = val.as_str() else {
                            return wrong("marker-missing", format!("request {r}: {path} is mapped to file part {:?} but holds {val}", case.files[fi].name));
                        };
                        let parsed = agv_engine::catch_quiet(|| <Upload as InputType>::parse(Some(async_graphql::Value::String(s.to_string()))));
                        let idx = match parsed {
                            Ok(Ok(u)) => u.0,
                            _ => return wrong("marker-missing", format!("request {r}: {path} holds {s:?}, which Upload::parse does not accept")),
                        };
                        if idx >= reqs[*r].uploads.len() {
                            return wrong("dangling-marker", format!("request {r}: {path} refers to upload {idx} but the request carries {} uploads", reqs[*r].uploads.len()));
                        }
                        if used[*r][idx] {
                            return wrong("upload-shared", format!("request {r}: upload {idx} is referenced from two variable paths"));
                        }
                        used[*r][idx] = true;
                        bound.push((*r, idx, fi, path.clone()));
                    }
                }
            }
            bound.sort();
            for (r, idx, fi, path) in &bound {
                let u = &reqs[*r].uploads[*idx];
                let f = &case.files[*fi];
                if u.filename != f.filename {
                    return wrong("filename", format!("request {r}: {path} is mapped to file part {:?} ({}) but is bound to an upload named {}", f.name, f.filename, u.filename));
                }
                if u.content_type.as_deref() != f.ctype {
                    return wrong("content-type", format!("request {r}: {path}: content type {:?}, the part said {:?}", u.content_type, f.ctype));
                }
                if u.content != f.content {
                    return wrong("content", format!("request {r}: {path} is mapped to file part {:?} with content {:?} but the bound upload holds {:?}", f.name, String::from_utf8_lossy(&f.content), String::from_utf8_lossy(&u.content)));
                }
                if !first_seen[*fi] {
                    first_seen[*fi] = true;
                    if u.sequential != f.content {
                        return wrong("content-not-at-start", format!("request {r}: {path}: reading the upload from its current position gives {:?}, the file is {:?}", String::from_utf8_lossy(&u.sequential), String::from_utf8_lossy(&f.content)));
                    }
                } else if u.sequential.is_empty() && !f.content.is_empty() {
                    st.later_clone_sequential_empty.fetch_add(1, Ordering::Relaxed);
                } else {
                    st.later_clone_sequential_full.fetch_add(1, Ordering::Relaxed);
                }
            }
            for (r, us) in used.iter().enumerate() {
                if let Some(i) = us.iter().position(|b| !b) {
                    return wrong("extra-upload", format!("request {r}: upload {i} ({}) is attached but no mapped variable path refers to it", reqs[r].uploads[i].filename));
                }
            }
            st.bound_ok.fetch_add(1, Ordering::Relaxed);
            cx.nontrivial(id);
            cx.sample_with(id, || json!({"case": case.desc, "expected": "Ok, bound as mapped", "observed": reqs.iter().map(|r| json!({"variables": r.vars, "uploads": r.uploads.iter().map(|u| json!({"filename": u.filename, "content": String::from_utf8_lossy(&u.content)})).collect::<Vec<_>>()})).collect::<Vec<_>>()}));
        }
    }
}

// ---------------------------------------------------------------------------------------------

fn sweep(cx: &Cx, name: &str, plan: Plan, bounds: [u32; 4], st: &Stats) -> Value {
    let t0 = std::time::Instant::now();
    let stats = explore(
        &ExploreCfg::bounds(bounds),
        &|ch: &mut Chooser| {
            let case = build_case(ch, &plan);
            let out = execute(&case);
            (case, out)
        },
        &|ch: &Chooser, (case, out): (Case, Outcome)| judge(cx, name, &case, ch.choices(), out, st),
    );
    if let Some(d) = &stats.diverged {
        cx.machinery_error(format!("sweep {name} diverged: {d}"));
    }
    if stats.capped {
        cx.machinery_error(format!("sweep {name} capped"));
    }
    json!({"executions": stats.executions, "choice_points": stats.points, "max_depth": stats.max_depth, "bounds[cuts,pending,structure-deviations,flavour]": bounds, "seconds": (t0.elapsed().as_secs_f64() * 10.0).round() / 10.0})
}

/// (plan, bounds [cuts, pending, structural deviations, flavour]) of a named sweep
fn plan_for(sweep: &str) -> (Plan, [u32; 4]) {
    let ex = Class::Exhaustive;
    match sweep {
        // quick: complete product of everything that decides the binding, no limits, body read whole
        "binding" => (Plan { sc: ex, fc: Class::Dev(3), perm_cap: 120, ask_paths: true, ask_limits: false }, [0, 0, 0, 0]),
        // quick: complete product of everything that decides limit enforcement, default paths, body read whole
        "limits" => (Plan { sc: ex, fc: Class::Dev(3), perm_cap: 120, ask_paths: false, ask_limits: true }, [0, 0, 0, 0]),
        // quick: the default case and each single structural deviation (incl. flavour) × every single cut offset
        "cuts" => (Plan { sc: Class::Dev(2), fc: Class::Dev(2), perm_cap: 120, ask_paths: true, ask_limits: true }, [1, 0, 1, 0]),
        // quick: the default case × every single cut offset × one Pending before any read
        "pending" => (Plan { sc: Class::Dev(2), fc: Class::Dev(3), perm_cap: 120, ask_paths: true, ask_limits: true }, [1, 1, 0, 0]),
        // thorough: the complete structural product with complete permutations, body read whole
        "structure" => (Plan { sc: ex, fc: Class::Dev(3), perm_cap: 720, ask_paths: true, ask_limits: true }, [0, 0, 0, 0]),
        // thorough: the default case × every pair of cut offsets × one Pending × flavour
        "cut-pairs" => (Plan { sc: Class::Dev(2), fc: Class::Dev(3), perm_cap: 120, ask_paths: true, ask_limits: true }, [2, 1, 0, 1]),
        // thorough: up to two structural deviations (flavour is one of them) × every single cut
        "reads2" => (Plan { sc: Class::Dev(2), fc: Class::Dev(2), perm_cap: 120, ask_paths: true, ask_limits: true }, [1, 0, 2, 0]),
        // thorough: single structural deviation × every single cut × one Pending
        "pending2" => (Plan { sc: Class::Dev(2), fc: Class::Dev(2), perm_cap: 120, ask_paths: true, ask_limits: true }, [1, 1, 1, 0]),
        _ => panic!("unknown sweep {sweep}"),
    }
}

pub fn run(cx: &Cx) {
    cx.rule(
        "case = one multipart body + limits + read plan, decoded by receive_batch_body. Dimensions: {batch of 2, single} × 1–3 mapped files × 1–2 paths per file × 3 slot assignments × \
         {all present, extra unmapped file part, file j missing} × every permutation of the parts × max_file_size {none, 4, 200} × max_num_files {none, 1, 2} × file sizes {all L-1, all L, one file L+1} \
         (L = the size limit; without one: all 3 / mixed 3-4-5) × content {plain, boundary look-alike} × read plan {whole, cut offsets, one Pending}. Quick: sweep `binding` = complete product of the binding \
         dimensions without limits; `limits` = complete product of the limit dimensions with default paths (both: permutations complete for ≤5 parts, a 26-element subset for 6 parts, body read whole); \
         `cuts` = default case and each single structural deviation × every single cut offset; `pending` = default case × every single cut offset × one Pending before any read. Thorough: `structure` = the complete \
         product of all structural dimensions with all 720 permutations (plain content); `cut-pairs` = default case × every pair of cut offsets × one Pending × flavour; `reads2` = ≤2 structural deviations (flavour \
         being one) × every single cut; `pending2` = ≤1 structural deviation × every single cut × one Pending. Non-trivial = executions accepted with ≥1 file bound exactly as mapped, or rejected as the reference demands (missing file / file too large / too many files).",
    );
    cx.assume("a map path that names no existing variable, two files mapped to the same path, duplicate part names (except next to a missing file, where the expectation does not depend on them) and a batch index out of range are outside the enumerated space (the statement does not say what they mean)");
    cx.assume("an extra unmapped file part counts towards max_num_files and max_file_size (it is an uploaded file) and must not be bound anywhere");
    cx.assume("part orders other than operations, map, files are accepted by the code; had they been rejected that would not be judged (the multipart request spec fixes the order) — counted in nonspec_order_rejected");
    cx.assume("content is compared position-independently (pread) for every bound upload and additionally by a sequential read for the first upload of each file; that later clones of the same file share the descriptor offset is recorded, not judged");
    let quick = cx.quick();
    // uploads are spooled to anonymous temp files (tempfile feature); keep them on tmpfs when there is one
    if std::env::var_os("TMPDIR").is_none() && std::path::Path::new("/dev/shm").is_dir() {
        std::env::set_var("TMPDIR", "/dev/shm");
    }
    let st = Stats {
        bound_ok: AtomicU64::new(0),
        rejected_as_expected: AtomicU64::new(0),
        later_clone_sequential_empty: AtomicU64::new(0),
        later_clone_sequential_full: AtomicU64::new(0),
        nonspec_order_rejected: AtomicU64::new(0),
        nonspec_order_cases: AtomicU64::new(0),
        rejected_by_cause: Default::default(),
    };
    let mut sweeps = serde_json::Map::new();
    let names: &[&str] = if quick { &["binding", "limits", "cuts", "pending"] } else { &["structure", "cut-pairs", "reads2", "pending2"] };
    for name in names {
        let (plan, bounds) = plan_for(name);
        sweeps.insert(name.to_string(), sweep(cx, name, plan, bounds, &st));
    }
    cx.extra("sweeps", Value::Object(sweeps));
    cx.extra(
        "outcomes",
        json!({
            "accepted_and_bound_as_mapped": st.bound_ok.load(Ordering::Relaxed),
            "rejected_as_reference_demands": st.rejected_as_expected.load(Ordering::Relaxed),
            "within_limits_rejected_by_cause": json!(*st.rejected_by_cause.lock().unwrap()),
            "cases_in_non_spec_part_order": st.nonspec_order_cases.load(Ordering::Relaxed),
            "nonspec_order_rejected(not judged)": st.nonspec_order_rejected.load(Ordering::Relaxed),
            "second clone of a file read sequentially: empty (shared offset)": st.later_clone_sequential_empty.load(Ordering::Relaxed),
            "second clone of a file read sequentially: full": st.later_clone_sequential_full.load(Ordering::Relaxed),
        }),
    );
    cx.exhaustive(true);
}

pub fn replay(case: &Value) -> String {
    let sweep = case["sweep"].as_str().unwrap_or("structure");
    let choices: Vec<u32> = case["choices"].as_array().map(|a| a.iter().map(|x| x.as_u64().unwrap_or(0) as u32).collect()).unwrap_or_default();
    let (plan, _) = plan_for(sweep);
    let mut ch = Chooser::from_choices(&choices);
    let c = build_case(&mut ch, &plan);
    let o = execute(&c);
    let shown = match &o {
        Outcome::Ok { batch, reqs } => format!(
            "Ok(batch={batch}) {}",
            json!(reqs.iter().map(|r| json!({"variables": r.vars, "uploads": r.uploads.iter().map(|u| json!({"filename": u.filename, "content_type": u.content_type, "content": String::from_utf8_lossy(&u.content)})).collect::<Vec<_>>()})).collect::<Vec<_>>())
        ),
        other => format!("{other:?}"),
    };
    format!("case {}\n  body {:?}\n  result: {shown}", c.desc, String::from_utf8_lossy(&c.body))
}

fn main() {
    agv_engine::driver::main("C24", "exploration", run, Some(replay))
}
