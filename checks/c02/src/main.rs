//! C02 — query results follow the spec's field collection and completion (dynamic schemas).
//!
//! Space: dynamic type systems generated from three exemplar IRs by ≤ 1 (quick) /
//! ≤ 2 (thorough) edits (field wrapper, union member, implementor, enum value,
//! custom scalar) × both value encodings the dynamic API allows × every valid
//! document ≤ N nodes over each schema × lazily enumerated worlds (values, and
//! kind-mismatching values that must be *checked*). Oracle: reference executor.

use agv_common::casecheck::{first_diff, run_static2, CaseOutcome, Compared, Target};
use agv_common::dynamic::{build, Encoding};
use agv_common::gen::GenCfg;
use agv_common::glue::{table_json, MenuCfg};
use agv_common::s1;
use agv_engine::explore::{explore, Chooser, Class, ExploreCfg};
use agv_engine::record::{Cx, Violation};
use agv_refgql::ast::{OpKind, Type};
use agv_refgql::exec::{errors_consistent, path_str, Ans, ErrKind};
use agv_refgql::schema::{Kind, Schema};
use serde_json::{json, Value as J};
use std::sync::atomic::{AtomicU64, Ordering};

const CHAIN_SDL: &str = r#"
type Query { i: I  j: J  k: K!  u: U  li: [I!]  e: E  ev: Even  a: Int! }
interface I { a: Int! }
interface J implements I { a: Int!  b: Int }
type K implements J & I { a: Int!  b: Int  c: Int  e: E  next: I }
type L implements I { a: Int!  d: Int }
type M { m: Int  k: K }
union U = K | L | M
enum E { X Y }
scalar Even
"#;
const LEAF_SDL: &str = r#"
type Query { e: E  enn: E!  le: [E!]  ev: Even  evn: Even!  s: String  f: Float  b: Boolean  id: ID  o: O }
type O { e: E  ev: Even  lf: [Float]  s: String! }
enum E { X Y }
scalar Even
"#;

struct Variant {
    /// an unedited exemplar (explored deeper than its edits)
    exemplar: bool,
    label: String,
    ir: Schema,
    schema: async_graphql::dynamic::Schema,
    fields: Vec<(String, Vec<String>)>,
    conds: Vec<String>,
}

fn wrappers(base: &str) -> Vec<Type> {
    let n = || Type::named(base);
    vec![n(), n().nn(), n().list(), n().nn().list().nn(), n().list().nn(), n().nn().list()]
}

/// every IR one edit away from `ir`
fn edits(ir: &Schema) -> Vec<(String, Schema)> {
    let mut out = Vec::new();
    let objs: Vec<String> = ir.types.values().filter(|t| matches!(t.kind, Kind::Object { .. })).map(|t| t.name.clone()).collect();
    for (tn, t) in &ir.types {
        match &t.kind {
            Kind::Object { fields, interfaces } => {
                // wrapper changes (object fields not constrained by an interface)
                for (fi, f) in fields.iter().enumerate() {
                    let constrained = interfaces.iter().any(|i| ir.field(i, &f.name).is_some());
                    if constrained {
                        continue;
                    }
                    for w in wrappers(f.ty.base()) {
                        if w != f.ty {
                            let mut n = ir.clone();
                            if let Kind::Object { fields, .. } = &mut n.types.get_mut(tn).unwrap().kind {
                                fields[fi].ty = w.clone();
                            }
                            out.push((format!("{tn}.{}:{}", f.name, w), n));
                        }
                    }
                    // switch a leaf Int to the custom scalar
                    if f.ty.base() == "Int" && ir.types.contains_key("Even") {
                        let mut n = ir.clone();
                        if let Kind::Object { fields, .. } = &mut n.types.get_mut(tn).unwrap().kind {
                            fields[fi].ty = match &f.ty {
                                Type::NonNull(_) => Type::named("Even").nn(),
                                _ => Type::named("Even"),
                            };
                        }
                        out.push((format!("{tn}.{}:Even", f.name), n));
                    }
                }
                // drop one implemented interface (only leaves of the implements graph stay consistent)
                for i in interfaces {
                    let needed_by_other = interfaces.iter().any(|j| j != i && ir.all_interfaces(j).contains(i));
                    if !needed_by_other {
                        let mut n = ir.clone();
                        if let Kind::Object { interfaces, .. } = &mut n.types.get_mut(tn).unwrap().kind {
                            interfaces.retain(|x| x != i);
                        }
                        out.push((format!("{tn}-implements-{i}"), n));
                    }
                }
            }
            Kind::Union { members } => {
                for o in &objs {
                    if !members.contains(o) && Some(o) != Some(&ir.query) {
                        let mut n = ir.clone();
                        if let Kind::Union { members } = &mut n.types.get_mut(tn).unwrap().kind {
                            members.push(o.clone());
                        }
                        out.push((format!("{tn}+={o}"), n));
                    }
                }
                if members.len() > 1 {
                    let mut n = ir.clone();
                    if let Kind::Union { members } = &mut n.types.get_mut(tn).unwrap().kind {
                        members.pop();
                    }
                    out.push((format!("{tn}-=last"), n));
                }
            }
            Kind::Enum { .. } => {
                let mut n = ir.clone();
                if let Kind::Enum { values } = &mut n.types.get_mut(tn).unwrap().kind {
                    values.push(("Z".into(), None, None));
                }
                out.push((format!("{tn}+Z"), n));
            }
            _ => {}
        }
    }
    out
}

/// field subset offered for the dynamic twin of S1 (the same as C01's)
const S1_FIELDS: &[(&str, &[&str])] = &[("Query", &["a", "n", "o", "i", "u", "l", "f"]), ("A", &["a", "n", "o", "pa"]), ("B", &["a", "pb"]), ("C", &["a", "pc"]), ("I", &["a", "n"]), ("J", &["a"]), ("U", &[])];

fn variant(label: String, ir: Schema, enc: Encoding, build_failures: &AtomicU64) -> Option<Variant> {
    match build(&ir, enc) {
        Ok(schema) => {
            let mut fields = Vec::new();
            let mut conds = Vec::new();
            if label.starts_with("D(S1)") {
                for (t, fs) in S1_FIELDS {
                    fields.push((t.to_string(), fs.iter().map(|f| f.to_string()).collect()));
                    conds.push(t.to_string());
                }
                conds.retain(|c| c != "C" && c != "Query");
                return Some(Variant { exemplar: !label.contains(" / "), label: format!("{label} enum_as_string={} list_as_value={}", enc.enum_as_string, enc.list_as_value), ir, schema, fields, conds });
            }
            for t in ir.types.values() {
                match &t.kind {
                    Kind::Object { fields: fs, .. } | Kind::Interface { fields: fs, .. } => {
                        fields.push((t.name.clone(), fs.iter().take(8).map(|f| f.name.clone()).collect()));
                        conds.push(t.name.clone());
                    }
                    Kind::Union { .. } => {
                        fields.push((t.name.clone(), vec![]));
                        conds.push(t.name.clone());
                    }
                    _ => {}
                }
            }
            Some(Variant { exemplar: !label.contains(" / "), label: format!("{label} enum_as_string={} list_as_value={}", enc.enum_as_string, enc.list_as_value), ir, schema, fields, conds })
        }
        Err(_) => {
            // whether a type system builds is C33's property; here it only shrinks the family
            build_failures.fetch_add(1, Ordering::Relaxed);
            None
        }
    }
}

struct Cnt {
    not_doc: AtomicU64,
    invalid: AtomicU64,
    agree: AtomicU64,
    wrong_kind_cases: AtomicU64,
}

fn judge(cx: &Cx, c: &Compared, label: &str, cnt: &Cnt) {
    let exp = c.reference.data.as_ref().unwrap();
    let exp_text = c.expected_data_text();
    let got: J = serde_json::from_str(&c.obs.data).unwrap_or(J::Null);
    let got_paths: Vec<_> = c.obs.errors.iter().map(|e| e.path.clone()).collect();
    let wrong_kind = c.table.values().any(|a| matches!(a, Ans::WrongKind));
    if wrong_kind {
        cnt.wrong_kind_cases.fetch_add(1, Ordering::Relaxed);
    }
    let nonfinite = c.reference.errors.iter().any(|e| e.kind == ErrKind::Completion && matches!(c.table.get(&path_str(&e.path)), Some(Ans::Float(f)) if !f.is_finite()));
    let mut case = c.case_json();
    case["schema"] = json!(label);
    let describe = || {
        format!(
            "schema variant {label}\n expected data {exp_text} errors at {:?}\n got      data {} errors {:?}",
            c.reference.errors.iter().map(|e| path_str(&e.path)).collect::<Vec<_>>(),
            c.obs.data,
            c.obs.errors.iter().map(|e| (path_str(&e.path), e.message.clone())).collect::<Vec<_>>()
        )
    };
    let cause = if nonfinite {
        "non-finite-float"
    } else if wrong_kind {
        "wrong-kind-value"
    } else {
        "values-only"
    };
    let (dedup, dups) = agv_common::casecheck::strip_repeated_key_duplicates(&c.doc, &c.obs);
    if dups > 0 && c.obs.data == exp_text && errors_consistent(&c.reference.errors, &dedup).is_ok() {
        cx.violation(Violation::new("error-duplicated-for-repeated-key", format!("a failing field selected by several nodes with one response key is reported once per node\n {}", describe()), case).key("flavour", "dynamic"));
        return;
    }
    if c.obs.data != exp_text {
        let diff = first_diff(exp, &got, "").unwrap_or_else(|| "serialization differs".into());
        let kind = diff.split(' ').next().unwrap_or("differs").to_string();
        // a null expected at/below a response key that several field nodes carry, with an expected error below it:
        // each node was executed separately and the results merged afterwards, so the null one execution produced
        // is overwritten by the object another produced (root cause of the C04 finding; classified as in C03)
        let at = diff.split(" at ").nth(1).unwrap_or("").trim();
        let at_path: Vec<&str> = at.split('/').filter(|s| !s.is_empty()).collect();
        let repeated = at_path.iter().filter(|s| s.parse::<usize>().is_err()).any(|k| agv_common::casecheck::key_occurrences(&c.doc, k) > 1);
        let error_below = c.reference.errors.iter().any(|e| {
            let p = path_str(&e.path);
            let pre = at_path.join(".");
            p == pre || p.starts_with(&format!("{pre}."))
        });
        if kind == "expected-null" && repeated && error_below {
            cx.violation(Violation::new("partial-failure-merged-for-repeated-key", format!("{diff}\n {}", describe()), case).key("flavour", "dynamic"));
            return;
        }
        cx.violation(Violation::new(format!("data-{kind}"), format!("{diff}\n {}", describe()), case).key("cause", cause).key("features", c.features.join(",")));
    } else if let Err(e) = errors_consistent(&c.reference.errors, &got_paths) {
        let class = if e.starts_with("expected an error") { "error-missing" } else { "error-unexpected-or-duplicate" };
        cx.violation(Violation::new(class, format!("{e}\n {}", describe()), case).key("cause", cause).key("features", c.features.join(",")));
    } else if let Some(e) = c.obs.errors.iter().find(|e| e.path.is_empty()) {
        cx.violation(Violation::new("error-without-path", format!("error {:?} carries no path\n {}", e.message, describe()), case).key("cause", cause));
    } else if exp_text.len() > 2 && exp_text != "null" {
        cnt.agree.fetch_add(1, Ordering::Relaxed);
    }
}

/// Family B — "chain pairs" (same construction as C01's): every pair of selection chains of depth ≤ 3 through
/// object, interface and list-of-object fields of D(S1), written side by side under the same root so that
/// repeated response keys have to be merged at depth; the second chain also behind an inline fragment and a
/// named fragment on Query when the two chains share their root field. Lists have 2 items.
fn chains() -> Vec<String> {
    let root: &[&str] = &["o", "l", "ln", "i", "lu"];
    fn below(c: &str) -> (&'static [&'static str], &'static [&'static str], &'static str, &'static str) {
        match c {
            "i" => (&["o"], &["a", "n"], "", ""),
            "lu" => (&["o", "l"], &["a", "n"], "... on A { ", " }"),
            _ => (&["o", "l", "ln"], &["a", "n", "pa"], "", ""),
        }
    }
    fn rec(c: &str, depth: usize, out: &mut Vec<String>) {
        let (conts, leaves, open, close) = below(c);
        for l in leaves {
            out.push(format!("{c} {{ {open}{l}{close} }}"));
        }
        if depth > 1 {
            for k in conts {
                let mut inner = Vec::new();
                rec(k, depth - 1, &mut inner);
                for i in inner {
                    out.push(format!("{c} {{ {open}{i}{close} }}"));
                }
            }
        }
    }
    let mut out = Vec::new();
    for c in root {
        rec(c, 3, &mut out);
    }
    out
}

struct Lists2<'a> {
    s: &'a Schema,
    table: std::collections::BTreeMap<String, Ans>,
}
impl<'a> agv_refgql::exec::World for Lists2<'a> {
    fn ask(&mut self, path: &[agv_refgql::exec::Seg], ty: &Type, _f: Option<(&str, &agv_refgql::schema::FieldT, &[(String, agv_refgql::coerce::Val)])>) -> Ans {
        if matches!(ty.nullable(), Type::List(_)) {
            self.table.insert(path_str(path), Ans::List(2));
            Ans::List(2)
        } else {
            agv_refgql::exec::TableWorld::default_for(self.s, ty)
        }
    }
}

fn chain_pairs(cx: &Cx, v: &Variant, cnt: &Cnt) -> u64 {
    use rayon::prelude::*;
    let cs = chains();
    let n = cs.len();
    let quick = cx.quick();
    let mut texts: Vec<String> = Vec::new();
    for i in 0..n {
        for j in 0..n {
            let same_root = cs[i].split(' ').next() == cs[j].split(' ').next();
            if !quick || (i + j) % 3 == 0 || same_root {
                texts.push(format!("{{ {} {} }}", cs[i], cs[j]));
            }
            if same_root && i != j && (!quick || (i + j) % 2 == 0) {
                texts.push(format!("{{ {} ... on Query {{ {} }} }}", cs[i], cs[j]));
                texts.push(format!("{{ ...F {} }} fragment F on Query {{ {} }}", cs[i], cs[j]));
            }
        }
    }
    texts.par_iter().for_each(|text| {
        let Ok(doc) = agv_refgql::parse::parse_exec(text) else { return cx.machinery_error(format!("chain document does not parse: {text}")) };
        if !agv_refgql::validate::validate(&v.ir, &doc).is_empty() {
            return cx.machinery_error(format!("chain document is not valid: {text}"));
        }
        let mut w = Lists2 { s: &v.ir, table: Default::default() };
        let reference = agv_refgql::exec::execute(&v.ir, &doc, None, &Default::default(), &mut w);
        match agv_common::casecheck::run_fixed(&v.ir, &Target::Dynamic(&v.schema), text.clone(), doc, Default::default(), w.table, vec!["chain-pair"], Some(reference)) {
            CaseOutcome::Ran(c) => {
                cx.eval();
                judge(cx, &c, &v.label, cnt);
                let h = agv_engine::h64(&(&v.label, c.case_hash()));
                cx.nontrivial(h);
                cx.sample_with(h, || json!({"family": "chain-pair", "schema": v.label, "query": c.text, "data": c.expected_data_text()}));
            }
            CaseOutcome::Machinery(m) => cx.machinery_error(m),
            CaseOutcome::Panic { msg, mut case } => {
                case["schema"] = json!(v.label);
                cx.violation(Violation::new("panic", format!("execute panicked: {msg}"), case))
            }
            _ => {}
        }
    });
    texts.len() as u64
}

fn run(cx: &Cx) {
    run_inner(cx, None)
}

fn run_inner(cx: &Cx, only: Option<&J>) {
    let quick = cx.quick() && only.is_none();
    let build_failures = AtomicU64::new(0);
    let mut variants: Vec<Variant> = Vec::new();
    let exemplars: Vec<(&str, Schema)> = vec![("D(S1)", Schema::from_sdl(s1::SDL).unwrap()), ("chain", Schema::from_sdl(CHAIN_SDL).unwrap()), ("leaves", Schema::from_sdl(LEAF_SDL).unwrap())];
    let encs = [Encoding { enum_as_string: false, list_as_value: false }, Encoding { enum_as_string: true, list_as_value: true }];
    for (name, ir) in &exemplars {
        for enc in encs {
            if let Some(v) = variant(name.to_string(), ir.clone(), enc, &build_failures) {
                variants.push(v);
            } else {
                return cx.machinery_error(format!("exemplar {name} does not build as a dynamic schema"));
            }
        }
        // D(S1) is large: its edits are left to the thorough tier
        if *name == "D(S1)" && quick {
            continue;
        }
        let all_edits = edits(ir);
        // quick: every 3rd single edit (all of them in the thorough tier)
        // thorough: every edit of the small exemplars, every 4th of D(S1) (its full edit family ran > 1 h)
        let step = if quick { 3 } else if *name == "D(S1)" { 4 } else { 1 };
        for (l1, e1) in all_edits.into_iter().step_by(step) {
            if let Some(v) = variant(format!("{name} / {l1}"), e1.clone(), encs[0], &build_failures) {
                variants.push(v);
            }
            // pairs of edits: only for the small leaves exemplar (the chain's pair family alone is > 10^4 schemas)
            if !quick && *name == "leaves" {
                for (l2, e2) in edits(&e1).into_iter().step_by(4) {
                    if let Some(v) = variant(format!("{name} / {l1} / {l2}"), e2, encs[0], &build_failures) {
                        variants.push(v);
                    }
                }
            }
        }
    }
    let cnt = Cnt { not_doc: AtomicU64::new(0), invalid: AtomicU64::new(0), agree: AtomicU64::new(0), wrong_kind_cases: AtomicU64::new(0) };
    if let Some(case) = only {
        let label = case["schema"].as_str().unwrap_or("");
        let Some(v) = variants.iter().find(|v| v.label == label) else { return cx.machinery_error(format!("schema variant {label:?} is not in the family any more")) };
        match agv_common::casecheck::replay_fixed(&v.ir, &Target::Dynamic(&v.schema), case) {
            CaseOutcome::Ran(c) => {
                cx.eval();
                println!(" query {}\n world {}\n expected data {}\n got {}", c.text, table_json(&c.table), c.expected_data_text(), c.obs.to_json());
                judge(cx, &c, &v.label, &cnt);
            }
            CaseOutcome::Panic { msg, .. } => println!("panicked: {msg}"),
            CaseOutcome::Machinery(m) => cx.machinery_error(m),
            _ => println!("not a valid document"),
        }
        return;
    }
    let nodes = if quick { 3 } else { 4 };
    let nvar = variants.len();
    // non-finite floats cannot be expressed as a dynamic `Value` (Number::from_f64 refuses them)
    let menu = MenuCfg { errors: false, non_finite: false, wrong_kind: true, rich: true };
    let st = explore(
        &ExploreCfg { bounds: [1, 1, 1, 0], ..Default::default() },
        &|ch: &mut Chooser| {
            let vi = ch.any("schema-variant", nvar);
            let v = &variants[vi];
            let fields: Vec<(&str, Vec<&str>)> = v.fields.iter().map(|(t, fs)| (t.as_str(), fs.iter().map(|s| s.as_str()).collect())).collect();
            let fields2: Vec<(&str, &[&str])> = fields.iter().map(|(t, fs)| (*t, fs.as_slice())).collect();
            let conds: Vec<&str> = v.conds.iter().map(|s| s.as_str()).collect();
            let gcfg = GenCfg { schema: &v.ir, fields: &fields2, conds: &conds, max_nodes: if v.exemplar { nodes } else { nodes - 1 }, max_depth: 3, named_fragments: 1, deco: Some(Class::Dev(0)), typename: true, op: OpKind::Query, root_fragments: true };
            let filter = agv_common::dynamic::world_filter(&v.ir);
            (vi, run_static2(&v.ir, &Target::Dynamic(&v.schema), &gcfg, ch, menu, Class::Dev(1), Some(Class::Dev(2)), Some(&filter)))
        },
        &|_, (vi, o)| match o {
            CaseOutcome::NotDoc => {
                cnt.not_doc.fetch_add(1, Ordering::Relaxed);
            }
            CaseOutcome::Invalid => {
                cnt.invalid.fetch_add(1, Ordering::Relaxed);
            }
            CaseOutcome::Machinery(m) => cx.machinery_error(m),
            CaseOutcome::Panic { msg, mut case } => {
                cx.eval();
                case["schema"] = json!(variants[vi].label);
                cx.violation(Violation::new("panic", format!("execute panicked: {msg}"), case));
            }
            CaseOutcome::Ran(c) => {
                cx.eval();
                judge(cx, &c, &variants[vi].label, &cnt);
                let h = agv_engine::h64(&(vi, c.case_hash()));
                cx.nontrivial(h);
                cx.sample_with(h, || json!({"schema": variants[vi].label, "query": c.text, "variables": J::Object(c.vars.clone()), "world": table_json(&c.table), "data": c.expected_data_text()}));
            }
        },
    );
    if let Some(d) = st.diverged {
        cx.machinery_error(d);
    }
    let mut chain_docs = 0;
    for v in variants.iter().filter(|v| v.label.starts_with("D(S1)") && v.exemplar) {
        chain_docs += chain_pairs(cx, v, &cnt);
    }
    cx.extra("chain_pair_documents", json!(chain_docs));
    if cnt.agree.load(Ordering::Relaxed) == 0 {
        cx.machinery_error("reference and implementation never agreed on a non-empty result");
    }
    cx.rule(&format!(
        "case = (dynamic schema variant, valid document, variables, world). {nvar} schema variants (3 exemplars: the dynamic twin of S1, an interface-inheritance chain with a union and a validated custom scalar, a leaves schema; each under both value encodings; every single edit (quick: every 3rd, none of D(S1); thorough: all, every 4th of D(S1)){} of: field wrapper over the 6 wrappers, leaf→custom scalar, union ±member, −implements, +enum value; variants the builder rejects are dropped) × every document ≤ {nodes} nodes for the exemplars and ≤ nodes−1 for their edits (≤ 1 decoration) × worlds with ≤ 1 value deviation and ≤ 1 kind-mismatching value. Family B (both encodings of D(S1)): every pair (quick: every third pair plus all pairs sharing their root field) of selection chains of depth ≤ 3 through o/l/ln/i/lu side by side, the second one also behind an inline and a named fragment on Query when the roots coincide; lists with 2 items (deep merging of repeated keys). Non-trivial = executed cases, distinct by (variant, document, variables, world).",
        if quick { "" } else { " and pair of edits" }
    ));
    cx.exhaustive(!st.capped);
    cx.extra("schema_variants", json!(nvar));
    cx.extra("variants_rejected_by_builder", json!(build_failures.load(Ordering::Relaxed)));
    cx.extra("choice_sequences", json!(st.executions));
    cx.extra("not_a_document", json!(cnt.not_doc.load(Ordering::Relaxed)));
    cx.extra("invalid_by_reference_validator", json!(cnt.invalid.load(Ordering::Relaxed)));
    cx.extra("agreements_nonempty", json!(cnt.agree.load(Ordering::Relaxed)));
    cx.extra("cases_with_wrong_kind_value", json!(cnt.wrong_kind_cases.load(Ordering::Relaxed)));
    cx.assume("a null list item of an OBJECT type cannot be expressed through the dynamic API (FieldValue::NULL is accepted as an object's parent value; the repo's own tests rely on that), so worlds do not contain one");
    cx.assume("the property says 'randomly generated dynamic type systems': here the family is enumerated (exemplars × all single/pair edits), not sampled");
}

fn replay(case: &J) -> String {
    let cx = Cx::scratch("C02", "exploration");
    run_inner(&cx, Some(case));
    cx.nontrivial_count(2);
    cx.finish_scratch()
}

fn main() {
    agv_engine::driver::main("C02", "exploration", run, Some(replay))
}
