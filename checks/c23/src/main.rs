//! C23 — all HTTP request encodings decode to the same request; batches keep order.
//!
//! Seams: `async_graphql::http::{receive_json, receive_batch_json, parse_query_string,
//! receive_body, receive_batch_body}` (the latter two also with a multipart content type)
//! and `Schema::execute_batch`.
//!
//! Part 1  complete request product (6 documents × 3 operation names × 4 variables × 2
//!         extensions) × every encoding variant; oracle: decoded (query, operationName,
//!         variables, extensions) equal the original.
//! Part 2  every ordering of ≤ 3 (thorough ≤ 4) distinct requests as a JSON batch and as a
//!         multipart `operations` batch: decoded order = original order.
//! Part 3  the same orderings decoded and executed by `Schema::execute_batch` on a schema
//!         whose resolvers wait on scheduler gates; every completion order is explored with
//!         `explore` + `sched::run`; response i must answer request i in every schedule.
//! Part 4  malformed encodings (every byte prefix of exemplar encodings, structural JSON
//!         errors, bad JSON inside `variables=` / `extensions=`, `[]`, broken multipart
//!         framing / content types) must give `Err(ParseRequestError)`: never a panic, never
//!         `Ok` with content other than what the encoding denotes.

use agv_engine::explore::{explore, Chooser, ExploreCfg};
use agv_engine::record::{Cx, Violation};
use agv_engine::sched::{self, End, Handle, RunCfg};
use async_graphql::http::{parse_query_string, receive_batch_body, receive_batch_json, receive_body, receive_json, MultipartOptions};
use async_graphql::{BatchRequest, BatchResponse, Context, EmptyMutation, EmptySubscription, Object, ParseRequestError, Request, Schema};
use rayon::prelude::*;
use serde_json::{json, Map, Value};
use std::collections::BTreeSet;
use std::sync::Mutex;

/// When true, a `%` not followed by two hex digits and percent-decoded bytes that are not UTF-8
/// count as malformed (RFC 3986 reading). The GraphQL-over-HTTP draft prescribes WHATWG
/// URLSearchParams decoding, under which both have a defined denotation (literal `%`, U+FFFD),
/// so the default is to accept `Err` or exactly that denotation.
const STRICT_PERCENT: bool = false;

const BOUNDARY: &str = "XBOUNDX";

// ---------------------------------------------------------------------------------------------
// request specifications and observations

#[derive(Clone, Debug, PartialEq)]
struct Spec {
    query: String,
    op: Option<String>,
    vars: Option<Value>,
    ext: Option<Value>,
}

#[derive(Clone, Debug, PartialEq)]
struct Obs {
    query: String,
    op: Option<String>,
    vars: Value,
    ext: Value,
}

impl Spec {
    fn expected(&self) -> Obs {
        Obs { query: self.query.clone(), op: self.op.clone(), vars: self.vars.clone().unwrap_or_else(|| json!({})), ext: self.ext.clone().unwrap_or_else(|| json!({})) }
    }
    fn to_json(&self) -> Value {
        let mut m = Map::new();
        m.insert("query".into(), json!(self.query));
        if let Some(o) = &self.op {
            m.insert("operationName".into(), json!(o));
        }
        if let Some(v) = &self.vars {
            m.insert("variables".into(), v.clone());
        }
        if let Some(e) = &self.ext {
            m.insert("extensions".into(), e.clone());
        }
        Value::Object(m)
    }
}

fn obs_of(r: &Request) -> Obs {
    Obs {
        query: r.query.clone(),
        op: r.operation_name.clone(),
        vars: serde_json::to_value(&r.variables).unwrap_or(Value::Null),
        ext: serde_json::to_value(&r.extensions).unwrap_or(Value::Null),
    }
}

fn obs_json(o: &Obs) -> Value {
    json!({"query": o.query, "operationName": o.op, "variables": o.vars, "extensions": o.ext})
}

fn documents() -> Vec<&'static str> {
    vec![
        "{a}",
        "query A { a }",
        "{ s(x: \"q\\\"uo#te\") } # c&d=e+f%g",
        "{\n  a\n}",
        "{ s(x: \"é\") }",
        "query A{a} query B{a} # 100%25 a+b %zz",
    ]
}

fn product() -> Vec<Spec> {
    let ops: [Option<&str>; 3] = [None, Some("A"), Some("a b&c")];
    let vars: [Option<Value>; 4] = [None, Some(json!({})), Some(json!({"a":1})), Some(json!({"s":"&=%+ é"}))];
    let exts: [Option<Value>; 2] = [None, Some(json!({"k":"v"}))];
    let mut out = Vec::new();
    for d in documents() {
        for o in &ops {
            for v in &vars {
                for e in &exts {
                    out.push(Spec { query: d.to_string(), op: o.map(|s| s.to_string()), vars: v.clone(), ext: e.clone() });
                }
            }
        }
    }
    out
}

// ---------------------------------------------------------------------------------------------
// encoders

/// Escape every non-ASCII character of a JSON text as \uXXXX (an equivalent JSON encoding).
fn json_ascii(text: &str) -> String {
    let mut out = String::new();
    for c in text.chars() {
        if c.is_ascii() {
            out.push(c);
        } else {
            let mut b = [0u16; 2];
            for u in c.encode_utf16(&mut b) {
                out.push_str(&format!("\\u{:04x}", u));
            }
        }
    }
    out
}

#[derive(Clone, Copy, Debug, PartialEq)]
enum JsonStyle {
    Compact,
    Pretty,
    Ascii,
    Padded,
}
const JSON_STYLES: [JsonStyle; 4] = [JsonStyle::Compact, JsonStyle::Pretty, JsonStyle::Ascii, JsonStyle::Padded];

fn json_text(v: &Value, st: JsonStyle) -> String {
    match st {
        JsonStyle::Compact => serde_json::to_string(v).unwrap(),
        JsonStyle::Pretty => serde_json::to_string_pretty(v).unwrap(),
        JsonStyle::Ascii => json_ascii(&serde_json::to_string(v).unwrap()),
        JsonStyle::Padded => format!(" \r\n\t{} \n", serde_json::to_string(v).unwrap()),
    }
}

#[derive(Clone, Copy, Debug)]
struct GetStyle {
    plus: bool,    // space as '+' (else %20)
    minimal: bool, // escape only what the format requires
    upper: bool,   // hex digit case
}

fn get_styles() -> Vec<GetStyle> {
    let mut v = Vec::new();
    for plus in [true, false] {
        for minimal in [false, true] {
            for upper in [true, false] {
                v.push(GetStyle { plus, minimal, upper });
            }
        }
    }
    v
}

/// Own percent-encoder for application/x-www-form-urlencoded components.
fn pct(s: &str, st: GetStyle) -> String {
    let mut out = String::new();
    for &b in s.as_bytes() {
        let keep = if st.minimal {
            !(b <= 0x20 || b >= 0x7f || matches!(b, b'&' | b'=' | b'+' | b'%' | b'#'))
        } else {
            b.is_ascii_alphanumeric() || matches!(b, b'-' | b'_' | b'.' | b'~')
        };
        if b == b' ' {
            out.push_str(if st.plus { "+" } else { "%20" });
        } else if keep {
            out.push(b as char);
        } else if st.upper {
            out.push_str(&format!("%{:02X}", b));
        } else {
            out.push_str(&format!("%{:02x}", b));
        }
    }
    out
}

fn get_pairs(s: &Spec) -> Vec<(&'static str, String)> {
    let mut p = vec![("query", s.query.clone())];
    if let Some(o) = &s.op {
        p.push(("operationName", o.clone()));
    }
    if let Some(v) = &s.vars {
        p.push(("variables", serde_json::to_string(v).unwrap()));
    }
    if let Some(e) = &s.ext {
        p.push(("extensions", serde_json::to_string(e).unwrap()));
    }
    p
}

fn get_text(pairs: &[(&'static str, String)], order: &[usize], st: GetStyle) -> String {
    order.iter().map(|i| format!("{}={}", pairs[*i].0, pct(&pairs[*i].1, st))).collect::<Vec<_>>().join("&")
}

fn permutations(n: usize) -> Vec<Vec<usize>> {
    fn rec(cur: &mut Vec<usize>, used: &mut Vec<bool>, n: usize, out: &mut Vec<Vec<usize>>) {
        if cur.len() == n {
            out.push(cur.clone());
            return;
        }
        for i in 0..n {
            if !used[i] {
                used[i] = true;
                cur.push(i);
                rec(cur, used, n, out);
                cur.pop();
                used[i] = false;
            }
        }
    }
    let mut out = Vec::new();
    rec(&mut Vec::new(), &mut vec![false; n], n, &mut out);
    out
}

#[derive(Clone, Copy, Debug)]
struct MpStyle {
    ct_header: bool, // operations part carries Content-Type: application/json
    map_first: bool, // map part before operations part
}
const MP_STYLES: [MpStyle; 4] = [
    MpStyle { ct_header: false, map_first: false },
    MpStyle { ct_header: true, map_first: false },
    MpStyle { ct_header: false, map_first: true },
    MpStyle { ct_header: true, map_first: true },
];

fn mp_content_type() -> String {
    format!("multipart/form-data; boundary={BOUNDARY}")
}

fn mp_body(operations: &str, st: MpStyle) -> Vec<u8> {
    let ops = format!(
        "--{BOUNDARY}\r\nContent-Disposition: form-data; name=\"operations\"\r\n{}\r\n{operations}\r\n",
        if st.ct_header { "Content-Type: application/json\r\n" } else { "" }
    );
    let map = format!("--{BOUNDARY}\r\nContent-Disposition: form-data; name=\"map\"\r\n\r\n{{}}\r\n");
    let mut s = String::new();
    if st.map_first {
        s.push_str(&map);
        s.push_str(&ops);
    } else {
        s.push_str(&ops);
        s.push_str(&map);
    }
    s.push_str(&format!("--{BOUNDARY}--\r\n"));
    s.into_bytes()
}

// ---------------------------------------------------------------------------------------------
// running a seam

#[derive(Clone, Debug, PartialEq)]
enum Dec {
    Single(Obs),
    Batch(Vec<Obs>),
}

fn dec_of(b: &BatchRequest) -> Dec {
    match b {
        BatchRequest::Single(r) => Dec::Single(obs_of(r)),
        BatchRequest::Batch(v) => Dec::Batch(v.iter().map(obs_of).collect()),
    }
}
fn dec_json(d: &Dec) -> Value {
    match d {
        Dec::Single(o) => obs_json(o),
        Dec::Batch(v) => Value::Array(v.iter().map(obs_json).collect()),
    }
}

/// Outcome of one call into the code under test.
#[derive(Debug)]
enum Out {
    Ok(Dec),
    Err(String),
    Panic(String),
    /// the future parked although its input was an in-memory slice (harness problem)
    Parked,
}

fn err_text(e: ParseRequestError) -> String {
    // Only used for reports; never compared.
    format!("{e:?}").chars().take(160).collect()
}

fn run_seam(seam: &str, content_type: Option<&str>, body: &[u8]) -> Out {
    let r = agv_engine::catch_quiet(|| -> Option<Result<Dec, ParseRequestError>> {
        match seam {
            "parse_query_string" => {
                let s = std::str::from_utf8(body).expect("query strings are generated as UTF-8");
                Some(parse_query_string(s).map(|r| Dec::Single(obs_of(&r))))
            }
            "receive_json" => sched::drive(receive_json(body)).map(|r| r.map(|r| Dec::Single(obs_of(&r)))),
            "receive_batch_json" => sched::drive(receive_batch_json(body)).map(|r| r.map(|b| dec_of(&b))),
            "receive_body" => sched::drive(receive_body(content_type, body, MultipartOptions::default())).map(|r| r.map(|r| Dec::Single(obs_of(&r)))),
            "receive_batch_body" => sched::drive(receive_batch_body(content_type, body, MultipartOptions::default())).map(|r| r.map(|b| dec_of(&b))),
            other => panic!("unknown seam {other}"),
        }
    });
    match r {
        Err(p) => Out::Panic(p),
        Ok(None) => Out::Parked,
        Ok(Some(Ok(d))) => Out::Ok(d),
        Ok(Some(Err(e))) => Out::Err(err_text(e)),
    }
}

fn bytes_case(b: &[u8]) -> Value {
    match std::str::from_utf8(b) {
        Ok(s) => json!({"text": s}),
        Err(_) => json!({"bytes": b}),
    }
}
fn case_bytes(v: &Value) -> Vec<u8> {
    if let Some(s) = v["text"].as_str() {
        s.as_bytes().to_vec()
    } else {
        v["bytes"].as_array().map(|a| a.iter().map(|x| x.as_u64().unwrap_or(0) as u8).collect()).unwrap_or_default()
    }
}

fn case_json(part: &str, seam: &str, ct: Option<&str>, body: &[u8], extra: Value) -> Value {
    json!({"part": part, "seam": seam, "content_type": ct, "body": bytes_case(body), "info": extra})
}

/// Classify a decoded-vs-expected mismatch from the discrepancy itself.
fn mismatch_class(encoding: &str, exp: &Obs, got: &Obs) -> (String, String) {
    let mut fields = Vec::new();
    if exp.query != got.query {
        fields.push("query");
    }
    if exp.op != got.op {
        fields.push("operationName");
    }
    if exp.vars != got.vars {
        fields.push("variables");
    }
    if exp.ext != got.ext {
        fields.push("extensions");
    }
    if encoding == "get" && fields == ["operationName"] && got.op.is_none() {
        ("get-operationName-ignored".to_string(), "operationName".to_string())
    } else {
        ("decode-mismatch".to_string(), fields.join("+"))
    }
}

/// Judge one well-formed encoding of a single request.
fn judge_single(cx: &Cx, part: &str, encoding: &str, variant: &str, seam: &str, ct: Option<&str>, body: &[u8], exp: &Obs, pick: Option<usize>) {
    cx.eval();
    let out = run_seam(seam, ct, body);
    let case = || case_json(part, seam, ct, body, json!({"encoding": encoding, "variant": variant, "expected": obs_json(exp), "element": pick}));
    match out {
        Out::Parked => cx.machinery_error(format!("{seam} parked on an in-memory body")),
        Out::Panic(p) => cx.violation(Violation::new("panic", format!("{seam} panicked on a well-formed {encoding} encoding: {p}"), case()).key("encoding", encoding).key("seam", seam)),
        Out::Err(e) => cx.violation(
            Violation::new("wellformed-rejected", format!("{seam} rejected a well-formed {encoding} encoding ({variant}): {e}"), case()).key("encoding", encoding).key("seam", seam),
        ),
        Out::Ok(d) => {
            let got = match (&d, pick) {
                (Dec::Single(o), None) => Some(o.clone()),
                (Dec::Batch(v), Some(i)) => v.get(i).cloned(),
                _ => None,
            };
            match got {
                None => cx.violation(
                    Violation::new("decode-mismatch", format!("{seam} decoded a {encoding} encoding to the wrong shape: {}", dec_json(&d)), case()).key("encoding", encoding).key("field", "shape"),
                ),
                Some(g) if g == *exp => {}
                Some(g) => {
                    let (class, field) = mismatch_class(encoding, exp, &g);
                    cx.violation(
                        Violation::new(class, format!("{seam} ({encoding}, {variant}): expected {} but decoded {}", obs_json(exp), obs_json(&g)), case()).key("encoding", encoding).key("field", field),
                    );
                }
            }
        }
    }
}

// ---------------------------------------------------------------------------------------------
// part 1: the request product in every encoding

fn part1(cx: &Cx) {
    let specs = product();
    let styles = get_styles();
    let ct_mp = mp_content_type();
    let filler = json!({"query": "{filler}"});
    specs.par_iter().enumerate().for_each(|(si, s)| {
        let exp = s.expected();
        let js = s.to_json();
        for st in JSON_STYLES {
            let t = json_text(&js, st);
            let v = format!("{st:?}");
            judge_single(cx, "product", "json", &v, "receive_json", None, t.as_bytes(), &exp, None);
            judge_single(cx, "product", "json", &v, "receive_batch_json", None, t.as_bytes(), &exp, None);
            judge_single(cx, "product", "json", &v, "receive_body", None, t.as_bytes(), &exp, None);
            judge_single(cx, "product", "json", &v, "receive_body", Some("application/json"), t.as_bytes(), &exp, None);
            judge_single(cx, "product", "json", &v, "receive_batch_body", Some("application/json; charset=utf-8"), t.as_bytes(), &exp, None);
            // element of a JSON batch, at every position of batches of 1..3
            for (len, pos) in [(1usize, 0usize), (2, 0), (2, 1), (3, 1)] {
                let mut arr = vec![filler.clone(); len];
                arr[pos] = js.clone();
                let t = json_text(&Value::Array(arr), st);
                let v = format!("{st:?}/batch{len}@{pos}");
                judge_single(cx, "product", "json-batch", &v, "receive_batch_json", None, t.as_bytes(), &exp, Some(pos));
                judge_single(cx, "product", "json-batch", &v, "receive_batch_body", Some("application/json"), t.as_bytes(), &exp, Some(pos));
            }
            // multipart operations part
            for mp in MP_STYLES {
                let body = mp_body(&json_text(&js, st), mp);
                let v = format!("{st:?}/{mp:?}");
                judge_single(cx, "product", "multipart", &v, "receive_body", Some(&ct_mp), &body, &exp, None);
                judge_single(cx, "product", "multipart", &v, "receive_batch_body", Some(&ct_mp), &body, &exp, None);
            }
        }
        // GET query string
        let pairs = get_pairs(s);
        for order in permutations(pairs.len()) {
            for st in &styles {
                let t = get_text(&pairs, &order, *st);
                let v = format!("{st:?}/order{order:?}");
                judge_single(cx, "product", "get", &v, "parse_query_string", None, t.as_bytes(), &exp, None);
            }
        }
        // non-trivial: the request carries at least one optional member or a character that needs escaping
        let special = s.query.chars().any(|c| "\"#&=+% \né".contains(c));
        if special || s.op.is_some() || s.vars.is_some() || s.ext.is_some() {
            cx.nontrivial(agv_engine::h64(&("product", si)));
        }
        cx.sample_with(agv_engine::h64(&("product-sample", si)), || {
            json!({"part": "product", "request": js, "get": get_text(&pairs, &(0..pairs.len()).collect::<Vec<_>>(), styles[0]), "get_minimal_pct20": get_text(&pairs, &(0..pairs.len()).collect::<Vec<_>>(), GetStyle{plus:false,minimal:true,upper:false})})
        });
    });
    cx.extra("product_requests", json!(specs.len()));
}

// ---------------------------------------------------------------------------------------------
// part 2 + 3: batches

#[derive(Clone)]
struct BReq {
    spec: Spec,
    /// expected `data` of the response
    data: Value,
}

fn batch_pool(n: usize) -> Vec<BReq> {
    let all = vec![
        BReq { spec: Spec { query: "{ v(id: 1) }".into(), op: None, vars: None, ext: None }, data: json!({"v": 1}) },
        BReq { spec: Spec { query: "query A { v(id: 2) }".into(), op: Some("A".into()), vars: None, ext: None }, data: json!({"v": 2}) },
        BReq { spec: Spec { query: "{ a: v(id: 3) b: v(id: 4) }".into(), op: None, vars: None, ext: Some(json!({"k":"v"})) }, data: json!({"a": 3, "b": 4}) },
        BReq { spec: Spec { query: "query($i: Int!) { v(id: $i) }".into(), op: None, vars: Some(json!({"i": 5})), ext: None }, data: json!({"v": 5}) },
        BReq { spec: Spec { query: "{ c: v(id: 6) }".into(), op: None, vars: Some(json!({})), ext: None }, data: json!({"c": 6}) },
    ];
    all.into_iter().take(n).collect()
}

/// every sequence of 1..=maxlen distinct pool indices
fn orderings(pool: usize, maxlen: usize) -> Vec<Vec<usize>> {
    fn rec(cur: &mut Vec<usize>, pool: usize, maxlen: usize, out: &mut Vec<Vec<usize>>) {
        if !cur.is_empty() {
            out.push(cur.clone());
        }
        if cur.len() == maxlen {
            return;
        }
        for i in 0..pool {
            if !cur.contains(&i) {
                cur.push(i);
                rec(cur, pool, maxlen, out);
                cur.pop();
            }
        }
    }
    let mut out = Vec::new();
    rec(&mut Vec::new(), pool, maxlen, &mut out);
    out
}

fn batch_text(pool: &[BReq], ord: &[usize], st: JsonStyle) -> String {
    json_text(&Value::Array(ord.iter().map(|i| pool[*i].spec.to_json()).collect()), st)
}

fn part2(cx: &Cx, pool: &[BReq], ords: &[Vec<usize>]) {
    let ct_mp = mp_content_type();
    for ord in ords {
        let exp: Vec<Obs> = ord.iter().map(|i| pool[*i].spec.expected()).collect();
        for st in [JsonStyle::Compact, JsonStyle::Pretty] {
            let text = batch_text(pool, ord, st);
            let mut inputs: Vec<(&str, Option<String>, Vec<u8>)> = vec![
                ("receive_batch_json", None, text.clone().into_bytes()),
                ("receive_batch_body", Some("application/json".to_string()), text.clone().into_bytes()),
            ];
            for mp in MP_STYLES {
                inputs.push(("receive_batch_body", Some(ct_mp.clone()), mp_body(&text, mp)));
            }
            for (seam, ct, body) in inputs {
                cx.eval();
                let case = || case_json("batch-decode", seam, ct.as_deref(), &body, json!({"order": ord}));
                match run_seam(seam, ct.as_deref(), &body) {
                    Out::Parked => cx.machinery_error("batch decode parked"),
                    Out::Panic(p) => cx.violation(Violation::new("panic", format!("{seam} panicked on a batch: {p}"), case()).key("encoding", "batch").key("seam", seam)),
                    Out::Err(e) => cx.violation(Violation::new("wellformed-rejected", format!("{seam} rejected a well-formed batch {ord:?}: {e}"), case()).key("encoding", "batch").key("seam", seam)),
                    Out::Ok(Dec::Batch(got)) if got == exp => {
                        if ord.len() >= 2 {
                            cx.nontrivial(agv_engine::h64(&("batch-decode", ord)));
                        }
                    }
                    Out::Ok(d) => {
                        let same_set = matches!(&d, Dec::Batch(g) if g.len() == exp.len() && exp.iter().all(|e| g.contains(e)));
                        let class = if same_set { "batch-order" } else { "decode-mismatch" };
                        cx.violation(
                            Violation::new(class, format!("{seam}: batch {ord:?} decoded to {}", dec_json(&d)), case()).key("stage", "decode").key("encoding", "batch").key("field", "batch"),
                        );
                    }
                }
            }
        }
    }
}

struct Q;
#[Object]
impl Q {
    /// Completes when the scheduler opens gate `v<id>`.
    async fn v(&self, ctx: &Context<'_>, id: i32) -> i32 {
        let h = ctx.data_unchecked::<Handle>().clone();
        h.log(format!("start {id}"));
        h.gate(format!("v{id}")).await;
        h.log(format!("finish {id}"));
        id
    }
}

struct SchedObs {
    end: End,
    schedule: Vec<String>,
    pending: Vec<String>,
    responses: Option<Value>,
    n_responses: Option<usize>,
    decode_err: Option<String>,
}

fn run_batch_once(text: &str, ch: &mut Chooser) -> SchedObs {
    let h = Handle::new();
    let schema = Schema::build(Q, EmptyMutation, EmptySubscription).data(h.clone()).finish();
    let batch = match sched::drive(receive_batch_json(text.as_bytes())) {
        Some(Ok(b)) => b,
        Some(Err(e)) => return SchedObs { end: End::Done, schedule: vec![], pending: vec![], responses: None, n_responses: None, decode_err: Some(err_text(e)) },
        None => return SchedObs { end: End::Deadlock, schedule: vec![], pending: vec![], responses: None, n_responses: None, decode_err: Some("parked".into()) },
    };
    let r = sched::run(&h, ch, &RunCfg::default(), schema.execute_batch(batch), &mut |_| {});
    let (responses, n) = match &r.output {
        Some(b) => (
            Some(serde_json::to_value(b).unwrap_or(Value::Null)),
            match b {
                BatchResponse::Batch(v) => Some(v.len()),
                BatchResponse::Single(_) => None,
            },
        ),
        None => (None, None),
    };
    SchedObs { end: r.end, schedule: r.schedule, pending: r.pending_gates, responses, n_responses: n, decode_err: None }
}

/// Which request does a response answer? (by its `data`)
fn response_matches(resp: &Value, want: &BReq) -> bool {
    resp.get("data") == Some(&want.data) && resp.get("errors").is_none()
}

fn part3(cx: &Cx, pool: &[BReq], ords: &[Vec<usize>]) {
    // comparator self-test: a swapped pair must be noticed
    {
        let a = json!({"data": pool[0].data});
        if response_matches(&a, &pool[1]) || !response_matches(&a, &pool[0]) {
            cx.machinery_error("response comparator self-test failed");
        }
    }
    let traces = std::sync::atomic::AtomicU64::new(0);
    let transitions = std::sync::atomic::AtomicU64::new(0);
    let states: Mutex<BTreeSet<u64>> = Mutex::new(BTreeSet::new());
    let completion_orders: Mutex<BTreeSet<u64>> = Mutex::new(BTreeSet::new());
    let max_gates = std::sync::atomic::AtomicU64::new(0);
    ords.par_iter().for_each(|ord| {
        let text = batch_text(pool, ord, JsonStyle::Compact);
        let st = explore(
            &ExploreCfg::default(),
            &|ch: &mut Chooser| run_batch_once(&text, ch),
            &|ch: &Chooser, o: SchedObs| {
                cx.eval();
                traces.fetch_add(1, std::sync::atomic::Ordering::Relaxed);
                transitions.fetch_add(o.schedule.len() as u64, std::sync::atomic::Ordering::Relaxed);
                max_gates.fetch_max(o.schedule.len() as u64, std::sync::atomic::Ordering::Relaxed);
                {
                    let mut s = states.lock().unwrap();
                    for k in 0..=o.schedule.len() {
                        let mut opened: Vec<&String> = o.schedule[..k].iter().collect();
                        opened.sort();
                        s.insert(agv_engine::h64(&(ord, opened)));
                    }
                }
                completion_orders.lock().unwrap().insert(agv_engine::h64(&(ord, &o.schedule)));
                let case = || json!({"part": "batch-execute", "batch": text, "order": ord, "choices": ch.choices(), "schedule": o.schedule});
                if let Some(e) = &o.decode_err {
                    cx.violation(Violation::new("wellformed-rejected", format!("batch {ord:?} did not decode: {e}"), case()).key("encoding", "batch").key("seam", "receive_batch_json"));
                    return;
                }
                if o.end != End::Done || !o.pending.is_empty() {
                    cx.violation(
                        Violation::new("batch-incomplete", format!("execute_batch ended {:?} with pending gates {:?} under schedule {:?}", o.end, o.pending, o.schedule), case()).key("stage", "response"),
                    );
                    return;
                }
                let resp = o.responses.clone().unwrap_or(Value::Null);
                let arr = resp.as_array().cloned().unwrap_or_default();
                let ok = o.n_responses == Some(ord.len()) && arr.len() == ord.len() && ord.iter().zip(arr.iter()).all(|(i, r)| response_matches(r, &pool[*i]));
                if ok {
                    if ord.len() >= 2 && o.schedule.len() >= 2 {
                        cx.nontrivial(agv_engine::h64(&("sched", ord, &o.schedule)));
                    }
                    cx.sample_with(agv_engine::h64(&("sched-sample", ord, &o.schedule)), || json!({"part": "batch-execute", "batch": text, "completion_order": o.schedule, "responses": resp}));
                } else {
                    // same multiset in another order ⇒ ordering defect; otherwise content defect
                    let same_set = arr.len() == ord.len() && ord.iter().all(|i| arr.iter().any(|r| response_matches(r, &pool[*i])));
                    let class = if same_set { "batch-order" } else { "batch-response-mismatch" };
                    cx.violation(
                        Violation::new(class, format!("batch {ord:?} under completion order {:?}: responses {} do not answer the requests in request order", o.schedule, resp), case()).key("stage", "response"),
                    );
                }
            },
        );
        if let Some(d) = st.diverged {
            cx.machinery_error(format!("batch-execute exploration diverged: {d}"));
        }
        if st.capped {
            cx.machinery_error("batch-execute exploration capped");
        }
    });
    let tr = traces.into_inner();
    let tn = transitions.into_inner();
    let sn = states.into_inner().unwrap().len() as u64;
    cx.add_traces(tr);
    cx.add_transitions(tn);
    cx.add_states(sn);
    cx.extra(
        "batch_execute",
        json!({"orderings": ords.len(), "schedules_executed": tr, "distinct_completion_orders": completion_orders.into_inner().unwrap().len(), "gate_openings": tn, "distinct_states(ordering, opened-gate set)": sn, "max_gates_per_batch": max_gates.into_inner(), "policy": "Eager: every order of gate openings, all alternatives (Exhaustive)"}),
    );
}

// ---------------------------------------------------------------------------------------------
// part 4: malformed encodings

/// Strict RFC 8259 validator (independent of serde_json), input must be UTF-8.
fn json_valid(b: &[u8]) -> bool {
    if std::str::from_utf8(b).is_err() {
        return false;
    }
    fn ws(b: &[u8], i: &mut usize) {
        while *i < b.len() && matches!(b[*i], b' ' | b'\t' | b'\n' | b'\r') {
            *i += 1;
        }
    }
    fn lit(b: &[u8], i: &mut usize, l: &[u8]) -> bool {
        if b[*i..].starts_with(l) {
            *i += l.len();
            true
        } else {
            false
        }
    }
    fn string(b: &[u8], i: &mut usize) -> bool {
        if *i >= b.len() || b[*i] != b'"' {
            return false;
        }
        *i += 1;
        while *i < b.len() {
            match b[*i] {
                b'"' => {
                    *i += 1;
                    return true;
                }
                b'\\' => {
                    *i += 1;
                    if *i >= b.len() {
                        return false;
                    }
                    match b[*i] {
                        b'"' | b'\\' | b'/' | b'b' | b'f' | b'n' | b'r' | b't' => *i += 1,
                        b'u' => {
                            if *i + 4 >= b.len() || !b[*i + 1..*i + 5].iter().all(|c| c.is_ascii_hexdigit()) {
                                return false;
                            }
                            *i += 5;
                        }
                        _ => return false,
                    }
                }
                c if c < 0x20 => return false,
                _ => *i += 1,
            }
        }
        false
    }
    fn digits(b: &[u8], i: &mut usize) -> bool {
        let s = *i;
        while *i < b.len() && b[*i].is_ascii_digit() {
            *i += 1;
        }
        *i > s
    }
    fn number(b: &[u8], i: &mut usize) -> bool {
        if *i < b.len() && b[*i] == b'-' {
            *i += 1;
        }
        if *i < b.len() && b[*i] == b'0' {
            *i += 1;
        } else if !digits(b, i) {
            return false;
        }
        if *i < b.len() && b[*i] == b'.' {
            *i += 1;
            if !digits(b, i) {
                return false;
            }
        }
        if *i < b.len() && (b[*i] == b'e' || b[*i] == b'E') {
            *i += 1;
            if *i < b.len() && (b[*i] == b'+' || b[*i] == b'-') {
                *i += 1;
            }
            if !digits(b, i) {
                return false;
            }
        }
        true
    }
    fn value(b: &[u8], i: &mut usize, depth: u32) -> bool {
        if depth > 64 {
            return false;
        }
        ws(b, i);
        if *i >= b.len() {
            return false;
        }
        match b[*i] {
            b'{' => {
                *i += 1;
                ws(b, i);
                if *i < b.len() && b[*i] == b'}' {
                    *i += 1;
                    return true;
                }
                loop {
                    ws(b, i);
                    if !string(b, i) {
                        return false;
                    }
                    ws(b, i);
                    if *i >= b.len() || b[*i] != b':' {
                        return false;
                    }
                    *i += 1;
                    if !value(b, i, depth + 1) {
                        return false;
                    }
                    ws(b, i);
                    if *i >= b.len() {
                        return false;
                    }
                    match b[*i] {
                        b',' => *i += 1,
                        b'}' => {
                            *i += 1;
                            return true;
                        }
                        _ => return false,
                    }
                }
            }
            b'[' => {
                *i += 1;
                ws(b, i);
                if *i < b.len() && b[*i] == b']' {
                    *i += 1;
                    return true;
                }
                loop {
                    if !value(b, i, depth + 1) {
                        return false;
                    }
                    ws(b, i);
                    if *i >= b.len() {
                        return false;
                    }
                    match b[*i] {
                        b',' => *i += 1,
                        b']' => {
                            *i += 1;
                            return true;
                        }
                        _ => return false,
                    }
                }
            }
            b'"' => string(b, i),
            b't' => lit(b, i, b"true"),
            b'f' => lit(b, i, b"false"),
            b'n' => lit(b, i, b"null"),
            _ => number(b, i),
        }
    }
    let mut i = 0;
    if !value(b, &mut i, 0) {
        return false;
    }
    ws(b, &mut i);
    i == b.len()
}

fn json_is_object(text: &str) -> bool {
    json_valid(text.as_bytes()) && text.trim_start_matches([' ', '\t', '\n', '\r']).starts_with('{')
}

/// Must be rejected: Err passes, Ok / panic are violations.
fn judge_malformed(cx: &Cx, encoding: &str, kind: &str, seam: &str, ct: Option<&str>, body: &[u8]) {
    cx.eval();
    let case = || case_json("malformed", seam, ct, body, json!({"encoding": encoding, "kind": kind}));
    match run_seam(seam, ct, body) {
        Out::Err(_) => cx.nontrivial(agv_engine::h64(&("malformed", encoding, kind, seam, ct, body))),
        Out::Parked => cx.machinery_error(format!("{seam} parked on an in-memory body")),
        Out::Panic(p) => cx.violation(Violation::new("panic", format!("{seam} panicked on a malformed {encoding} encoding ({kind}): {p}"), case()).key("encoding", encoding).key("seam", seam)),
        Out::Ok(d) => cx.violation(
            Violation::new("malformed-accepted", format!("{seam} accepted a malformed {encoding} encoding ({kind}) as {}", dec_json(&d)), case()).key("encoding", encoding).key("kind", kind),
        ),
    }
}

fn json_seams() -> Vec<(&'static str, Option<&'static str>)> {
    vec![
        ("receive_json", None),
        ("receive_batch_json", None),
        ("receive_body", None),
        ("receive_batch_body", None),
        ("receive_batch_body", Some("application/json")),
    ]
}

/// WHATWG application/x-www-form-urlencoded parser (URLSearchParams), written here as the reference.
struct Form {
    pairs: Vec<(String, String)>,
    bad_escape: bool,
    bad_utf8: bool,
}
fn whatwg_form(input: &[u8]) -> Form {
    let mut f = Form { pairs: Vec::new(), bad_escape: false, bad_utf8: false };
    fn hexv(c: u8) -> Option<u8> {
        (c as char).to_digit(16).map(|d| d as u8)
    }
    let dec = |part: &[u8], f: &mut Form| -> String {
        let mut out = Vec::new();
        let mut i = 0;
        while i < part.len() {
            match part[i] {
                b'+' => {
                    out.push(b' ');
                    i += 1;
                }
                b'%' => {
                    if part.len() >= i + 3 {
                        if let (Some(h), Some(l)) = (hexv(part[i + 1]), hexv(part[i + 2])) {
                            out.push(h * 16 + l);
                            i += 3;
                            continue;
                        }
                    }
                    f.bad_escape = true;
                    out.push(b'%');
                    i += 1;
                }
                c => {
                    out.push(c);
                    i += 1;
                }
            }
        }
        match String::from_utf8(out) {
            Ok(s) => s,
            Err(e) => {
                f.bad_utf8 = true;
                String::from_utf8_lossy(e.as_bytes()).into_owned()
            }
        }
    };
    for seg in input.split(|b| *b == b'&') {
        if seg.is_empty() {
            continue;
        }
        let (n, v) = match seg.iter().position(|b| *b == b'=') {
            Some(p) => (&seg[..p], &seg[p + 1..]),
            None => (seg, &seg[seg.len()..]),
        };
        let n = dec(n, &mut f);
        let v = dec(v, &mut f);
        f.pairs.push((n, v));
    }
    f
}

enum Denot {
    /// the encoding denotes this request
    Req(Obs),
    /// malformed by the rule given (must be rejected)
    Malformed(&'static str),
    /// the standards disagree or leave it open: Err or exactly this request are both accepted
    Lenient(Obs, &'static str),
    /// not judged at all
    Open,
}

fn denote_get(input: &[u8]) -> Denot {
    let f = whatwg_form(input);
    let mut q: Option<String> = None;
    let mut op: Option<String> = None;
    let mut vars: Option<String> = None;
    let mut ext: Option<String> = None;
    for (k, v) in &f.pairs {
        let slot = match k.as_str() {
            "query" => &mut q,
            "operationName" => &mut op,
            "variables" => &mut vars,
            "extensions" => &mut ext,
            _ => continue,
        };
        if slot.is_some() {
            return Denot::Open; // duplicate parameter: first/last/error is left open
        }
        *slot = Some(v.clone());
    }
    for (name, j) in [("variables", &vars), ("extensions", &ext)] {
        if let Some(t) = j {
            if !json_valid(t.as_bytes()) {
                return Denot::Malformed(if name == "variables" { "variables-not-json" } else { "extensions-not-json" });
            }
            if t.trim() == "null" {
                return Denot::Open; // null ≈ absent is left open
            }
            if !json_is_object(t) {
                return Denot::Malformed(if name == "variables" { "variables-not-an-object" } else { "extensions-not-an-object" });
            }
        }
    }
    let parse = |t: &Option<String>| t.as_ref().map(|s| serde_json::from_str::<Value>(s).unwrap_or(Value::Null)).unwrap_or_else(|| json!({}));
    let obs = Obs { query: q.unwrap_or_default(), op, vars: parse(&vars), ext: parse(&ext) };
    if f.bad_escape || f.bad_utf8 {
        let why = if f.bad_escape { "bad-percent-escape" } else { "percent-decoded-bytes-not-utf8" };
        if STRICT_PERCENT {
            return Denot::Malformed(why);
        }
        return Denot::Lenient(obs, why);
    }
    Denot::Req(obs)
}

fn judge_get(cx: &Cx, origin: &str, input: &[u8], counts: &Counters) {
    if std::str::from_utf8(input).is_err() {
        return; // parse_query_string takes &str
    }
    match denote_get(input) {
        Denot::Open => {
            counts.open.fetch_add(1, std::sync::atomic::Ordering::Relaxed);
        }
        Denot::Malformed(kind) => judge_malformed(cx, "get", kind, "parse_query_string", None, input),
        Denot::Req(exp) => judge_single(cx, origin, "get", origin, "parse_query_string", None, input, &exp, None),
        Denot::Lenient(exp, why) => {
            cx.eval();
            let case = || case_json(origin, "parse_query_string", None, input, json!({"encoding": "get", "kind": why, "denotation(WHATWG)": obs_json(&exp)}));
            match run_seam("parse_query_string", None, input) {
                Out::Err(_) => {
                    counts.lenient_rejected.fetch_add(1, std::sync::atomic::Ordering::Relaxed);
                }
                Out::Ok(Dec::Single(g)) if g == exp => {
                    counts.lenient_accepted.fetch_add(1, std::sync::atomic::Ordering::Relaxed);
                }
                Out::Ok(Dec::Single(g)) => {
                    let (class, field) = mismatch_class("get", &exp, &g);
                    if class == "get-operationName-ignored" {
                        cx.violation(Violation::new(class, format!("parse_query_string: expected {} but decoded {}", obs_json(&exp), obs_json(&g)), case()).key("encoding", "get").key("field", field));
                    } else {
                        cx.violation(
                            Violation::new("silently-different-content", format!("parse_query_string accepted a query string with a {why} as {} (neither an error nor the WHATWG denotation {})", obs_json(&g), obs_json(&exp)), case())
                                .key("encoding", "get")
                                .key("kind", why),
                        );
                    }
                }
                Out::Ok(_) => cx.machinery_error("parse_query_string returned a batch"),
                Out::Parked => cx.machinery_error("parse_query_string parked"),
                Out::Panic(p) => cx.violation(Violation::new("panic", format!("parse_query_string panicked: {p}"), case()).key("encoding", "get").key("seam", "parse_query_string")),
            }
        }
    }
}

#[derive(Default)]
struct Counters {
    open: std::sync::atomic::AtomicU64,
    lenient_accepted: std::sync::atomic::AtomicU64,
    lenient_rejected: std::sync::atomic::AtomicU64,
    mp_tail_ok: std::sync::atomic::AtomicU64,
    mp_tail_err: std::sync::atomic::AtomicU64,
    prefixes: std::sync::atomic::AtomicU64,
}

fn exemplars() -> Vec<Spec> {
    vec![
        Spec { query: "{a}".into(), op: None, vars: None, ext: None },
        Spec { query: "{ s(x: \"q\\\"uo#te é\") } # c&d=e+f%g\n".into(), op: Some("a b&c".into()), vars: Some(json!({"s":"&=%+ é", "a": 1})), ext: Some(json!({"k":"v"})) },
        Spec { query: "query A { a }".into(), op: Some("A".into()), vars: Some(json!({})), ext: None },
    ]
}

fn part4(cx: &Cx) {
    let counts = Counters::default();
    let ct_mp = mp_content_type();
    let ex = exemplars();

    // (a) every byte prefix of JSON encodings (single and batch)
    let mut json_texts: Vec<String> = Vec::new();
    for s in &ex {
        for st in [JsonStyle::Compact, JsonStyle::Pretty, JsonStyle::Ascii] {
            json_texts.push(json_text(&s.to_json(), st));
        }
    }
    json_texts.push(json_text(&Value::Array(ex.iter().map(|s| s.to_json()).collect()), JsonStyle::Compact));
    json_texts.par_iter().for_each(|t| {
        let b = t.as_bytes();
        for n in 0..b.len() {
            let p = &b[..n];
            counts.prefixes.fetch_add(1, std::sync::atomic::Ordering::Relaxed);
            if json_valid(p) {
                // a strict prefix that is itself JSON (cannot happen for object/array texts); not judged here
                counts.open.fetch_add(1, std::sync::atomic::Ordering::Relaxed);
                continue;
            }
            for (seam, ct) in json_seams() {
                judge_malformed(cx, "json", "truncated", seam, ct, p);
            }
            judge_malformed(cx, "multipart", "operations-truncated-json", "receive_batch_body", Some(&ct_mp), &mp_body(&String::from_utf8_lossy(p), MP_STYLES[0]));
        }
    });

    // (b) structural JSON errors
    let q = "{\"query\":\"{a}\"";
    let menu: Vec<(&str, Vec<u8>)> = vec![
        ("empty-batch", b"[]".to_vec()),
        ("empty-batch", b" [ ] ".to_vec()),
        ("empty-body", b"".to_vec()),
        ("empty-body", b" ".to_vec()),
        ("non-object", b"1".to_vec()),
        ("non-object", b"\"{a}\"".to_vec()),
        ("non-object", b"true".to_vec()),
        ("non-object", b"null".to_vec()),
        ("array-as-request", b"[\"{a}\"]".to_vec()),
        ("array-as-request", b"[\"{a}\",\"A\",{\"a\":1},{\"k\":\"v\"}]".to_vec()),
        ("array-as-request", b"[[\"{a}\"]]".to_vec()),
        ("array-as-request", format!("[{q}}},[\"{{b}}\"]]").into_bytes()),
        ("batch-of-non-objects", b"[1]".to_vec()),
        ("array-as-request", b"[[]]".to_vec()),
        ("batch-of-non-objects", b"[null]".to_vec()),
        ("batch-of-non-objects", format!("[{q}}},1]").into_bytes()),
        ("batch-of-non-objects", format!("[{q}}},[{q}}}]]").into_bytes()),
        ("wrong-member-type", b"{\"query\":1}".to_vec()),
        ("wrong-member-type", b"{\"query\":[\"{a}\"]}".to_vec()),
        ("wrong-member-type", format!("{q},\"variables\":[]}}").into_bytes()),
        ("wrong-member-type", format!("{q},\"variables\":\"x\"}}").into_bytes()),
        ("wrong-member-type", format!("{q},\"variables\":1}}").into_bytes()),
        ("wrong-member-type", format!("{q},\"operationName\":1}}").into_bytes()),
        ("wrong-member-type", format!("{q},\"operationName\":{{}}}}").into_bytes()),
        ("wrong-member-type", format!("{q},\"extensions\":[]}}").into_bytes()),
        ("wrong-member-type", format!("{q},\"extensions\":\"x\"}}").into_bytes()),
        ("wrong-member-type", format!("[{q},\"variables\":[]}}]").into_bytes()),
        ("trailing-garbage", format!("{q}}} x").into_bytes()),
        ("trailing-garbage", format!("{q}}}{q}}}").into_bytes()),
        ("trailing-garbage", format!("[{q}}}]]").into_bytes()),
        ("trailing-garbage", format!("{q}}},").into_bytes()),
        ("not-json", format!("{q},}}").into_bytes()),
        ("not-json", b"{'query':'{a}'}".to_vec()),
        ("not-json", b"{query:\"{a}\"}".to_vec()),
        ("not-json", b"{\"query\":\"{a}\" \"variables\":{}}".to_vec()),
        ("not-json", b"{\"query\":\"\\x\"}".to_vec()),
        ("not-json", b"{\"query\":\"a\nb\"}".to_vec()),
        ("not-json", b"{\"query\":\"{a}\",\"variables\":{\"a\":01}}".to_vec()),
        ("not-json", b"{\"query\":\"{a}\",\"variables\":{\"a\":.5}}".to_vec()),
        ("not-json", b"query={a}".to_vec()),
        ("invalid-utf8", b"{\"query\":\"\xff\"}".to_vec()),
        ("invalid-utf8", b"{\"query\":\"\xc3\"}".to_vec()),
        ("invalid-utf8", b"\xef\xbb{\"query\":\"{a}\"}".to_vec()),
    ];
    for (kind, body) in &menu {
        // guard the menu itself with the independent validator where it claims "not JSON"
        if (*kind == "not-json" || *kind == "trailing-garbage" || *kind == "invalid-utf8" || *kind == "empty-body") && json_valid(body) {
            cx.machinery_error(format!("malformed menu entry is valid JSON: {}", String::from_utf8_lossy(body)));
        }
        if (*kind == "empty-batch" || *kind == "array-as-request" || *kind == "non-object" || *kind == "batch-of-non-objects" || *kind == "wrong-member-type") && !json_valid(body) {
            cx.machinery_error(format!("structural menu entry is not JSON: {}", String::from_utf8_lossy(body)));
        }
        for (seam, ct) in json_seams() {
            judge_malformed(cx, "json", kind, seam, ct, body);
        }
        if let Ok(s) = std::str::from_utf8(body) {
            judge_malformed(cx, "multipart", kind, "receive_batch_body", Some(&ct_mp), &mp_body(s, MP_STYLES[0]));
            judge_malformed(cx, "multipart", kind, "receive_body", Some(&ct_mp), &mp_body(s, MP_STYLES[1]));
        }
    }

    // (c) GET: every prefix of exemplar query strings, bad JSON in variables=/extensions=, bad escapes
    let styles = get_styles();
    let mut get_texts: Vec<String> = Vec::new();
    for s in &ex {
        let pairs = get_pairs(s);
        let id: Vec<usize> = (0..pairs.len()).collect();
        let rev: Vec<usize> = id.iter().rev().cloned().collect();
        for st in &styles {
            get_texts.push(get_text(&pairs, &id, *st));
            get_texts.push(get_text(&pairs, &rev, *st));
        }
    }
    get_texts.sort();
    get_texts.dedup();
    get_texts.par_iter().for_each(|t| {
        for n in 0..=t.len() {
            counts.prefixes.fetch_add(1, std::sync::atomic::Ordering::Relaxed);
            judge_get(cx, "get-prefix", &t.as_bytes()[..n], &counts);
        }
    });
    let bad_json = ["", "{", "{\"a\":1", "[1]", "1", "\"s\"", "{a:1}", "{'a':1}", "{\"a\":1}x", "{\"a\":1,}", "tru", "{\"a\":}", "}", "{\"a\" 1}", "true"];
    for st in &styles {
        for bj in bad_json {
            for key in ["variables", "extensions"] {
                for lead in ["query=%7Ba%7D&", ""] {
                    let t = format!("{lead}{key}={}", pct(bj, *st));
                    judge_get(cx, "get-bad-json", t.as_bytes(), &counts);
                    let t2 = format!("{key}={}&query=%7Ba%7D", pct(bj, *st));
                    judge_get(cx, "get-bad-json", t2.as_bytes(), &counts);
                }
            }
        }
    }
    let bad_pct = ["query=%", "query=%7", "query=%zz", "query=%7Ba%7D%", "query=%7Ba%7D&variables=%7B%7D%2", "query=%C3", "query=%ff", "query=%C3%28", "query=a%00b", "query=%7Ba%7D&operationName=%E9", "query=%7Ba%7D&variables=%7B%22a%22%3A%22%ff%22%7D", "%71uery=%7Ba%7D", "query%3D=1", "query=%257Ba%257D", "query=%2B+%2b", "query==a", "query=a=b", "&&query=a&&", "query", "=a", "q%75ery=b"];
    for t in bad_pct {
        judge_get(cx, "get-percent", t.as_bytes(), &counts);
    }

    // (d) multipart: every prefix of exemplar bodies; framing / content-type errors
    let mut mp_bodies: Vec<Vec<u8>> = Vec::new();
    for s in &ex {
        for mp in MP_STYLES {
            mp_bodies.push(mp_body(&json_text(&s.to_json(), JsonStyle::Compact), mp));
        }
    }
    mp_bodies.push(mp_body(&json_text(&Value::Array(ex.iter().map(|s| s.to_json()).collect()), JsonStyle::Compact), MP_STYLES[0]));
    mp_bodies.par_iter().for_each(|body| {
        let full = match run_seam("receive_batch_body", Some(&ct_mp), body) {
            Out::Ok(d) => d,
            other => {
                cx.violation(Violation::new("wellformed-rejected", format!("multipart exemplar not decoded: {other:?}"), case_json("malformed", "receive_batch_body", Some(&ct_mp), body, json!({}))).key("encoding", "multipart").key("seam", "receive_batch_body"));
                return;
            }
        };
        for n in 0..body.len() {
            counts.prefixes.fetch_add(1, std::sync::atomic::Ordering::Relaxed);
            let p = &body[..n];
            if n + 2 >= body.len() {
                // the complete close delimiter `--B--` is present: not truncated (RFC 2046 makes the final CRLF optional).
                cx.eval();
                match run_seam("receive_batch_body", Some(&ct_mp), p) {
                    Out::Ok(d) if d == full => {
                        counts.mp_tail_ok.fetch_add(1, std::sync::atomic::Ordering::Relaxed);
                    }
                    Out::Err(_) => {
                        counts.mp_tail_err.fetch_add(1, std::sync::atomic::Ordering::Relaxed);
                    }
                    Out::Ok(d) => cx.violation(
                        Violation::new("silently-different-content", format!("multipart body without its final CRLF decoded to {} instead of {}", dec_json(&d), dec_json(&full)), case_json("malformed", "receive_batch_body", Some(&ct_mp), p, json!({}))).key("encoding", "multipart").key("kind", "tail"),
                    ),
                    Out::Panic(pn) => cx.violation(Violation::new("panic", format!("receive_batch_body panicked: {pn}"), case_json("malformed", "receive_batch_body", Some(&ct_mp), p, json!({}))).key("encoding", "multipart").key("seam", "receive_batch_body")),
                    Out::Parked => cx.machinery_error("multipart decode parked"),
                }
            } else {
                judge_malformed(cx, "multipart", "truncated", "receive_batch_body", Some(&ct_mp), p);
                if n % 7 == 0 {
                    judge_malformed(cx, "multipart", "truncated", "receive_body", Some(&ct_mp), p);
                }
            }
        }
    });
    let good_ops = "{\"query\":\"{a}\"}";
    let good = mp_body(good_ops, MP_STYLES[0]);
    let only = |name: &str, content: &str| format!("--{BOUNDARY}\r\nContent-Disposition: form-data; name=\"{name}\"\r\n\r\n{content}\r\n--{BOUNDARY}--\r\n").into_bytes();
    let two = |c1: &str, c2: &str| format!("--{BOUNDARY}\r\nContent-Disposition: form-data; name=\"operations\"\r\n\r\n{c1}\r\n--{BOUNDARY}\r\nContent-Disposition: form-data; name=\"map\"\r\n\r\n{c2}\r\n--{BOUNDARY}--\r\n").into_bytes();
    let framing: Vec<(&str, Option<String>, Vec<u8>)> = vec![
        ("no-boundary-parameter", Some("multipart/form-data".into()), good.clone()),
        ("wrong-boundary", Some("multipart/form-data; boundary=OTHER".into()), good.clone()),
        ("unparsable-content-type", Some("not a mime type".into()), good_ops.as_bytes().to_vec()),
        ("unparsable-content-type", Some("".into()), good_ops.as_bytes().to_vec()),
        ("no-operations-part", Some(ct_mp.clone()), only("map", "{}")),
        ("no-map-part", Some(ct_mp.clone()), only("operations", good_ops)),
        ("no-parts", Some(ct_mp.clone()), format!("--{BOUNDARY}--\r\n").into_bytes()),
        ("empty-body", Some(ct_mp.clone()), Vec::new()),
        ("map-not-json", Some(ct_mp.clone()), two(good_ops, "{")),
        ("map-not-json", Some(ct_mp.clone()), two(good_ops, "")),
        ("map-wrong-shape", Some(ct_mp.clone()), two(good_ops, "[]")),
        ("map-wrong-shape", Some(ct_mp.clone()), two(good_ops, "{\"0\":\"variables.f\"}")),
        ("map-wrong-shape", Some(ct_mp.clone()), two(good_ops, "{\"0\":[1]}")),
        ("json-body-under-multipart-type", Some(ct_mp.clone()), good_ops.as_bytes().to_vec()),
        ("multipart-body-under-json-type", Some("application/json".into()), good.clone()),
        ("multipart-body-under-json-type", None, good.clone()),
        ("missing-part-headers", Some(ct_mp.clone()), format!("--{BOUNDARY}\r\n{good_ops}\r\n--{BOUNDARY}--\r\n").into_bytes()),
    ];
    for (kind, ct, body) in &framing {
        judge_malformed(cx, "multipart", kind, "receive_batch_body", ct.as_deref(), body);
        judge_malformed(cx, "multipart", kind, "receive_body", ct.as_deref(), body);
    }

    let g = |a: &std::sync::atomic::AtomicU64| a.load(std::sync::atomic::Ordering::Relaxed);
    cx.extra(
        "malformed",
        json!({
            "prefixes_examined": g(&counts.prefixes),
            "not_judged(duplicate parameter, null, prefix that is itself JSON)": g(&counts.open),
            "get_bad_escape_or_non_utf8: accepted with exactly the WHATWG denotation": g(&counts.lenient_accepted),
            "get_bad_escape_or_non_utf8: rejected": g(&counts.lenient_rejected),
            "multipart_final_CRLF_missing: decoded equal": g(&counts.mp_tail_ok),
            "multipart_final_CRLF_missing: rejected": g(&counts.mp_tail_err),
            "strict_percent": STRICT_PERCENT,
        }),
    );
}

// ---------------------------------------------------------------------------------------------

pub fn run(cx: &Cx) {
    cx.rule(
        "case = (request, encoding variant, decoding seam). Product: 6 documents (with \" # & = + % space LF é and a literal %25/%zz) × operationName {absent, A, 'a b&c'} × variables \
         {absent, {}, {a:1}, {s:'&=%+ é'}} × extensions {absent, {k:v}} = 144 requests, each as JSON (4 text styles × 5 seams), as element of JSON batches (positions in batches of 1–3), as GET query \
         string (space as + / %20 × full / minimal escaping × hex case × every parameter order) and as multipart operations part (4 layouts × 2 seams). Batches: every ordering of ≤3 (thorough ≤4) \
         distinct requests, decoded (JSON, multipart) and executed under every completion order of gated resolvers. Malformed: every byte prefix of exemplar encodings, a structural JSON menu, bad JSON \
         in variables=/extensions=, percent-escape menu, multipart framing menu. Non-trivial = product requests with an optional member or an escape-needing character; batches of ≥2 requests (decode) \
         and (ordering, completion order) pairs with ≥2 gates (execute); malformed inputs that were rejected.",
    );
    cx.assume("GET reference = WHATWG URLSearchParams decoding (as the GraphQL-over-HTTP draft prescribes): '+' is space, invalid percent escapes stay literal, non-UTF-8 bytes become U+FFFD; for such inputs Err or exactly that denotation is accepted (STRICT_PERCENT=false), anything else is a violation");
    cx.assume("duplicate query-string parameters, `variables=null`, a missing `query` member and `null` members in JSON are not judged (left open by the statement)");
    cx.assume("a multipart body whose close delimiter is complete but whose final CRLF is missing is not malformed (RFC 2046); Err is tolerated there, Ok must equal the full body's decoding");
    cx.assume("JSON well-formedness reference: an RFC 8259 validator written in the check (not serde_json); expected values come from the generator, not from a decoder");
    let thorough = !cx.quick();
    part1(cx);
    let pool = batch_pool(if thorough { 5 } else { 4 });
    let ords = orderings(pool.len(), if thorough { 4 } else { 3 });
    part2(cx, &pool, &ords);
    part3(cx, &pool, &ords);
    part4(cx);
    cx.exhaustive(true);
    cx.extra("batch_orderings", json!(ords.len()));
}

pub fn replay(case: &Value) -> String {
    if case["part"] == "batch-execute" {
        let text = case["batch"].as_str().unwrap_or("[]").to_string();
        let choices: Vec<u32> = case["choices"].as_array().map(|a| a.iter().map(|x| x.as_u64().unwrap_or(0) as u32).collect()).unwrap_or_default();
        let mut ch = Chooser::from_choices(&choices);
        let o = run_batch_once(&text, &mut ch);
        return format!("batch {text}\n  completion order {:?} (end {:?}, pending {:?})\n  responses {}", o.schedule, o.end, o.pending, o.responses.unwrap_or(Value::Null));
    }
    let seam = case["seam"].as_str().unwrap_or("receive_batch_json");
    let ct = case["content_type"].as_str();
    let body = case_bytes(&case["body"]);
    let out = run_seam(seam, ct, &body);
    let shown = match &out {
        Out::Ok(d) => format!("Ok {}", dec_json(d)),
        Out::Err(e) => format!("Err {e}"),
        Out::Panic(p) => format!("panic {p}"),
        Out::Parked => "parked".into(),
    };
    format!("{seam}(content_type={ct:?}, body={:?}) = {shown}\n  info: {}", String::from_utf8_lossy(&body), case["info"])
}

fn main() {
    agv_engine::driver::main("C23", "exploration", run, Some(replay))
}
