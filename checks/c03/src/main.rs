//! C03 — a field error nulls only the nearest nullable position and is reported once.
//!
//! Space: for every valid document of a small scope over S1's full wrapper
//! matrix (queries, mutations, single-root subscriptions), every single fault
//! position and every pair (resolver error / guard rejection), plus ≤ 1 value
//! deviation (null, empty list, other runtime type). Oracle: data equals the
//! reference's; the reported errors are cancellation-consistent with the
//! reference's error set (agv_refgql::exec::errors_consistent); every error
//! carries the path and a source location of a field node with that key.

use agv_common::casecheck::{key_positions, Target, first_diff, replay_fixed, run_static2, CaseOutcome, Compared};
use agv_common::gen::GenCfg;
use agv_common::glue::{MenuCfg, Obs};
use agv_common::s1;
use agv_engine::explore::{explore, Chooser, Class, ExploreCfg};
use agv_engine::record::{Cx, Violation};
use agv_refgql::ast::OpKind;
use agv_refgql::exec::{errors_consistent, path_str, Ans, Seg};
use agv_refgql::schema::Schema;
use serde_json::{json, Value as J};
use std::sync::atomic::{AtomicU64, Ordering};

const Q_FIELDS: &[(&str, &[&str])] = &[
    ("Query", &["a", "n", "n2", "g", "gnn", "o", "onn", "i", "inn", "u", "l", "ln", "lnn", "lo", "li", "lin", "ll", "lu", "lI", "enn", "s"]),
    ("A", &["a", "n", "n2", "g", "gnn", "o", "onn", "l", "ln", "li"]),
    ("B", &["a", "n", "pb"]),
    ("C", &["a", "pc"]),
    ("I", &["a", "n", "o"]),
    ("J", &["a"]),
    ("U", &[]),
];
const M_FIELDS: &[(&str, &[&str])] = &[("Mutation", &["inc", "m", "mn", "minn"]), ("A", &["a", "n", "onn", "ln"])];
const S_FIELDS: &[(&str, &[&str])] = &[("Subscription", &["ev", "evn", "evnn", "evonn"]), ("A", &["a", "n", "onn", "o", "l"])];

struct Cnt {
    not_doc: AtomicU64,
    invalid: AtomicU64,
    with_fault: AtomicU64,
    agree_with_fault: AtomicU64,
}

fn judge_one(cx: &Cx, c: &Compared, obs: &Obs, flavour: &str, event: usize, cnt: &Cnt) {
    let exp = c.reference.data.as_ref().unwrap();
    let exp_text = c.expected_data_text();
    let got: J = serde_json::from_str(&obs.data).unwrap_or(J::Null);
    let got_paths: Vec<_> = obs.errors.iter().map(|e| e.path.clone()).collect();
    let faults = c.table.values().filter(|a| matches!(a, Ans::Err)).count();
    let case = || {
        let mut j = c.case_json();
        j["event"] = json!(event);
        j
    };
    let describe = || {
        format!(
            "expected data {exp_text} errors at {:?} (nulling {:?})\n got      data {} errors {:?}",
            c.reference.errors.iter().map(|e| path_str(&e.path)).collect::<Vec<_>>(),
            c.reference.errors.iter().map(|e| path_str(e.nulled.as_deref().unwrap_or(&[]))).collect::<Vec<_>>(),
            obs.data,
            obs.errors.iter().map(|e| (path_str(&e.path), e.locs.clone(), e.message.clone())).collect::<Vec<_>>()
        )
    };
    // what kind of position did the (first) reference error null?
    let target = c
        .reference
        .errors
        .first()
        .map(|e| {
            let n = e.nulled.as_deref().unwrap_or(&[]);
            if n.is_empty() {
                "data"
            } else if n == e.path.as_slice() {
                "the-field-itself"
            } else if matches!(n.last(), Some(Seg::Idx(_))) {
                "list-item"
            } else {
                "ancestor-field"
            }
        })
        .unwrap_or("none");
    let mut ok = true;
    if obs.data != exp_text {
        ok = false;
        let diff = first_diff(exp, &got, "").unwrap_or_else(|| "serialization differs".into());
        let kind = diff.split(' ').next().unwrap_or("differs").to_string();
        // does the differing position lie at or below a response key that several field nodes carry?
        // Then its value was assembled from several executions and merged afterwards (C04 finding):
        // a null produced by one execution is overwritten by the object another execution produced.
        let at = diff.split(" at ").nth(1).unwrap_or("");
        let repeated = at.split('/').filter(|s| !s.is_empty() && s.parse::<usize>().is_err()).any(|k| agv_common::casecheck::key_occurrences(&c.doc, k) > 1);
        // (an expected error — a failing resolver, or for dynamic schemas a value of the wrong kind — lies at or below it)
        let at_path: Vec<&str> = at.trim().split('/').filter(|s| !s.is_empty()).collect();
        let pre = at_path.join(".");
        let error_below = c.reference.errors.iter().any(|e| {
            let p = path_str(&e.path);
            p == pre || p.starts_with(&format!("{pre}."))
        });
        if repeated && (faults > 0 || (kind == "expected-null" && error_below)) {
            cx.violation(
                Violation::new("partial-failure-merged-for-repeated-key", format!("{diff}\n {}", describe()), case()).key("flavour", flavour),
            );
            return;
        }
        cx.violation(
            Violation::new(format!("data-{kind}"), format!("{diff}\n {}", describe()), case()).key("flavour", flavour).key("nulled", target).key("faults", faults.to_string()),
        );
    }
    // The library resolves a response key once per field node that carries it (the C04 finding
    // "merged-key-resolved-n-times"); a failing such field is then reported once per node. Recognise
    // exactly that shape: the surplus reports are repeats of an expected path, each with the location of
    // another node of the same key. Everything else goes through the general rule below.
    let (dedup_paths, repeated_key_dups) = agv_common::casecheck::strip_repeated_key_duplicates(&c.doc, obs);
    if repeated_key_dups > 0 && obs.data == exp_text && errors_consistent(&c.reference.errors, &dedup_paths).is_ok() {
        cx.violation(
            Violation::new(
                "error-duplicated-for-repeated-key",
                format!("a failing field selected by several nodes with one response key is reported once per node\n {}", describe()),
                case(),
            )
            .key("flavour", flavour),
        );
        return;
    }
    if let Err(e) = errors_consistent(&c.reference.errors, &got_paths) {
        if ok {
            let class = if e.starts_with("expected an error") { "error-missing" } else { "error-unexpected-or-duplicate" };
            cx.violation(Violation::new(class, format!("{e}\n {}", describe()), case()).key("flavour", flavour).key("nulled", target).key("faults", faults.to_string()));
        }
        ok = false;
    }
    for e in &obs.errors {
        let key = e.path.iter().rev().find_map(|s| if let Seg::Key(k) = s { Some(k.clone()) } else { None }).unwrap_or_default();
        let allowed = key_positions(&c.doc, &key);
        if e.path.is_empty() {
            ok = false;
            cx.violation(Violation::new("error-without-path", format!("field error without a path: {:?}\n {}", e.message, describe()), case()).key("flavour", flavour));
        } else if e.locs.is_empty() || !e.locs.iter().any(|l| allowed.contains(l)) {
            ok = false;
            cx.violation(
                Violation::new("error-location-wrong", format!("error at {} has locations {:?}, field nodes with that key are at {:?}\n {}", path_str(&e.path), e.locs, allowed, describe()), case())
                    .key("flavour", flavour),
            );
        }
    }
    if faults > 0 {
        cnt.with_fault.fetch_add(1, Ordering::Relaxed);
        if ok && !c.reference.errors.is_empty() {
            cnt.agree_with_fault.fetch_add(1, Ordering::Relaxed);
        }
    }
}

fn explore_part(cx: &Cx, refs: &Schema, target: &Target, gcfg: &GenCfg, flavour: &str, bounds: [u32; 4], cnt: &Cnt) {
    let dynamic = matches!(target, Target::Dynamic(_));
    let menu = MenuCfg { errors: true, non_finite: false, wrong_kind: dynamic, rich: false };
    let base_filter = agv_common::dynamic::world_filter(refs);
    // a subscription event of an object type cannot be null in the dynamic API either
    let dyn_filter = |p: &[Seg], t: &agv_refgql::ast::Type, item: bool, a: &Ans| base_filter(p, t, item, a) && !(p.len() == 1 && *a == Ans::Null && refs.is_object(t.base()) && gcfg.op == OpKind::Subscription);
    let filter: Option<agv_common::casecheck::WorldFilter> = if dynamic { Some(&dyn_filter) } else { None };
    let st = explore(
        &ExploreCfg { bounds, ..Default::default() },
        &|ch: &mut Chooser| match run_static2(refs, target, gcfg, ch, menu, Class::Dev(1), Some(Class::Dev(2)), filter) {
            CaseOutcome::NotDoc => {
                cnt.not_doc.fetch_add(1, Ordering::Relaxed);
                None
            }
            CaseOutcome::Invalid => {
                cnt.invalid.fetch_add(1, Ordering::Relaxed);
                None
            }
            CaseOutcome::Machinery(m) => {
                cx.machinery_error(m);
                None
            }
            CaseOutcome::Panic { msg, case } => {
                cx.eval();
                cx.violation(Violation::new("panic", format!("execute panicked: {msg}"), case).key("flavour", flavour));
                None
            }
            CaseOutcome::Ran(c) if flavour.ends_with("-subscription") && c.doc.ops().next().map(|o| o.sel.len() != 1).unwrap_or(true) => {
                // several root field nodes (even with one response key) open one stream each in this
                // library; what a merged subscription root means is outside this property
                let _ = c;
                None
            }
            CaseOutcome::Ran(c) => {
                cx.eval();
                judge_one(cx, &c, &c.obs, flavour, 0, cnt);
                for (i, o) in c.more_events.iter().enumerate() {
                    judge_one(cx, &c, o, flavour, i + 1, cnt);
                }
                let h = c.case_hash();
                let faults = c.table.values().filter(|a| matches!(a, Ans::Err)).count();
                cx.sample_with(h, || {
                    json!({"flavour": flavour, "query": c.text, "world": agv_common::glue::table_json(&c.table), "expected_data": c.expected_data_text(),
                           "expected_errors": c.reference.errors.iter().map(|e| path_str(&e.path)).collect::<Vec<_>>()})
                });
                Some((h, faults))
            }
        },
        &|_, o| {
            if let Some((h, faults)) = o {
                if faults > 0 {
                    cx.nontrivial(h);
                }
            }
        },
    );
    if let Some(d) = st.diverged {
        cx.machinery_error(d);
    }
    cx.extra(&format!("choice_sequences_{flavour}"), json!(st.executions));
    if st.capped {
        cx.exhaustive(false);
    }
}

fn run(cx: &Cx) {
    let refs = match Schema::from_sdl(s1::SDL) {
        Ok(s) => s,
        Err(e) => return cx.machinery_error(format!("S1 reference SDL: {e}")),
    };
    let schema = s1::schema();
    if let Err(e) = agv_common::glue::sdl_equiv(s1::SDL, &schema.sdl()) {
        return cx.machinery_error(format!("S1's reference SDL and Schema::sdl() disagree: {e}"));
    }
    cx.exhaustive(true);
    let cnt = Cnt { not_doc: AtomicU64::new(0), invalid: AtomicU64::new(0), with_fault: AtomicU64::new(0), agree_with_fault: AtomicU64::new(0) };
    let (qn, mn, vdev) = if cx.quick() { (4, 3, 0) } else { (4, 4, 1) };
    // bounds: [decorations, value deviations, faults, -]
    let conds: &[&str] = &["A", "B", "I", "U"];
    let q = GenCfg { schema: &refs, fields: Q_FIELDS, conds, max_nodes: qn, max_depth: 3, named_fragments: 1, deco: Some(Class::Dev(0)), typename: false, op: OpKind::Query, root_fragments: true };
    explore_part(cx, &refs, &Target::Static(&schema), &q, "static-query", [if cx.quick() { 0 } else { 1 }, vdev, 2, 0], &cnt);
    let m = GenCfg { schema: &refs, fields: M_FIELDS, conds: &[], max_nodes: mn, max_depth: 3, named_fragments: 0, deco: None, typename: false, op: OpKind::Mutation, root_fragments: true };
    explore_part(cx, &refs, &Target::Static(&schema), &m, "static-mutation", [0, vdev + 1, 2, 0], &cnt);
    let s = GenCfg { schema: &refs, fields: S_FIELDS, conds: &[], max_nodes: 4, max_depth: 3, named_fragments: 0, deco: None, typename: false, op: OpKind::Subscription, root_fragments: false };
    explore_part(cx, &refs, &Target::Static(&schema), &s, "static-subscription", [0, vdev + 1, 2, 0], &cnt);
    // dynamic flavour: the dynamic twin of S1; faults additionally include values of the wrong kind and
    // nothing / null for a non-null type
    let dynamic = match agv_common::dynamic::build(&refs, agv_common::dynamic::Encoding::default()) {
        Ok(d) => d,
        Err(e) => return cx.machinery_error(format!("dynamic twin of S1 does not build: {e}")),
    };
    let dq = GenCfg { max_nodes: 3, ..GenCfg { schema: &refs, fields: Q_FIELDS, conds, max_nodes: qn, max_depth: 3, named_fragments: 1, deco: Some(Class::Dev(0)), typename: false, op: OpKind::Query, root_fragments: true } };
    explore_part(cx, &refs, &Target::Dynamic(&dynamic), &dq, "dynamic-query", [0, vdev, 2, 0], &cnt);
    let dm = GenCfg { schema: &refs, fields: M_FIELDS, conds: &[], max_nodes: mn, max_depth: 3, named_fragments: 0, deco: None, typename: false, op: OpKind::Mutation, root_fragments: true };
    explore_part(cx, &refs, &Target::Dynamic(&dynamic), &dm, "dynamic-mutation", [0, vdev + 1, 2, 0], &cnt);
    let ds = GenCfg { schema: &refs, fields: S_FIELDS, conds: &[], max_nodes: 4, max_depth: 3, named_fragments: 0, deco: None, typename: false, op: OpKind::Subscription, root_fragments: false };
    explore_part(cx, &refs, &Target::Dynamic(&dynamic), &ds, "dynamic-subscription", [0, vdev + 1, 2, 0], &cnt);

    let agree = cnt.agree_with_fault.load(Ordering::Relaxed);
    if agree == 0 {
        cx.machinery_error("no faulty case on which reference and implementation agree (vacuous or systematically wrong)");
    }
    cx.rule(&format!(
        "case = (valid document, world with ≥ 1 fault). Documents: every valid document with ≤ {qn} selection nodes over S1's wrapper matrix (queries: {} root fields incl. T!, T, [T!]!, [T]!, [T!], [T], [[T]] over Int/A/I/U, both Rust spellings of a fallible nullable field, guarded fields), mutations ≤ {mn} nodes, single-root subscriptions (2 events each, every event judged). Worlds: every single fault position and every pair (resolver error or guard rejection), plus ≤ {vdev} value deviation(s). Non-trivial = distinct cases with ≥ 1 fault.",
        Q_FIELDS[0].1.len()
    ));
    cx.extra("not_a_document", json!(cnt.not_doc.load(Ordering::Relaxed)));
    cx.extra("invalid_by_reference_validator", json!(cnt.invalid.load(Ordering::Relaxed)));
    cx.extra("cases_with_faults", json!(cnt.with_fault.load(Ordering::Relaxed)));
    cx.extra("agreements_with_faults", json!(agree));
    cx.assume("errors inside a subtree discarded by another reported error's propagation are optional (the spec allows cancelling siblings); everything else is mandatory");
    cx.assume("error messages, extensions and error order are not compared");
    cx.assume("dynamic flavour = the dynamic twin of S1 (common/src/dynamic.rs); its fault menu adds values of the wrong kind and nothing/null for a non-null type");
}

fn replay(case: &J) -> String {
    let schema = s1::schema();
    let refs = Schema::from_sdl(s1::SDL).unwrap();
    match replay_fixed(&refs, &Target::Static(&schema), case) {
        CaseOutcome::Ran(c) => format!(
            "\n query: {}\n world: {}\n expected data: {} errors at {:?}\n got: {}",
            c.text,
            agv_common::glue::table_json(&c.table),
            c.expected_data_text(),
            c.reference.errors.iter().map(|e| path_str(&e.path)).collect::<Vec<_>>(),
            c.obs.to_json()
        ),
        CaseOutcome::Panic { msg, .. } => format!("panicked: {msg}"),
        CaseOutcome::Machinery(m) => m,
        _ => "case is not a valid document".into(),
    }
}

fn main() {
    agv_engine::driver::main("C03", "exploration", run, Some(replay))
}
